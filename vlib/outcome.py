"""Three-valued outcome of one generated case."""
import hashlib
import json


class Outcome(dict):
    """status: 'pass' | 'fail' | 'inconclusive'.

    nontrivial : bool   (only meaningful for pass/fail)
    tags       : list of classification labels (tallied in the evidence)
    bucket     : root-cause key of a failure (stable string)
    detail     : human readable text
    """


def passed(nontrivial=False, tags=()):
    return Outcome(status='pass', nontrivial=bool(nontrivial), tags=sorted(set(tags)))


def fail(bucket, detail, tags=(), nontrivial=True):
    return Outcome(status='fail', bucket=str(bucket), detail=str(detail)[:2000],
                   nontrivial=bool(nontrivial), tags=sorted(set(tags)))


def inconclusive(reason, tags=()):
    return Outcome(status='inconclusive', reason=str(reason), nontrivial=False,
                   tags=sorted(set(tags)))


def canon(case):
    return json.dumps(case, sort_keys=True, separators=(',', ':'), default=_default)


def _default(o):
    try:
        import numpy as np
        if isinstance(o, (np.integer,)):
            return int(o)
        if isinstance(o, (np.floating,)):
            return float(o)
        if isinstance(o, np.ndarray):
            return o.tolist()
    except Exception:
        pass
    if isinstance(o, (set, frozenset)):
        return sorted(o)
    if isinstance(o, tuple):
        return list(o)
    return repr(o)


def case_hash(case):
    return hashlib.sha1(canon(case).encode()).hexdigest()[:16]


class CaseTimeout(BaseException):
    pass


def exc_bucket(exc, prefix='exception'):
    """Bucket key for an unexpected exception: type + innermost wntr frame."""
    import traceback
    tb = traceback.extract_tb(exc.__traceback__)
    where = 'unknown'
    for fr in reversed(tb):
        fn = fr.filename.replace('\\', '/')
        if '/wntr/' in fn and '/vlib/' not in fn:
            where = fn.split('/wntr/', 1)[1] + ':' + fr.name
            break
    return '%s/%s/%s' % (prefix, type(exc).__name__, where)
