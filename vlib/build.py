"""Rebuild the two SWIG extensions of the tree under test when their sources changed."""
import fcntl
import glob
import hashlib
import os
import subprocess
import sys

SRC = ['wntr/sim/aml/evaluator.cpp', 'wntr/sim/aml/evaluator.hpp', 'wntr/sim/aml/evaluator_wrap.cpp',
       'wntr/sim/network_isolation/network_isolation.cpp', 'wntr/sim/network_isolation/network_isolation.hpp',
       'wntr/sim/network_isolation/network_isolation_wrap.cpp', 'setup.py']


def _hash(repo):
    h = hashlib.sha256()
    for s in SRC:
        p = os.path.join(repo, s)
        if os.path.exists(p):
            with open(p, 'rb') as f:
                h.update(f.read())
    return h.hexdigest()


def ensure_built(repo):
    """Returns a short description of what was done. Raises on build failure."""
    work = os.path.join(os.path.dirname(os.path.dirname(os.path.abspath(__file__))), '.work')
    os.makedirs(work, exist_ok=True)
    tag = hashlib.sha1(os.path.abspath(repo).encode()).hexdigest()[:10]
    stamp = os.path.join(work, 'build_%s.hash' % tag)
    want = _hash(repo)
    lock = open(os.path.join(work, 'build_%s.lock' % tag), 'w')
    fcntl.flock(lock, fcntl.LOCK_EX)
    try:
        so1 = glob.glob(os.path.join(repo, 'wntr/sim/aml/_evaluator*.so'))
        so2 = glob.glob(os.path.join(repo, 'wntr/sim/network_isolation/_network_isolation*.so'))
        have = open(stamp).read().strip() if os.path.exists(stamp) else None
        if so1 and so2 and have == want:
            return 'extensions up to date'
        r = subprocess.run([sys.executable, 'setup.py', 'build_ext', '--inplace'], cwd=repo,
                           stdout=subprocess.PIPE, stderr=subprocess.STDOUT, text=True)
        if r.returncode != 0:
            raise RuntimeError('build_ext failed:\n' + r.stdout[-3000:])
        open(stamp, 'w').write(want)
        return 'extensions rebuilt'
    finally:
        fcntl.flock(lock, fcntl.LOCK_UN)
        lock.close()
