"""C12 - writing a model to an EPANET INP file and reading it back preserves it (all units, 2.2/2.0, idempotent)."""
import atexit
import os
import re
import shutil
import tempfile

from hypothesis import strategies as st

from ..outcome import exc_bucket, fail, passed

ID = 'C12'
LEVEL = 'exploration'
CASES = {'quick': 3200, 'thorough': 60000}
CASE_TIMEOUT = 30
SHRINK_BUDGET = {'quick': 30, 'thorough': 200}
TECHNIQUE = ('property-based testing (Hypothesis): generated rich models are written with write_inpfile and read back '
             'with read_inpfile; differential comparison of to_dict()/control structure of original and re-read model '
             'per element name and field, then a second cycle (metamorphic: idempotence of write/read and of the text)')
RULE = ('Own generator: plain-data description of a model (2-6 junctions with 1-3 demands/categories/patterns, emitters, '
        'initial quality, tags; tanks with/without volume curve, overflow, mixing model, bulk coefficient; reservoirs '
        'with head patterns; pipes with CV/status/minor loss/bulk+wall coefficients/vertices/tags; HEAD and POWER pumps '
        'with speed, speed pattern, [STATUS] setting, efficiency curve, energy price/pattern; PRV/PSV/PBV/FCV/TCV/GPV in '
        'each status; patterns, referenced and unreferenced curves of every type, sources of all four types, '
        'time/hydraulic/quality/reaction/energy/report options, simple controls (time, clocktime, tank level, junction '
        'pressure -> status/setting/pump speed), rules (conjunctions of OR groups over the EPANET attributes, 1-2 THEN, '
        '0-2 ELSE actions, PRIORITY)), flow unit out of the ten EPANET units (passed as argument or via '
        'options.hydraulic.inpfile_units), version 2.2 or 2.0, built through the public API. Values whose INP format is '
        'lossy (%f curves/patterns, %.4f energy/reaction values, %.2f PDD pressures, %.6g rule values, %.7g pump '
        'status setting) are drawn on a decimal grid in the file unit and converted to SI with wntr.epanet.util.to_si; '
        'all other values are SI decimals. Non-trivial = at least 4 element types, at least one simple control and at '
        'least one rule; distinct = SHA-1 of the case.')
ASSUMPTIONS = [
    'model elements are compared by name; simple controls (no names in INP) as a multiset; sources by node '
    '(one source per node, as in INP); rule conditions as conjunctions of OR groups (EPANET evaluates '
    '"A OR B AND C" as "(A OR B) AND C"; only such conditions are generated, tree associativity is not compared)',
    'outside the statement and therefore generated but not compared: pattern interpolation, per-junction PDD '
    'parameters, leaks (and their node-targeted controls), empty patterns, curves nothing refers to, initial quality '
    'of links ([QUALITY] has nodes only), report and graphics options, model name; for version 2.0: demand model, '
    'PDD pressures/exponent, HEADERROR, FLOWCHANGE, tank overflow',
    'a pattern name that does not denote an existing non-empty pattern (e.g. the default "1" when no such pattern '
    'exists) is equivalent to no pattern (EPANET convention); "no default pattern although a pattern named 1 exists" '
    'has no INP spelling (EPANET defaults to pattern 1) and is not generated; a pump [STATUS] setting of 1.0 is the '
    'EPANET default and equivalent to none (not generated)',
    'the derived read-only junction fields base_demand/demand_pattern/demand_category repeat demand 0 and are not '
    'compared a second time; pump.efficiency is compared by curve name, the curve itself under curves',
    'options.hydraulic.inpfile_units is compared only when the unit was chosen through that option',
    'PDD pressures/exponent are left at their defaults unless the demand model is PDD (the writer emits them only '
    'then); required pressure >= 0.1 file units (EPANET limit, the writer clamps below it)',
    'pump simple controls use attribute base_speed, pump rule actions attribute setting (the two spellings the '
    'readers produce for EPANET\'s single pump setting); a CV pipe has status Open; a closed pump has no [STATUS] '
    'speed setting; mixing fraction only with 2COMP; integer seconds for all times; wall order 0 or 1 (EPANET '
    'accepts nothing else), bulk and tank order any real (EPANET reads them as reals)',
    'second cycle: the model read from the first file is compared with the model read from its own rewrite in all '
    'to_dict() fields (also report/graphics options, read from the options object), and the texts of the second and '
    'third file are compared; first-cycle exclusions do not apply there because an INP-born model holds nothing the '
    'format cannot express',
    'one failing case reports one bucket: exceptions first, then first-cycle differences in alphabetical order (the '
    'very frequent single-demand category last), then second-cycle differences; the detail text lists the others',
    'input construction (not the oracle) uses wntr.epanet.util.to_si to turn file-unit grid values into the SI '
    'numbers given to the API; unit constants themselves are property C17',
]
TOLERANCES = {
    'first_cycle_rel': '1e-9 relative (+1e-300): %.11g fields carry 11 significant digits (<= 5e-11), repr()/str() '
                       'fields are exact, lossy-format fields are generated on a grid that prints exactly',
    'second_cycle_rel': 1e-12,
    'text': 'lines equal after removing the "; Filename/WNTR/Created" header, collapsing whitespace and dropping empty '
            'lines; numeric tokens may differ by 1e-12 relative (str() fields print 17 digits and from_si(to_si(x)) may '
            'move the last one)',
}
LEVEL_TEXT = ('exploration: random search over generated models; a violation is a concrete replayable model, absence '
              'of violations is no proof')
LEVEL_NOTE = ('trusted base: Hypothesis, the harness, WaterNetworkModel construction through the public API and '
              'to_dict() as observation of both models (C13/C14 check those), wntr.epanet.util.to_si for building '
              'grid values')

UNITS = ['CFS', 'GPM', 'MGD', 'IMGD', 'AFD', 'LPS', 'LPM', 'MLD', 'CMH', 'CMD']
US = {'CFS', 'GPM', 'MGD', 'IMGD', 'AFD'}
RELS = ['=', '<>', '<', '>', '<=', '>=']
REL4 = ['<', '>', '<=', '>=']
VALVE_TYPES = ['PRV', 'PSV', 'PBV', 'FCV', 'TCV', 'GPV']

# --------------------------------------------------------------------------------------------- generator


def _g(draw, lo, hi, dec):
    """decimal grid value k / 10**dec with lo <= value <= hi"""
    s = 10 ** dec
    return draw(st.integers(int(round(lo * s)), int(round(hi * s)))) / s


def _opt(draw, strat, p_none=0.5):
    if draw(st.floats(0, 1)) < p_none:
        return None
    return draw(strat)


@st.composite
def _options(draw, pat_names, node_names):
    hyd = draw(st.sampled_from([60, 300, 900, 1800, 3600, 3600, 7200, 77]))
    t = {
        'duration': draw(st.sampled_from([0, 3600, 86400, 24 * 3600 * 7 + 1800, 5025])),
        'hydraulic_timestep': hyd,
        'quality_timestep': draw(st.sampled_from([60, 300, 360, 45])),
        'rule_timestep': draw(st.sampled_from([60, 360, 600, 36])),
        'pattern_timestep': draw(st.sampled_from([600, 1800, 3600, 7200, 3605])),
        'pattern_start': draw(st.sampled_from([0, 0, 3600, 5400, 90000, 17])),
        'report_timestep': hyd * draw(st.sampled_from([1, 1, 2, 6])),
        'report_start': draw(st.sampled_from([0, 0, 3600, 7260])),
        'start_clocktime': draw(st.sampled_from([0, 0, 3600, 6 * 3600 + 1805, 12 * 3600, 12 * 3600 + 1800,
                                                 13 * 3600, 86399])),
        'statistic': draw(st.sampled_from(['NONE', 'NONE', 'AVERAGED', 'MINIMUM', 'MAXIMUM', 'RANGE'])),
        'pattern_interpolation': draw(st.sampled_from([False, False, False, True])),
    }
    pdd = draw(st.booleans())
    h = {
        'headloss': draw(st.sampled_from(['H-W', 'H-W', 'D-W', 'C-M'])),
        'viscosity': _g(draw, 0.5, 2, 2), 'specific_gravity': _g(draw, 0.5, 2, 2),
        'trials': draw(st.sampled_from([200, 40, 1, 500])),
        'accuracy': draw(st.sampled_from([0.001, 0.01, 0.0001, 0.005])),
        'unbalanced': draw(st.sampled_from(['STOP', 'CONTINUE'])),
        'unbalanced_value': draw(st.sampled_from([None, None, 0, 10, 35])),
        'checkfreq': draw(st.sampled_from([2, 5])), 'maxcheck': draw(st.sampled_from([10, 30])),
        'damplimit': draw(st.sampled_from([0, 0, 0.01, 0.5])),
        'headerror': draw(st.sampled_from([0, 0, 0.001, 0.25])),
        'flowchange': draw(st.sampled_from([0, 0, 0.001, 0.5])),
        'pattern': draw(st.sampled_from(['1', None] + pat_names)),
        'demand_multiplier': _g(draw, 0.1, 3, 2), 'emitter_exponent': _g(draw, 0.3, 2, 2),
        'demand_model': draw(st.sampled_from(['PDD', 'PDA'])) if pdd else draw(st.sampled_from(['DD', 'DDA'])),
        'pressure_units': draw(st.sampled_from([None, None, 'consistent'])),
        'hydraulics': draw(st.sampled_from([None, None, None, ['SAVE', 'hyd.bin'], ['USE', 'old.hyd']])),
    }
    if pdd:
        h['pmin_file'] = _g(draw, 0, 40, 1)
        h['preq_file'] = round(h['pmin_file'] + _g(draw, 0.1, 60, 1), 1)
        h['pexp'] = _g(draw, 0.1, 2, 2)
    par = draw(st.sampled_from(['NONE', 'NONE', 'AGE', 'TRACE', 'CHEMICAL', 'CHEMICAL', 'CHEMICAL']))
    q = {'parameter': par, 'diffusivity': _g(draw, 0.1, 3, 2), 'tolerance': _g(draw, 0.001, 0.1, 3)}
    if par == 'TRACE':
        q['trace_node'] = draw(st.sampled_from(node_names))
    if par == 'CHEMICAL':
        q['chemical_name'] = draw(st.sampled_from(['CHEMICAL', 'Chlorine', 'Cl2']))
        q['units'] = draw(st.sampled_from(['mg/L', 'mg/L', 'ug/L']))
    r = {
        'bulk_order': draw(st.sampled_from([1, 1, 1, 0, 2, 2, 1.5])), 'wall_order': draw(st.sampled_from([1, 1, 0])),
        'tank_order': draw(st.sampled_from([1, 1, 1, 0, 2, 2, 0.5])),
        'bulk_coeff_file': draw(st.sampled_from([0.0, 0.0])) if draw(st.booleans()) else _g(draw, -5, 5, 3),
        'wall_coeff_file': draw(st.sampled_from([0.0, 0.0])) if draw(st.booleans()) else _g(draw, -5, 5, 3),
        'limiting_potential': _opt(draw, st.integers(1, 5000).map(lambda k: k / 100), 0.7),
        'roughness_correl': _opt(draw, st.integers(-500, 500).map(lambda k: k / 100), 0.7),
    }
    e = {
        'global_price_file': draw(st.sampled_from([0, 0])) if draw(st.booleans()) else _g(draw, 0, 2, 3),
        'global_pattern': draw(st.sampled_from([None, None] + pat_names)),
        'global_efficiency': _opt(draw, st.integers(100, 10000).map(lambda k: k / 100), 0.5),
        'demand_charge': _opt(draw, st.integers(0, 20000).map(lambda k: k / 1000), 0.6),
    }
    rep = {
        'status': draw(st.sampled_from(['NO', 'NO', 'YES', 'FULL'])),
        'summary': draw(st.sampled_from(['YES', 'YES', 'NO'])),
        'energy': draw(st.sampled_from(['NO', 'NO', 'YES'])),
        'nodes': draw(st.sampled_from([False, False, True, 'some'])),
        'links': draw(st.sampled_from([False, False, True, 'some'])),
        'pagesize': draw(st.sampled_from([None, None, 55])),
        'report_filename': draw(st.sampled_from([None] * 15 + ['out.rpt'])),
    }
    return {'time': t, 'hyd': h, 'qual': q, 'react': r, 'energy': e, 'report': rep}


def _xy(draw):
    return [_g(draw, -1000, 1000, 2), _g(draw, -1000, 1000, 2)]


_TAG = st.sampled_from([None, None, None, 'zoneA', 'T_1', 'x9'])
_CAT = st.sampled_from([None, None, 'dom', 'Industrial', 'fire flow'])


def _quality_value(draw, par):
    """SI initial quality (written with str(): exact)"""
    if draw(st.integers(0, 2)) > 0:
        return None
    if par == 'AGE':
        return float(draw(st.integers(1, 400)) * 900)            # seconds
    if par == 'CHEMICAL':
        return draw(st.integers(1, 5000)) / 1e6                  # kg/m3
    return draw(st.integers(1, 1000)) / 10.0


@st.composite
def _curve_pts(draw, ctype):
    n = draw(st.sampled_from([1, 3, 3, 2, 5] if ctype == 'HEAD' else [2, 3, 4])) if ctype != 'UNREF' else draw(st.integers(1, 3))
    xs = sorted(set(draw(st.lists(st.integers(0, 400000), min_size=n, max_size=n))))
    if ctype == 'VOLUME':       # add_tank demands that the curve covers [min_level, max_level] (<= 23 m = 75.5 ft)
        xs = [0] + sorted(set(draw(st.lists(st.integers(1, 99999), max_size=2)))) + [100000 + draw(st.integers(0, 50000))]
    pts = []
    y = draw(st.integers(1, 300000))
    for i, x in enumerate(xs):
        if ctype == 'HEAD':
            y = max(1, y - draw(st.integers(1, 20000)))
        elif ctype == 'VOLUME':
            y = y + draw(st.integers(1, 200000))
        elif ctype == 'EFFICIENCY':
            y = draw(st.integers(1000, 95000))
        else:
            y = draw(st.integers(0, 300000))
        pts.append([x / 1000.0, y / 1000.0])
    return pts


@st.composite
def case_strategy(draw, tier='quick'):
    big = tier == 'thorough'
    nj = draw(st.integers(2, 8 if big else 5))
    nt = draw(st.sampled_from([0, 1, 1, 2]))
    nr = draw(st.sampled_from([0, 1, 1, 2]))
    jn = [draw(st.sampled_from(['J%d', 'j%d', 'Jn-%d', '%d', 'Junction_with_a_long_name_%d'])) % (i + 1) for i in range(nj)]
    tn = ['T%d' % (i + 1) for i in range(nt)]
    rn = [draw(st.sampled_from(['R%d', 'res_%d'])) % (i + 1) for i in range(nr)]
    nodes = jn + tn + rn
    # ---- patterns
    pats = []
    for i in range(draw(st.integers(1, 4))):
        ln = draw(st.sampled_from([1, 2, 3, 5, 6, 7, 13]))
        pats.append(['PAT%d' % (i + 1), [draw(st.integers(0, 3000)) / 1000.0 for _ in range(ln)]])
    if draw(st.integers(0, 3)) == 0:
        pats.append(['1', [draw(st.integers(0, 3000)) / 1000.0 for _ in range(draw(st.integers(1, 4)))]])
    if draw(st.integers(0, 4)) == 0:
        pats.append(['EMPTY', []])
    pn = [p[0] for p in pats if p[1]]
    pat = st.sampled_from([None] + pn)
    opts = draw(_options(pn, nodes))
    if '1' in pn and opts['hyd']['pattern'] is None:
        # "no default pattern although a pattern named 1 exists" cannot be said in an INP file (EPANET's default is "1")
        opts['hyd']['pattern'] = '1'
    par = opts['qual']['parameter']
    # ---- curves (typed; some will stay unreferenced)
    curves = []
    for ctype, pref in (('HEAD', 'HC'), ('EFFICIENCY', 'EC'), ('VOLUME', 'VC'), ('HEADLOSS', 'GC')):
        for i in range(draw(st.sampled_from([0, 1, 1, 2]))):
            curves.append({'name': '%s%d' % (pref, i + 1), 'type': ctype, 'pts': draw(_curve_pts(ctype))})
    if draw(st.integers(0, 3)) == 0:
        curves.append({'name': 'XC1', 'type': draw(st.sampled_from([None, 'HEAD', 'VOLUME'])),
                       'pts': draw(_curve_pts('UNREF'))})
    cn = {t: [c['name'] for c in curves if c['type'] == t and c['name'] != 'XC1']
          for t in ('HEAD', 'EFFICIENCY', 'VOLUME', 'HEADLOSS')}
    # ---- nodes
    junctions = []
    for name in jn:
        nd = draw(st.sampled_from([1, 1, 2, 3]))
        j = {'name': name, 'elev': _g(draw, -100, 3000, 1), 'xy': _xy(draw), 'tag': draw(_TAG),
             'demands': [[draw(st.integers(-200, 5000)) / 1e5, draw(pat), draw(_CAT)] for _ in range(nd)],
             'emitter': _opt(draw, st.integers(1, 500).map(lambda k: k / 1e5), 0.7),
             'iq': _quality_value(draw, par)}
        if draw(st.integers(0, 9)) == 0:
            j['pdd'] = [_g(draw, 0, 5, 1), _g(draw, 6, 30, 1), _g(draw, 0.2, 1, 1)]
        if draw(st.integers(0, 11)) == 0:
            j['leak'] = [_g(draw, 0.0001, 0.01, 4), draw(st.sampled_from([None, 3600])), draw(st.sampled_from([None, 7200]))]
        junctions.append(j)
    tanks = []
    for name in tn:
        mn = _g(draw, 0, 3, 1)
        mx = round(mn + _g(draw, 1, 20, 1), 1)
        tk = {'name': name, 'elev': _g(draw, 0, 500, 1), 'min': mn, 'max': mx,
              'init': round(mn + draw(st.integers(0, int(round((mx - mn) * 10)))) / 10.0, 1),
              'diam': _g(draw, 1, 60, 1), 'min_vol': draw(st.sampled_from([0.0, 0.0, 12.5, 300.0])),
              'vol_curve': draw(st.sampled_from([None] + cn['VOLUME'])),
              'overflow': draw(st.booleans()), 'xy': _xy(draw), 'tag': draw(_TAG),
              'mixing': draw(st.sampled_from([None, None, 'MIXED', '2COMP', 'FIFO', 'LIFO'])),
              'bulk_file': _opt(draw, st.integers(-3000, 3000).map(lambda k: k / 1000), 0.6),
              'iq': _quality_value(draw, par)}
        if tk['mixing'] == '2COMP':
            tk['fraction'] = _g(draw, 0.05, 0.95, 2)
        tanks.append(tk)
    reservoirs = []
    for name in rn:
        reservoirs.append({'name': name, 'head': _g(draw, -10, 500, 2), 'pat': draw(pat), 'xy': _xy(draw),
                           'tag': draw(_TAG), 'iq': _quality_value(draw, par)})
    n = len(nodes)

    def ends(only_junctions=False):
        pool = jn if only_junctions else nodes
        a = draw(st.integers(0, len(pool) - 1))
        b = (a + 1 + draw(st.integers(0, len(pool) - 2))) % len(pool)
        return pool[a], pool[b]

    def verts():
        return [_xy(draw) for _ in range(draw(st.sampled_from([0, 0, 0, 1, 2, 3])))]

    hl = opts['hyd']['headloss']
    pipes = []
    for i in range(draw(st.integers(1, 10 if big else 6))):
        a, b = ends()
        cv = draw(st.integers(0, 4)) == 0
        rough = (draw(st.integers(1, 500)) / 1e5 if hl == 'D-W' else
                 draw(st.integers(8, 20)) / 1000.0 if hl == 'C-M' else draw(st.integers(500, 1500)) / 10.0)
        pipes.append({'name': draw(st.sampled_from(['p%d', 'P-%d', 'pipe_%d', '%d'])) % (i + 1), 'a': a, 'b': b,
                      'len': _g(draw, 1, 5000, 1), 'diam': _g(draw, 0.02, 2, 3), 'rough': rough,
                      'minor': draw(st.sampled_from([0.0, 0.0, 0.5, 12.25])), 'cv': cv,
                      'status': 'OPEN' if cv else draw(st.sampled_from(['OPEN', 'OPEN', 'CLOSED'])),
                      'bulk_file': _opt(draw, st.integers(-3000, 3000).map(lambda k: k / 1000), 0.7),
                      'wall_file': _opt(draw, st.integers(-3000, 3000).map(lambda k: k / 1000), 0.7),
                      'verts': verts(), 'tag': draw(_TAG),
                      'iq': draw(st.sampled_from([None, None, None, 1.5]))})
    pumps = []
    for i in range(draw(st.sampled_from([0, 1, 1, 2, 3]))):
        a, b = ends()
        head = bool(cn['HEAD']) and draw(st.booleans())
        status = draw(st.sampled_from(['OPEN', 'OPEN', 'CLOSED']))
        pu = {'name': 'U%d' % (i + 1), 'a': a, 'b': b, 'type': 'HEAD' if head else 'POWER',
              'curve': draw(st.sampled_from(cn['HEAD'])) if head else None,
              'power': None if head else _g(draw, 0.1, 500, 1) * 1000.0,
              'speed': draw(st.sampled_from([1.0, 1.0, 0.8, 1.25, 0.0])), 'spat': draw(pat), 'status': status,
              'setting': (draw(st.sampled_from([None, None, 0.9, 0.625, 1.375])) if status == 'OPEN' else None),
              'eff': draw(st.sampled_from([None] + cn['EFFICIENCY'])),
              'price_file': _opt(draw, st.integers(1, 3000).map(lambda k: k / 1000), 0.6),
              'epat': draw(pat), 'verts': verts(), 'tag': draw(_TAG)}
        pumps.append(pu)
    valves = []
    for i in range(draw(st.sampled_from([0, 1, 1, 2, 3]))):
        vt = draw(st.sampled_from(VALVE_TYPES))
        if vt == 'GPV' and not cn['HEADLOSS']:
            vt = 'TCV'
        a, b = ends(only_junctions=vt in ('PRV', 'PSV', 'FCV'))
        if vt in ('PRV', 'PSV', 'PBV'):
            setting = _g(draw, 0, 100, 2)                    # m
        elif vt == 'FCV':
            setting = draw(st.integers(0, 50000)) / 1e5      # m3/s
        elif vt == 'TCV':
            setting = _g(draw, 0, 500, 1)
        else:
            setting = draw(st.sampled_from(cn['HEADLOSS']))
        valves.append({'name': 'V%d' % (i + 1), 'a': a, 'b': b, 'type': vt, 'diam': _g(draw, 0.02, 2, 3),
                       'minor': draw(st.sampled_from([0.0, 0.0, 2.5])), 'setting': setting,
                       'status': draw(st.sampled_from(['ACTIVE', 'ACTIVE', 'OPEN', 'CLOSED'])),
                       'verts': verts(), 'tag': draw(_TAG)})
    links = [('pipe', p['name'], None) for p in pipes] + [('pump', p['name'], None) for p in pumps] + \
            [('valve', v['name'], v['type']) for v in valves]
    # ---- sources (at most one per node, as in INP)
    sources = []
    for k, i in enumerate(sorted(set(draw(st.lists(st.integers(0, n - 1), max_size=3))))):
        stype = draw(st.sampled_from(['CONCEN', 'MASS', 'FLOWPACED', 'SETPOINT']))
        sources.append({'name': 'src%d' % (k + 1), 'node': nodes[i], 'type': stype,
                        'strength': draw(st.integers(1, 9000)) / (1e7 if stype == 'MASS' else 1e6),
                        'pat': draw(pat)})

    # ---- actions shared by controls and rules
    def action(for_rule):
        kind, name, vt = links[draw(st.integers(0, len(links) - 1))]
        choice = draw(st.integers(0, 2))
        if kind == 'pipe' or choice == 0 or vt == 'GPV':
            stat = ['OPEN', 'CLOSED'] + (['ACTIVE'] if kind == 'valve' else [])
            return [name, 'status', draw(st.sampled_from(stat))]
        if kind == 'pump':
            return [name, 'setting' if for_rule else 'base_speed', _g(draw, 0, 2, 2)]
        # valve setting: rules print %.6g in file units (grid there); controls print repr of the converted SI value
        if for_rule:
            return [name, 'setting', _g(draw, 0, 900, 2)]
        return [name, 'setting', draw(st.integers(0, 90000)) / (1e5 if vt == 'FCV' else 1e3)]

    TIMES = st.one_of(st.integers(0, 200).map(lambda h: h * 3600), st.integers(0, 6000).map(lambda m: m * 60),
                      st.integers(0, 400000), st.sampled_from([137820, 1044, 90, 45000]))
    CLOCK = st.one_of(st.integers(0, 23).map(lambda h: h * 3600), st.integers(0, 1439).map(lambda m: m * 60),
                      st.integers(0, 86399), st.sampled_from([0, 43200, 45000, 1800, 86399]))
    controls = []
    for i in range(draw(st.sampled_from([0, 1, 2, 2, 3, 4]))):
        ck = draw(st.sampled_from(['time', 'clock', 'tank', 'junction']))
        if ck == 'tank' and not tn:
            ck = 'junction'
        c = {'name': 'ctl%d' % (i + 1), 'kind': ck, 'action': action(False)}
        if ck == 'time':
            c['at'] = draw(TIMES)
        elif ck == 'clock':
            c['at'] = draw(CLOCK)
        elif ck == 'tank':
            c.update(node=draw(st.sampled_from(tn)), op=draw(st.sampled_from(['>', '<'])), thr=_g(draw, 0, 25, 2))
        else:
            c.update(node=draw(st.sampled_from(jn)), op=draw(st.sampled_from(['>', '<'])), thr=_g(draw, -5, 150, 2))
        controls.append(c)

    def atom():
        k = draw(st.sampled_from(['time', 'clock', 'junction', 'tank', 'reservoir', 'link', 'link']))
        if k == 'tank' and not tn:
            k = 'junction'
        if k == 'reservoir' and not rn:
            k = 'link'
        if k == 'time':
            return ['time', draw(st.sampled_from(RELS)), draw(TIMES)]
        if k == 'clock':
            return ['clock', draw(st.sampled_from(RELS)), draw(CLOCK)]
        val = _g(draw, -200, 900, 2)
        if k == 'junction':
            return ['junction', draw(st.sampled_from(jn)), draw(st.sampled_from(['demand', 'head', 'pressure'])),
                    draw(st.sampled_from(RELS)), val]
        if k == 'tank':
            return ['tank', draw(st.sampled_from(tn)), draw(st.sampled_from(['level', 'head', 'pressure'])),
                    draw(st.sampled_from(REL4)), val]
        if k == 'reservoir':
            return ['reservoir', draw(st.sampled_from(rn)), 'head', draw(st.sampled_from(RELS)), val]
        kind, name, vt = links[draw(st.integers(0, len(links) - 1))]
        attr = draw(st.sampled_from(['flow', 'status'] + (['setting'] if kind != 'pipe' and vt != 'GPV' else [])))
        if attr == 'status':
            return [kind, name, 'status', draw(st.sampled_from(['=', '<>'])),
                    draw(st.sampled_from(['OPEN', 'CLOSED'] + (['ACTIVE'] if kind == 'valve' else [])))]
        if attr == 'setting':
            val = abs(val)
        return [kind, name, attr, draw(st.sampled_from(RELS)), val]

    rules = []
    for i in range(draw(st.sampled_from([0, 1, 1, 2, 3]))):
        groups = [[atom() for _ in range(draw(st.sampled_from([1, 1, 2, 3])))]
                  for _ in range(draw(st.sampled_from([1, 1, 2, 3])))]
        rules.append({'name': draw(st.sampled_from(['rule%d', 'R-%d', '%d'])) % (i + 1), 'groups': groups,
                      'right_nested': draw(st.booleans()),
                      'then': [action(True) for _ in range(draw(st.sampled_from([1, 1, 2])))],
                      'else': [action(True) for _ in range(draw(st.sampled_from([0, 0, 1, 2])))],
                      'priority': draw(st.sampled_from([3, 3, 0, 1, 5, 6, 9]))})
    rs = opts['report']
    if rs['nodes'] == 'some':
        rs['nodes'] = nodes[:2]
    if rs['links'] == 'some':
        rs['links'] = [l[1] for l in links[:3]]
    case = {'units': draw(st.sampled_from(UNITS)), 'units_via': draw(st.sampled_from(['arg', 'arg', 'option'])),
            'version': draw(st.sampled_from([2.2, 2.2, 2.0])), 'opts': opts, 'patterns': pats, 'curves': curves,
            'junctions': junctions, 'tanks': tanks, 'reservoirs': reservoirs, 'pipes': pipes, 'pumps': pumps,
            'valves': valves, 'sources': sources, 'controls': controls, 'rules': rules}
    if draw(st.integers(0, 3)) == 0:
        case['prewrite'] = {'units': draw(st.sampled_from(UNITS))}
    return case


def strategy(tier='quick'):
    return case_strategy(tier)


def summarize(case):
    return {'units': case['units'], 'version': case['version'], 'units_via': case['units_via'],
            'n': {k: len(case[k]) for k in ('junctions', 'tanks', 'reservoirs', 'pipes', 'pumps', 'valves', 'patterns',
                                            'curves', 'sources', 'controls', 'rules')},
            'valves': [v['type'] for v in case['valves']],
            'quality': case['opts']['qual'], 'reaction_orders': [case['opts']['react'][k] for k in
                                                                 ('bulk_order', 'wall_order', 'tank_order')],
            'controls': case['controls'][:2], 'rules': case['rules'][:1]}


# --------------------------------------------------------------------------------------------- builder

class _Ctx(object):
    """unit context of a case; conversions of grid values use wntr.epanet.util.to_si (input construction only)"""

    def __init__(self, case):
        from wntr.epanet.util import FlowUnits, HydParam, MassUnits, QualParam, to_si
        self.case = case
        self.fu = FlowUnits[case['units']]
        self.H = HydParam
        self.Q = QualParam
        self._to_si = to_si
        q = case['opts']['qual']
        self.mass = MassUnits.ug if q.get('units') == 'ug/L' else MassUnits.mg
        self.ug = q.get('units') == 'ug/L'

    def hyd(self, v, param):
        return float(self._to_si(self.fu, float(v), param))

    def bulk(self, v):
        return float(self._to_si(self.fu, float(v), self.Q.BulkReactionCoeff, mass_units=self.mass,
                                 reaction_order=self.case['opts']['react']['bulk_order']))

    def wall(self, v):
        return float(self._to_si(self.fu, float(v), self.Q.WallReactionCoeff, mass_units=self.mass,
                                 reaction_order=self.case['opts']['react']['wall_order']))

    def valve_setting(self, vt, v):
        if vt in ('PRV', 'PSV', 'PBV'):
            return self.hyd(v, self.H.Pressure)
        if vt == 'FCV':
            return self.hyd(v, self.H.Flow)
        return float(v)


def build(case):
    """plain data -> WaterNetworkModel through the public API"""
    import wntr
    from wntr.network.controls import (AndCondition, Control, ControlAction, OrCondition, Rule, SimTimeCondition,
                                       TimeOfDayCondition, ValueCondition)
    from wntr.network import LinkStatus
    cx = _Ctx(case)
    H = cx.H
    wn = wntr.network.WaterNetworkModel()
    o = case['opts']
    for k, v in o['time'].items():
        setattr(wn.options.time, k, v)
    h = o['hyd']
    ho = wn.options.hydraulic
    for k in ('headloss', 'viscosity', 'specific_gravity', 'trials', 'accuracy', 'unbalanced', 'unbalanced_value',
              'checkfreq', 'maxcheck', 'damplimit', 'headerror', 'flowchange', 'pattern', 'demand_multiplier',
              'emitter_exponent', 'demand_model'):
        setattr(ho, k, h[k])
    if 'pmin_file' in h:
        ho.minimum_pressure = cx.hyd(h['pmin_file'], H.Pressure)
        ho.required_pressure = cx.hyd(h['preq_file'], H.Pressure)
        ho.pressure_exponent = h['pexp']
    if h['pressure_units']:
        ho.inpfile_pressure_units = 'PSI' if case['units'] in US else 'METERS'
    if h['hydraulics']:
        ho.hydraulics, ho.hydraulics_filename = h['hydraulics']
    if case['units_via'] == 'option':
        ho.inpfile_units = case['units']
    q = o['qual']
    qo = wn.options.quality
    qo.parameter = q['parameter']
    qo.diffusivity = q['diffusivity']
    qo.tolerance = q['tolerance']
    if 'trace_node' in q:
        qo.trace_node = q['trace_node']
    if 'chemical_name' in q:
        qo.chemical_name = q['chemical_name']
        qo.inpfile_units = q['units']
    r = o['react']
    ro = wn.options.reaction
    ro.bulk_order, ro.wall_order, ro.tank_order = r['bulk_order'], r['wall_order'], r['tank_order']
    ro.bulk_coeff = cx.bulk(r['bulk_coeff_file'])
    ro.wall_coeff = cx.wall(r['wall_coeff_file'])
    ro.limiting_potential = r['limiting_potential']
    ro.roughness_correl = r['roughness_correl']
    e = o['energy']
    eo = wn.options.energy
    eo.global_price = e['global_price_file'] / 3.6e6 if e['global_price_file'] else e['global_price_file']
    eo.global_pattern = e['global_pattern']
    eo.global_efficiency = e['global_efficiency']
    eo.demand_charge = e['demand_charge']
    rp = o['report']
    for k in ('status', 'summary', 'energy', 'nodes', 'links', 'pagesize', 'report_filename'):
        setattr(wn.options.report, k, rp[k])

    for name, mult in case['patterns']:
        wn.add_pattern(name, list(mult))
    conv = {'HEAD': (H.Flow, H.HydraulicHead), 'EFFICIENCY': (H.Flow, None), 'VOLUME': (H.Length, H.Volume),
            'HEADLOSS': (H.Flow, H.HeadLoss), None: (None, None)}
    for c in case['curves']:
        px, py = conv[c['type']]
        pts = [(cx.hyd(x, px) if px else float(x), cx.hyd(y, py) if py else float(y)) for x, y in c['pts']]
        wn.add_curve(c['name'], c['type'], pts)

    def common(obj, d):
        if d.get('tag') is not None:
            obj.tag = d['tag']
        if d.get('iq') is not None:
            obj.initial_quality = d['iq']
        if d.get('verts'):
            obj.vertices = [tuple(p) for p in d['verts']]

    for j in case['junctions']:
        d0 = j['demands'][0]
        wn.add_junction(j['name'], base_demand=d0[0], demand_pattern=d0[1], elevation=j['elev'],
                        coordinates=tuple(j['xy']), demand_category=d0[2])
        node = wn.get_node(j['name'])
        for d in j['demands'][1:]:
            node.add_demand(d[0], d[1], d[2])
        if j['emitter'] is not None:
            node.emitter_coefficient = j['emitter']
        if 'pdd' in j:
            node.minimum_pressure, node.required_pressure, node.pressure_exponent = j['pdd']
        common(node, j)
    for t in case['tanks']:
        wn.add_tank(t['name'], elevation=t['elev'], init_level=t['init'], min_level=t['min'], max_level=t['max'],
                    diameter=t['diam'], min_vol=t['min_vol'], vol_curve=t['vol_curve'], overflow=t['overflow'],
                    coordinates=tuple(t['xy']))
        node = wn.get_node(t['name'])
        if t['mixing']:
            node.mixing_model = t['mixing']
        if 'fraction' in t:
            node.mixing_fraction = t['fraction']
        if t['bulk_file'] is not None:
            node.bulk_coeff = cx.bulk(t['bulk_file'])
        common(node, t)
    for rs in case['reservoirs']:
        wn.add_reservoir(rs['name'], base_head=rs['head'], head_pattern=rs['pat'], coordinates=tuple(rs['xy']))
        common(wn.get_node(rs['name']), rs)
    for p in case['pipes']:
        wn.add_pipe(p['name'], p['a'], p['b'], length=p['len'], diameter=p['diam'], roughness=p['rough'],
                    minor_loss=p['minor'], initial_status=p['status'], check_valve=p['cv'])
        link = wn.get_link(p['name'])
        if p['bulk_file'] is not None:
            link.bulk_coeff = cx.bulk(p['bulk_file'])
        if p['wall_file'] is not None:
            link.wall_coeff = cx.wall(p['wall_file'])
        common(link, p)
    for p in case['pumps']:
        wn.add_pump(p['name'], p['a'], p['b'], p['type'], p['curve'] if p['type'] == 'HEAD' else p['power'],
                    speed=p['speed'], pattern=p['spat'], initial_status=p['status'])
        link = wn.get_link(p['name'])
        if p['setting'] is not None:
            link.initial_setting = p['setting']
        if p['eff']:
            link.efficiency = wn.get_curve(p['eff'])
        if p['price_file'] is not None:
            link.energy_price = p['price_file'] / 3.6e6
        if p['epat']:
            link.energy_pattern = p['epat']
        common(link, p)
    vtype = {}
    for v in case['valves']:
        vtype[v['name']] = v['type']
        wn.add_valve(v['name'], v['a'], v['b'], diameter=v['diam'], valve_type=v['type'], minor_loss=v['minor'],
                     initial_setting=v['setting'], initial_status=v['status'])
        common(wn.get_link(v['name']), v)
    for j in case['junctions']:
        if 'leak' in j:
            wn.get_node(j['name']).add_leak(wn, area=j['leak'][0], start_time=j['leak'][1], end_time=j['leak'][2])
    for s in case['sources']:
        wn.add_source(s['name'], s['node'], s['type'], s['strength'], s['pat'])

    stat = {'OPEN': LinkStatus.Open, 'CLOSED': LinkStatus.Closed, 'ACTIVE': LinkStatus.Active}

    def mk_action(a, for_rule):
        link = wn.get_link(a[0])
        if a[1] == 'status':
            return ControlAction(link, 'status', stat[a[2]])
        if a[0] in vtype and for_rule:
            return ControlAction(link, 'setting', cx.valve_setting(vtype[a[0]], a[2]))
        return ControlAction(link, a[1], float(a[2]))

    for c in case['controls']:
        act = mk_action(c['action'], False)
        if c['kind'] == 'time':
            cond = SimTimeCondition(wn, '=', c['at'])
        elif c['kind'] == 'clock':
            cond = TimeOfDayCondition(wn, '=', c['at'])
        elif c['kind'] == 'tank':
            cond = ValueCondition(wn.get_node(c['node']), 'level', c['op'], c['thr'])
        else:
            cond = ValueCondition(wn.get_node(c['node']), 'pressure', c['op'], c['thr'])
        wn.add_control(c['name'], Control(cond, act))

    par = {'demand': H.Demand, 'head': H.HydraulicHead, 'level': H.HydraulicHead, 'pressure': H.Pressure,
           'flow': H.Flow}

    def mk_atom(a):
        if a[0] == 'time':
            return SimTimeCondition(wn, a[1], a[2])
        if a[0] == 'clock':
            return TimeOfDayCondition(wn, a[1], a[2])
        kind, name, attr, rel, val = a
        obj = wn.get_node(name) if kind in ('junction', 'tank', 'reservoir') else wn.get_link(name)
        if attr == 'status':
            return ValueCondition(obj, 'status', rel, int(stat[val]))
        if attr == 'setting':
            return ValueCondition(obj, 'setting', rel, cx.valve_setting(vtype.get(name), val))
        return ValueCondition(obj, attr, rel, cx.hyd(val, par[attr]))

    def chain(items, cls, right):
        if right:
            out = items[-1]
            for it in reversed(items[:-1]):
                out = cls(it, out)
            return out
        out = items[0]
        for it in items[1:]:
            out = cls(out, it)
        return out

    for rl in case['rules']:
        groups = [chain([mk_atom(a) for a in g], OrCondition, rl['right_nested']) for g in rl['groups']]
        cond = chain(groups, AndCondition, rl['right_nested'])
        rule = Rule(cond, [mk_action(a, True) for a in rl['then']], [mk_action(a, True) for a in rl['else']],
                    priority=rl['priority'], name=rl['name'])
        wn.add_control(rl['name'], rule)
    return wn


# --------------------------------------------------------------------------------------------- observation

_NODE_SKIP = {'leak', 'leak_area', 'leak_discharge_coeff', 'base_demand', 'demand_pattern', 'demand_category',
              'node_type', 'name'}
_JUNCTION_WNTR_ONLY = {'minimum_pressure', 'required_pressure', 'pressure_exponent'}
_LINK_SKIP = {'link_type', 'name', 'headloss_curve'}
_V20_HYD = {'demand_model', 'minimum_pressure', 'required_pressure', 'pressure_exponent', 'headerror', 'flowchange'}


def _flat(prefix, v, out):
    if isinstance(v, dict):
        for k in sorted(v, key=str):
            _flat('%s.%s' % (prefix, k) if prefix else str(k), v[k], out)
    elif isinstance(v, (list, tuple)):
        out[prefix + '#len'] = len(v)
        for i, x in enumerate(v):
            _flat('%s[%d]' % (prefix, i), x, out)
    else:
        out[prefix] = v


def view(d, mode, case, wn=None):
    """to_dict() -> {(kind, name): {field: scalar}}.  mode 'statement': only what C12 promises; 'full': everything
    an INP-born model has (second cycle; report options are read from the model because Options.to_dict() turns a
    list of two-letter names into a dict)."""
    stm = mode == 'statement'
    v20 = stm and case['version'] == 2.0
    pats = {p['name'] for p in d['patterns'] if len(p['multipliers']) > 0}

    def pname(x):
        return x if x in pats else None

    out = {}
    for sec, vals in d['options'].items():
        if stm and sec in ('report', 'graphics', 'user'):
            continue
        f = {}
        if sec == 'report' and wn is not None:
            vals = dict(wn.options.report.__dict__)
        for k, v in vals.items():
            if stm and sec == 'time' and k == 'pattern_interpolation':
                continue
            if stm and sec == 'hydraulic' and k == 'inpfile_units' and case['units_via'] != 'option':
                continue
            if v20 and sec == 'hydraulic' and k in _V20_HYD:
                continue
            if sec == 'hydraulic' and k == 'pattern':
                v = pname(v)
            _flat(k, v, f)
        out[('options', sec)] = f
    referenced = set()
    for n in d['nodes']:
        if n.get('vol_curve_name'):
            referenced.add(n['vol_curve_name'])
    for l in d['links']:
        for k in ('pump_curve_name', 'headloss_curve_name'):
            if l.get(k):
                referenced.add(l[k])
        if isinstance(l.get('efficiency'), dict):
            referenced.add(l['efficiency']['name'])
    for c in d['curves']:
        if stm and c['name'] not in referenced:
            continue
        f = {}
        _flat('curve_type', c['curve_type'], f)
        _flat('points', c['points'], f)
        out[('curve', c['name'])] = f
    for p in d['patterns']:
        if stm and len(p['multipliers']) == 0:
            continue
        f = {}
        _flat('multipliers', list(p['multipliers']), f)
        out[('pattern', p['name'])] = f
    for n in d['nodes']:
        kind = n['node_type'].lower()
        f = {}
        for k, v in n.items():
            if k in _NODE_SKIP:
                continue
            if stm and kind == 'junction' and k in _JUNCTION_WNTR_ONLY:
                continue
            if v20 and k == 'overflow':
                continue
            if k == 'demand_timeseries_list':
                v = [dict(x, pattern_name=pname(x.get('pattern_name'))) for x in v]
                k = 'demand'
            if k == 'head_pattern_name':
                v = pname(v)
            _flat(k, v, f)
        out[(kind, n['name'])] = f
    for l in d['links']:
        kind = l['link_type'].lower()
        f = {}
        for k, v in l.items():
            if k in _LINK_SKIP:
                continue
            if stm and k == 'initial_quality':
                continue
            if k == 'efficiency' and isinstance(v, dict):
                v = v['name']
            if k in ('speed_pattern_name', 'energy_pattern'):
                v = pname(v)
            _flat(k, v, f)
        out[(kind, l['name'])] = f
    for s in d['sources']:
        f = {}
        for k, v in s.items():
            if k == 'name' and stm:
                continue
            if k == 'pattern':
                v = pname(v)
            _flat(k, v, f)
        key = ('source', s['node_name'] if stm else s['name'])
        if key in out:     # two sources on a node cannot be told apart in INP; not generated
            key = ('source', '%s/%s' % (s['node_name'], s['name']))
        out[key] = f
    return out


def _atoms(cond, groups, cur):
    """flatten a condition tree into a conjunction of OR groups; a shape EPANET cannot express gets a marker"""
    from wntr.network.controls import AndCondition, OrCondition, SimTimeCondition, TimeOfDayCondition, ValueCondition
    if isinstance(cond, AndCondition):
        if cur is not None:
            cur.append({'type': 'AND-inside-OR'})
            return
        _atoms(cond._condition_1, groups, None)
        _atoms(cond._condition_2, groups, None)
        return
    top = cur is None
    if top:
        cur = []
    if isinstance(cond, OrCondition):
        _atoms(cond._condition_1, groups, cur)
        _atoms(cond._condition_2, groups, cur)
    elif isinstance(cond, SimTimeCondition):
        cur.append({'type': 'time', 'relation': cond._relation.name, 'time': cond._threshold,
                    'repeat': cond._repeat, 'first_time': cond._first_time})
    elif isinstance(cond, TimeOfDayCondition):
        cur.append({'type': 'clocktime', 'relation': cond._relation.name, 'clocktime': cond._threshold,
                    'repeat': cond._repeat, 'first_day': cond._first_day})
    elif isinstance(cond, ValueCondition):
        src = cond._source_obj
        cur.append({'type': 'value', 'source': '%s:%s' % (type(src).__name__, src.name),
                    'attribute': cond._source_attr, 'relation': cond._relation.name, 'threshold': cond._threshold})
    else:
        cur.append({'type': type(cond).__name__})
    if top:
        groups.append(cur)


def controls_view(wn):
    """-> (rules {name: fields}, simple controls [fields]) ; controls that act on nodes (leaks) are left out"""
    from wntr.network.base import Link
    rules, simple = {}, []
    for key, c in wn.controls():
        acts = list(c._then_actions) + list(c._else_actions)
        if any(not isinstance(a._target_obj, Link) for a in acts):
            continue
        groups = []
        _atoms(c._condition, groups, None)

        def act(a):
            v = a._value
            if a._attribute == 'status':
                v = int(v)
            return {'target': '%s:%s' % (a._target_obj.link_type, a._target_obj.name), 'attribute': a._attribute,
                    'value': v}
        f = {}
        dd = c.to_dict()
        if dd['type'] == 'rule':
            _flat('condition', groups, f)
            _flat('then', [act(a) for a in c._then_actions], f)
            _flat('else', [act(a) for a in c._else_actions], f)
            f['priority'] = int(c._priority)
            f['name'] = c.name
            rules[key] = f
        else:
            _flat('condition', groups[0][0] if len(groups) == 1 and len(groups[0]) == 1 else groups, f)
            _flat('action', act(c._then_actions[0]), f)
            f['n_then'] = len(c._then_actions)
            f['n_else'] = len(c._else_actions)
            simple.append(f)
    return rules, simple


def _same(a, b, rel):
    if isinstance(a, bool) or isinstance(b, bool) or a is None or b is None or isinstance(a, str) or isinstance(b, str):
        return type(a) == type(b) and a == b
    try:
        a = float(a)
        b = float(b)
    except (TypeError, ValueError):
        return a == b
    if a == b:
        return True
    return abs(a - b) <= rel * max(abs(a), abs(b)) + 1e-300


_IDX = re.compile(r'\[\d+\]')


def _field(path):
    return _IDX.sub('', path).replace('#len', '')


def diff_fields(fa, fb, rel):
    """[(field path, a, b)] for two flat field dicts"""
    out = []
    for k in sorted(set(fa) | set(fb)):
        a = fa.get(k, '<absent>')
        b = fb.get(k, '<absent>')
        if not _same(a, b, rel):
            out.append((k, a, b))
    return out


def compare_views(va, vb, rel):
    """-> list of (kind, name, path, a, b)"""
    out = []
    for key in sorted(set(va) | set(vb)):
        kind, name = key
        if key not in va or key not in vb:
            out.append((kind, name, '<element>', 'present' if key in va else '<absent>',
                        'present' if key in vb else '<absent>'))
            continue
        for path, a, b in diff_fields(va[key], vb[key], rel):
            out.append((kind, name, path, a, b))
    return out


def compare_simple(sa, sb, rel):
    """multiset comparison of simple controls -> list of (path, a, b, description)"""
    out = []
    rest = list(sb)
    unmatched = []
    for c in sa:
        hit = None
        for i, o in enumerate(rest):
            if not diff_fields(c, o, rel):
                hit = i
                break
        if hit is None:
            unmatched.append(c)
        else:
            rest.pop(hit)
    for c in unmatched:
        if not rest:
            out.append(('<control>', 'present', '<absent>', c))
            continue
        best = min(range(len(rest)), key=lambda i: (len(diff_fields(c, rest[i], rel)), i))
        o = rest.pop(best)
        for path, a, b in diff_fields(c, o, rel):
            out.append((path, a, b, c))
    for o in rest:
        out.append(('<control>', '<absent>', 'present', o))
    return out


# --------------------------------------------------------------------------------------------- buckets

_REACT = {('pipe', 'bulk_coeff'): 'bulk_order', ('pipe', 'wall_coeff'): 'wall_order', ('tank', 'bulk_coeff'): 'bulk_order',
          ('options', 'bulk_coeff'): 'bulk_order', ('options', 'wall_coeff'): 'wall_order'}
# buckets that occur in most cases of the unrepaired tree are reported last so that they do not mask the others
_COMMON_LAST = ('diff/junction.demand.category',)


def qualifier(case, kind, field):
    """context that selects the conversion applied to a field (different conversion = different root cause)"""
    r = case['opts']['react']
    ug = case['opts']['qual'].get('units') == 'ug/L'
    key = (kind, field.split('.')[-1]) if kind != 'options' else ('options', field)
    if key in _REACT:
        order = r[_REACT[key]]
        q = '' if order == 1 else '[order!=1]' if order == int(order) else '[order=fractional]'
        if field.endswith('wall_coeff') and r['wall_order'] == 0 and ug:
            q += '[ug/L]'
        return q
    if field == 'initial_quality' and case['opts']['qual']['parameter'] == 'CHEMICAL' and ug:
        return '[ug/L]'
    return ''


def _type_qual(case, kind, name, field):
    if kind == 'valve' and field == 'initial_setting':
        return '[%s]' % {v['name']: v['type'] for v in case['valves']}.get(name)
    if kind == 'curve' and field == 'points':
        return '[%s]' % {c['name']: c['type'] for c in case['curves']}.get(name)
    return ''


def _bk(kind, field):
    """[QUALITY] and [TAGS]/[COORDINATES] are written by one loop over all nodes: one bucket for the three node kinds"""
    if kind in ('junction', 'tank', 'reservoir') and field in ('initial_quality', 'tag', 'coordinates'):
        return 'node'
    if kind in ('pipe', 'pump', 'valve') and field in ('vertices', 'tag'):
        return 'link'
    return kind


def _ctl_qual(flat, path, case):
    """what selects the unit conversion of a value inside a control/rule: target type + attribute"""
    if '.' not in path:
        return ''
    prefix, last = path.rsplit('.', 1)
    if last == 'value':
        tgt, attr = flat.get(prefix + '.target'), flat.get(prefix + '.attribute')
    elif last == 'threshold':
        tgt, attr = flat.get(prefix + '.source'), flat.get(prefix + '.attribute')
    else:
        return ''
    if not isinstance(tgt, str) or ':' not in tgt:
        return ''
    kind, name = tgt.split(':', 1)
    if kind == 'Valve':
        kind = {v['name']: v['type'] for v in case['valves']}.get(name, kind)
    return '[%s.%s]' % (kind, attr)


def _first_bucket(buckets):
    def rank(b):
        name = b[0]
        if name.startswith('raises/'):
            return (0, name)
        if name in _COMMON_LAST:
            return (2, name)
        if name.startswith('diff/'):
            return (1, name)
        if name in tuple('idempotence' + c[4:] for c in _COMMON_LAST):
            return (4, name)
        return (3, name)
    return sorted(buckets, key=rank)


# --------------------------------------------------------------------------------------------- check

_tmp = {'dir': None}


def _scratch():
    """the per-process scratch directory of the harness (removed by it); a private one when used stand-alone"""
    from .. import envsetup
    d = getattr(envsetup, '_scratch', None)
    if d and os.path.isdir(d):
        return d
    if _tmp['dir'] is None or not os.path.isdir(_tmp['dir']):
        _tmp['dir'] = tempfile.mkdtemp(prefix='c12_')
        atexit.register(shutil.rmtree, _tmp['dir'], True)
    return _tmp['dir']


_HEADER = ('; Filename', '; WNTR', '; Created')


def _norm_text(path):
    """[(section, normalised line)]"""
    out = []
    sec = ''
    with open(path, 'r') as f:
        for line in f:
            if line.startswith(_HEADER):
                continue
            s = ' '.join(line.split())
            if not s:
                continue
            if s.startswith('['):
                sec = s
            out.append((sec, s))
    return out


def _text_diff(t2, t3):
    """first differing line of two normalised texts; numeric tokens are compared to 1e-12 relative because str()
    fields print 17 digits and from_si(to_si(x)) may move the last one"""
    for i in range(max(len(t2), len(t3))):
        x = t2[i] if i < len(t2) else ('', '<end>')
        y = t3[i] if i < len(t3) else ('', '<end>')
        if x == y:
            continue
        ta, tb = x[1].split(), y[1].split()
        same = x[0] == y[0] and len(ta) == len(tb)
        if same:
            for u, v in zip(ta, tb):
                if u == v:
                    continue
                try:
                    if not _same(float(u), float(v), 1e-12):
                        same = False
                except ValueError:
                    same = False
        if not same:
            return (x[0] or y[0], x[1], y[1])
    return None


def tags_of(case):
    t = (['history:written_before_in_other_units'] if case.get('prewrite') else []) + \
        ['units:' + case['units'], 'version:%s' % case['version'], 'units_via:' + case['units_via'],
         'headloss:' + case['opts']['hyd']['headloss'], 'quality:' + case['opts']['qual']['parameter'],
         'demand_model:' + ('PDD' if 'pmin_file' in case['opts']['hyd'] else 'DD')]
    if case['opts']['qual'].get('units') == 'ug/L':
        t.append('quality_units:ug/L')
    r = case['opts']['react']
    if r['bulk_order'] != 1:
        t.append('bulk_order!=1')
    if r['wall_order'] != 1:
        t.append('wall_order=0')
    for k in ('tanks', 'reservoirs', 'pumps', 'valves', 'sources', 'controls', 'rules'):
        if case[k]:
            t.append('has:' + k)
    for v in case['valves']:
        t.append('valve:%s/%s' % (v['type'], v['status']))
    for p in case['pumps']:
        t.append('pump:' + p['type'])
        if p['speed'] != 1.0:
            t.append('pump:speed')
        if p['spat']:
            t.append('pump:speed_pattern')
        if p['setting'] is not None:
            t.append('pump:status_setting')
        if p['eff']:
            t.append('pump:efficiency_curve')
        if p['price_file'] is not None or p['epat']:
            t.append('pump:energy')
        if p['status'] == 'CLOSED':
            t.append('pump:closed')
    for tk in case['tanks']:
        if tk['vol_curve']:
            t.append('tank:vol_curve')
        if tk['overflow']:
            t.append('tank:overflow')
        if tk['mixing']:
            t.append('tank:mixing/' + tk['mixing'])
        if tk['bulk_file'] is not None:
            t.append('tank:bulk_coeff')
    for j in case['junctions']:
        t.append('junction:%d_demands' % len(j['demands']))
        if len(j['demands']) == 1 and j['demands'][0][2]:
            t.append('junction:single_demand_with_category')
        if j['emitter'] is not None:
            t.append('junction:emitter')
        if 'leak' in j:
            t.append('junction:leak')
        if 'pdd' in j:
            t.append('junction:pdd_override')
    for rs in case['reservoirs']:
        if rs['pat']:
            t.append('reservoir:head_pattern')
    for p in case['pipes']:
        if p['cv']:
            t.append('pipe:cv')
        if p['status'] == 'CLOSED':
            t.append('pipe:closed')
        if p['bulk_file'] is not None or p['wall_file'] is not None:
            t.append('pipe:reaction_coeff')
        if p['verts']:
            t.append('pipe:vertices')
    for s in case['sources']:
        t.append('source:' + s['type'])
    for c in case['controls']:
        t.append('control:%s->%s' % (c['kind'], c['action'][1]))
    for rl in case['rules']:
        if len(rl['groups']) > 1:
            t.append('rule:AND')
        if any(len(g) > 1 for g in rl['groups']):
            t.append('rule:OR')
        if rl['else']:
            t.append('rule:ELSE')
        if rl['priority'] != 3:
            t.append('rule:PRIORITY')
        for g in rl['groups']:
            for a in g:
                t.append('rule:cond/' + (a[0] if a[0] in ('time', 'clock') else '%s.%s' % (a[0], a[2])))
        for a in rl['then'] + rl['else']:
            t.append('rule:action/' + a[1])
    used = [p['curve'] for p in case['pumps'] if p['curve']] + [p['eff'] for p in case['pumps'] if p['eff']] + \
        [tk['vol_curve'] for tk in case['tanks'] if tk['vol_curve']] + \
        [v['setting'] for v in case['valves'] if v['type'] == 'GPV']
    if len(used) != len(set(used)):
        t.append('curve:shared')
    for c in case['curves']:
        if c['name'] in used:
            t.append('curve:' + c['type'])
    if any(c['name'] == 'XC1' or c['name'] not in used for c in case['curves']):
        t.append('curve:unreferenced')
    if any(not p[1] for p in case['patterns']):
        t.append('pattern:empty')
    if any(p[0] == '1' for p in case['patterns']):
        t.append('pattern:named_1')
    return t


def _describe(kind, name, path, a, b):
    return '%s %s: %s = %r -> %r' % (kind, name, path, a, b)


def evaluate(case):
    """-> (list of (bucket, text) for everything that differs, context text)"""
    import warnings
    import wntr
    warnings.simplefilter('ignore')
    wn = build(case)
    tmp = _scratch()
    f1, f2, f3 = (os.path.join(tmp, n) for n in ('c12_a.inp', 'c12_b.inp', 'c12_c.inp'))
    pre = case.get('prewrite')
    if pre:
        # history: the same model object was written before, in another flow unit and with the other quality mass unit;
        # then the options were set to what the case says.  Nothing of the earlier write may stick (the writer object is
        # cached on the model).
        ho, qo = wn.options.hydraulic, wn.options.quality
        keep = (ho.inpfile_units, qo.inpfile_units)
        try:
            if str(qo.parameter).upper() == 'CHEMICAL':
                qo.inpfile_units = 'ug/L' if str(qo.inpfile_units).lower().startswith('mg') else 'mg/L'
            wntr.network.write_inpfile(wn, os.path.join(tmp, 'c12_pre.inp'), units=pre['units'], version=case['version'])
        except Exception as ex:
            return [(exc_bucket(ex, 'raises/prewrite'), 'an earlier write_inpfile of the same model raised %r' % (ex,))], 'prewrite'
        finally:
            ho.inpfile_units, qo.inpfile_units = keep
    d1 = wntr.network.to_dict(wn)
    r1, s1 = controls_view(wn)
    ctxt = 'units=%s via %s, version=%s' % (case['units'], case['units_via'], case['version'])

    def write(model, path, first):
        units = case['units'] if (first and case['units_via'] == 'arg') else None
        wntr.network.write_inpfile(model, path, units=units, version=case['version'])

    try:
        write(wn, f1, True)
    except Exception as ex:
        return [(exc_bucket(ex, 'raises/write'), 'write_inpfile raised %r' % (ex,))], ctxt
    try:
        m2 = wntr.network.read_inpfile(f1)
    except Exception as ex:
        root = ex
        while root.__cause__ is not None:
            root = root.__cause__
        return [(exc_bucket(root, 'raises/read'), 'read_inpfile of the written file raised %r <- %r' % (ex, root))], ctxt
    d2 = wntr.network.to_dict(m2)
    r2, s2 = controls_view(m2)

    buckets = []      # (bucket, text)
    for kind, name, path, a, b in compare_views(view(d1, 'statement', case), view(d2, 'statement', case), 1e-9):
        fld = _field(path)
        q = qualifier(case, kind, fld) + _type_qual(case, kind, name, fld)
        if kind == 'source' and fld == 'strength':
            s = [x for x in case['sources'] if x['node'] == name]
            q = '[%s]' % ('MASS' if s and s[0]['type'] == 'MASS' else 'conc') + \
                ('[ug/L]' if case['opts']['qual'].get('units') == 'ug/L' else '')
        sec = name + '.' if kind == 'options' else ''
        buckets.append(('diff/%s.%s%s%s' % (_bk(kind, fld), sec, fld, q), _describe(kind, name, path, a, b)))
    for key in sorted(set(r1) | set(r2)):
        if key not in r1 or key not in r2:
            buckets.append(('diff/rule.<missing>', 'rule %s: %s' % (key, 'lost' if key in r1 else 'appeared')))
            continue
        for path, a, b in diff_fields(r1[key], r2[key], 1e-9):
            buckets.append(('diff/rule.%s%s' % (_field(path), _ctl_qual(r1[key], path, case)),
                            _describe('rule', key, path, a, b)))
    for path, a, b, c in compare_simple(s1, s2, 1e-9):
        buckets.append(('diff/control.%s%s' % (_field(path), _ctl_qual(c, path, case)),
                        'simple control %r: %s = %r -> %r' % (c, path, a, b)))

    # ---- second cycle: nothing changes further
    try:
        write(m2, f2, False)
        m3 = wntr.network.read_inpfile(f2)
        d3 = wntr.network.to_dict(m3)
        r3, s3 = controls_view(m3)
        write(m3, f3, False)
    except Exception as ex:
        root = ex
        while root.__cause__ is not None:
            root = root.__cause__
        buckets.append((exc_bucket(root, 'raises/second_cycle'), 'second write/read cycle raised %r <- %r' % (ex, root)))
    else:
        for kind, name, path, a, b in compare_views(view(d2, 'full', case, m2), view(d3, 'full', case, m3), 1e-12):
            fld = _field(path)
            sec = name + '.' if kind == 'options' else ''
            buckets.append(('idempotence/%s.%s%s%s' % (_bk(kind, fld), sec, fld,
                                                       qualifier(case, kind, fld) + _type_qual(case, kind, name, fld)),
                            '2nd cycle: ' + _describe(kind, name, path, a, b)))
        for key in sorted(set(r2) | set(r3)):
            if key not in r2 or key not in r3:
                buckets.append(('idempotence/rule.<missing>', '2nd cycle: rule %s' % key))
                continue
            for path, a, b in diff_fields(r2[key], r3[key], 1e-12):
                buckets.append(('idempotence/rule.%s' % _field(path), '2nd cycle: ' + _describe('rule', key, path, a, b)))
        for path, a, b, c in compare_simple(s2, s3, 1e-12):
            buckets.append(('idempotence/control.%s' % _field(path),
                            '2nd cycle: simple control %r: %s = %r -> %r' % (c, path, a, b)))
        t2, t3 = _norm_text(f2), _norm_text(f3)
        bad = _text_diff(t2, t3)
        if bad:
            buckets.append(('idempotence/text/%s' % bad[0], 'INP text of 2nd and 3rd write differ in %s: %r vs %r' % bad))
    return buckets, ctxt


def check(case):
    tags = tags_of(case)
    ntypes = sum(1 for k in ('junctions', 'tanks', 'reservoirs', 'pipes', 'pumps', 'valves') if case[k])
    nontrivial = ntypes >= 4 and len(case['controls']) >= 1 and len(case['rules']) >= 1
    buckets, ctxt = evaluate(case)
    if buckets:
        order = _first_bucket(buckets)
        first = order[0]
        others = sorted(set(b for b, _ in order if b != first[0]))
        detail = '%s (%s)' % (first[1], ctxt)
        if others:
            detail += ' | other buckets in this case: ' + ', '.join(others[:12])
        return fail(first[0], detail, tags, nontrivial)
    return passed(nontrivial, tags)
