"""C04 - time-based controls and rules act exactly at their configured instants."""
import math
import os

from hypothesis import strategies as st

from ..outcome import exc_bucket, fail, inconclusive, passed
from ..refs import c04_timesem as T

ID = 'C04'
LEVEL = 'exploration'
CASES = {'quick': 3200, 'thorough': 40000}
CASE_TIMEOUT = 60
TECHNIQUE = ('property-based testing (Hypothesis): generated schedules of time/clock-time controls and rules; '
             'WNTRSimulator status/setting timeline compared with a reference time-semantics model written from the '
             'statement, which is itself cross-checked against EPANET 2.2 stepped through the toolkit')
RULE = ('Generated case = small looped network fed by a reservoir (no tanks, so nothing but the schedule moves a '
        'target) + 1-6 simple controls (AT TIME once or repeated daily, AT CLOCKTIME daily or once - also at the start clock time itself -, explicit priorities) and 0-3 rules on SYSTEM TIME / '
        'SYSTEM CLOCKTIME (>, >=, <, <=; pure AND or pure OR of up to 3 premises; ELSE; priorities) acting on pipe '
        'statuses and a TCV setting; duration 2 h - 3 d (thorough 5 d), hydraulic step 900-7200 s, rule step 60-3600 s, '
        'start_clocktime, report step ALL or k*hyd; instants on and off both grids. Oracle: piecewise-constant '
        'reference timeline (refs/c04_timesem.py). Non-trivial = the reference timeline changes at an instant off the '
        'hydraulic grid, or on a second day, or because of a rule, or resolves a same-instant priority conflict; '
        'distinct = SHA-1 of the case.')
ASSUMPTIONS = ['unspecified situations are not generated or are counted as inconclusive: a simple control and a rule '
               '(or two items of equal priority) commanding different values for one target at one instant; "=" / "<>" '
               'on time inside rules',
               'targets are pipes and a TCV in a tank-less network, so no internal status logic can override a command',
               'half of the cases with a TCV also judge its status: a setting command (simple control or THEN action) counts as a '
               'command "status ACTIVE" with the priority of its parent; a setting and a status command for one valve in one '
               'clause, and settings in ELSE branches next to a status target, are not generated (unspecified)',
               'EPANET cross-check of the reference only where both semantics coincide by construction (rule step divides '
               'the hydraulic step and every control instant; instants multiples of 900 s, which the hh:mm:ss parser of EPANET reads exactly; no same-instant conflicts '
               'between simple controls, which EPANET orders by file position instead of priority)']
TOLERANCES = {'time': 'exact seconds', 'status': 'exact', 'setting_abs': 1e-9}

PIPE_VALUES = ['OPEN', 'CLOSED']
SETTINGS = [0.0, 2.0, 15.0, 60.0]
OPS = ['>', '>=', '<', '<=']


# ------------------------------------------------------------------------------------------ strategy
def _values_of(tg):
    return PIPE_VALUES if tg['attr'] == 'status' else (['CLOSED', 'ACTIVE'] if tg['attr'] == 'vstatus' else SETTINGS)


@st.composite
def _instant(draw, opts, clock):
    hyd, rs = opts['hyd'], opts['rule']
    hi = 86400 if clock else opts['duration']
    g = opts.get('_grid', 1)
    if g > 1:       # EPANET-comparable profile: every instant on a common grid
        t = g * draw(st.integers(0, hi // g))
        if draw(st.integers(0, 2)) == 0:
            t = (hyd * draw(st.integers(0, max(0, hi // hyd)))) // g * g
        return int(t % 86400 if clock else min(t, hi))
    kind = draw(st.sampled_from(['hyd', 'rule', 'min', 'sec', 'hyd', 'rule5']))
    if kind == 'hyd':
        t = hyd * draw(st.integers(0, max(0, hi // hyd)))
    elif kind == 'rule':
        t = rs * draw(st.integers(0, max(0, hi // rs)))
    elif kind == 'rule5':
        t = 300 * draw(st.integers(0, max(0, hi // 300)))
    elif kind == 'min':
        t = 60 * draw(st.integers(0, max(0, hi // 60)))
    else:
        t = draw(st.integers(0, hi))
    if clock:
        t = t % 86400
    return int(min(t, hi))


@st.composite
def _cond(draw, opts):
    n = draw(st.sampled_from([1, 1, 2, 2, 3]))
    leaves = []
    for _ in range(n):
        ck = draw(st.booleans())
        leaves.append(['clock' if ck else 'time', draw(st.sampled_from(OPS)), draw(_instant(opts, ck))])
    if n == 1:
        return leaves[0]
    return [draw(st.sampled_from(['and', 'or']))] + leaves


@st.composite
def strategy(draw, tier='quick'):
    hyd = draw(st.sampled_from([900, 1800, 3600, 3600, 7200]))
    durs = [7200, 6 * 3600, 12 * 3600, 24 * 3600, 30 * 3600, 48 * 3600, 72 * 3600]
    if tier == 'thorough':
        durs = durs + [120 * 3600]
    dur = draw(st.sampled_from(durs))
    if dur // hyd > (400 if tier == 'thorough' else 150):
        hyd = 3600 if dur <= 72 * 3600 else 7200
    rep = draw(st.sampled_from(['ALL', 'ALL', 1, 2]))
    opts = {'duration': dur, 'hyd': hyd, 'rule': draw(st.sampled_from([60, 300, 360, 600, 900, 1800, 3600])),
            'rep': rep if rep == 'ALL' else rep * hyd,
            'start_clocktime': draw(st.sampled_from([0, 0, 3600, 6 * 3600 + 1800, 13 * 3600 + 60, 23 * 3600, 86340]))}
    ep = draw(st.integers(0, 9)) < 4      # profile in which EPANET's and the statement's semantics coincide by construction
    if ep:
        opts['rule'] = draw(st.sampled_from([r for r in (300, 600, 900, 1800, 3600) if hyd % r == 0]))
        opts['start_clocktime'] = draw(st.sampled_from([0, 3600, 6 * 3600 + 1800, 13 * 3600 + 900, 23 * 3600, 85500]))
        # EPANET parses hh:mm:ss through floating-point hours and truncates: only quarter hours are exact
        opts['_grid'] = opts['rule'] * 900 // math.gcd(opts['rule'], 900)
        opts['start_clocktime'] = (opts['start_clocktime'] // opts['_grid']) * opts['_grid']
    n = draw(st.integers(3, 5))
    tcv = draw(st.booleans())
    targets = [{'name': 'P%d' % (i + 1), 'attr': 'status', 'init': draw(st.sampled_from(['OPEN', 'OPEN', 'CLOSED']))}
               for i in range(n)]
    if tcv:
        targets.append({'name': 'V1', 'attr': 'setting', 'init': draw(st.sampled_from(SETTINGS))})
        if not ep and draw(st.booleans()):
            # the status of the same valve as a second target: a setting command implies status ACTIVE (the simulator
            # derives a companion command with the priority of its parent), a status command may say CLOSED or ACTIVE
            targets.append({'name': 'V1', 'attr': 'vstatus', 'init': 'ACTIVE'})
    nt = len(targets)

    def action(rule=False):
        i = draw(st.integers(0, min(nt - 1, 2)))     # few targets so that items interact
        if ep:
            i = draw(st.integers(0, 1)) if rule else draw(st.integers(2, nt - 1))   # rules and controls on disjoint targets
            v = draw(st.sampled_from(_values_of(targets[i])))
            return i, v
        if tcv and draw(st.integers(0, 3)) == 0:
            i = nt - 1 - draw(st.integers(0, 1 if targets[-1]['attr'] == 'vstatus' else 0))
        v = draw(st.sampled_from(_values_of(targets[i])))
        return i, v

    controls = []
    for _ in range(draw(st.integers(1, 6))):
        kind = draw(st.sampled_from(['time', 'time', 'clock', 'clock', 'clock', 'time_daily', 'clock_once']
                                    if not ep else ['time', 'clock']))
        ck = kind in ('clock', 'clock_once')
        i, v = action()
        at = draw(_instant(opts, ck))
        if kind == 'clock_once' and draw(st.integers(0, 3)) == 0:
            at = opts['start_clocktime']        # the first instant is the start of the run
        controls.append({'kind': kind, 'at': at, 'target': i, 'value': v,
                         'priority': draw(st.sampled_from([3, 3, 3, 0, 1, 2, 4, 5, 6]))})
    # a deliberate same-instant conflict between two simple controls (distinct priorities)
    if not ep and draw(st.integers(0, 3)) == 0 and controls:
        c0 = controls[0]
        vals = _values_of(targets[c0['target']])
        other = [v for v in vals if v != c0['value']]
        pr = draw(st.sampled_from([p for p in range(7) if p != c0['priority']]))
        controls.append({'kind': c0['kind'], 'at': c0['at'], 'target': c0['target'], 'value': other[0], 'priority': pr})
    rules = []
    for _ in range(draw(st.sampled_from([0, 1, 1, 2, 3]))):
        then = [list(action(True)) for _ in range(draw(st.sampled_from([1, 1, 2])))]
        els = []
        if draw(st.booleans()):
            for i, v in then:
                vals = _values_of(targets[i])
                els.append([i, draw(st.sampled_from([x for x in vals if x != v]))])
        # one action per target inside a clause
        then = list({i: [i, v] for i, v in then}.values())
        els = list({i: [i, v] for i, v in els}.values())
        # a setting and a status command for the same valve inside one clause: the derived status command of the setting
        # is a rule of its own with the same priority - which of the two wins is not specified; not generated
        for clause in (then, els):
            if any(targets[i]['attr'] == 'setting' for i, _v in clause):
                clause[:] = [a for a in clause if targets[a[0]]['attr'] != 'vstatus']
        if any(t['attr'] == 'vstatus' for t in targets):
            # WNTR derives the 'status ACTIVE' command of a setting action for THEN actions only; what a setting in an
            # ELSE branch does to the status of a closed valve is not specified anywhere: not generated next to a
            # status target
            els = [a for a in els if targets[a[0]]['attr'] != 'setting']
        rules.append({'cond': draw(_cond(opts)), 'then': then, 'else': els,
                      'priority': draw(st.sampled_from([1, 2, 3, 4, 5, 6]))})
    # a simple control and a rule commanding one target at one instant is unspecified: move such controls off the
    # rule grid (most of the time; the remaining collisions are counted as inconclusive)
    ruled = set(i for r in rules for i, _v in (r['then'] + r['else']))
    for c in controls:
        if c['target'] in ruled and draw(st.integers(0, 9)) > 0:
            first = c['at'] if c['kind'] not in ('clock', 'clock_once') else (c['at'] - opts['start_clocktime']) % 86400
            if first % opts['rule'] == 0:
                off = draw(st.sampled_from([7, 30, 61, 1]))
                if off % opts['rule'] == 0:
                    off = 7
                c['at'] = (c['at'] + off) % 86400 if c['kind'] in ('clock', 'clock_once') else c['at'] + off
    # distinct priorities among rules (equal priorities are unspecified when they collide)
    used = set()
    for r in rules:
        while r['priority'] in used:
            r['priority'] = (r['priority'] % 6) + 1
        used.add(r['priority'])
    opts.pop('_grid', None)
    return {'opts': opts, 'n': n, 'chord': draw(st.booleans()), 'targets': targets, 'controls': controls, 'rules': rules}


def summarize(case):
    return {'opts': case['opts'], 'targets': [t['name'] for t in case['targets']],
            'controls': case['controls'], 'rules': case['rules']}


# ------------------------------------------------------------------------------------------ model under test
def build_wn(case):
    import wntr
    from wntr.network import LinkStatus
    from wntr.network.controls import (AndCondition, Control, ControlAction, ControlPriority, OrCondition, Rule,
                                       SimTimeCondition, TimeOfDayCondition)
    o = case['opts']
    wn = wntr.network.WaterNetworkModel()
    t = wn.options.time
    t.duration, t.hydraulic_timestep, t.rule_timestep = o['duration'], o['hyd'], o['rule']
    t.report_timestep = o['rep']
    t.pattern_timestep = 3600
    t.start_clocktime = o['start_clocktime']
    n = case['n']
    wn.add_reservoir('R', base_head=60.0)
    for i in range(n):
        wn.add_junction('J%d' % (i + 1), base_demand=0.001, elevation=5.0 + i)
    wn.add_pipe('TRUNK', 'R', 'J1', length=100, diameter=0.4, roughness=120)
    inits = {tg['name']: tg['init'] for tg in case['targets'] if tg['attr'] != 'vstatus'}
    for i in range(n):
        a, b = 'J%d' % (i + 1), 'J%d' % ((i + 1) % n + 1)
        wn.add_pipe('P%d' % (i + 1), a, b, length=200, diameter=0.2, roughness=110,
                    initial_status=inits['P%d' % (i + 1)])
    if case['chord']:
        wn.add_pipe('CH', 'J1', 'J3', length=300, diameter=0.15, roughness=100)
    if 'V1' in inits:
        wn.add_valve('V1', 'J2', 'J%d' % n if n > 3 else 'J1', diameter=0.2, valve_type='TCV', minor_loss=0.0,
                     initial_setting=inits['V1'], initial_status='ACTIVE')

    def act(i, v):
        tg = case['targets'][i]
        link = wn.get_link(tg['name'])
        if tg['attr'] == 'status':
            return ControlAction(link, 'status', LinkStatus.Open if v == 'OPEN' else LinkStatus.Closed)
        if tg['attr'] == 'vstatus':
            return ControlAction(link, 'status', LinkStatus.Active if v == 'ACTIVE' else LinkStatus.Closed)
        return ControlAction(link, 'setting', float(v))

    def cond(c):
        if c[0] == 'time':
            return SimTimeCondition(wn, c[1], int(c[2]))
        if c[0] == 'clock':
            return TimeOfDayCondition(wn, c[1], int(c[2]))
        parts = [cond(s) for s in c[1:]]
        cls = AndCondition if c[0] == 'and' else OrCondition
        cur = parts[0]
        for p in parts[1:]:
            cur = cls(cur, p)
        return cur

    for k, c in enumerate(case['controls']):
        ctl = Control._time_control(wn, int(c['at']), 'CLOCK_TIME' if c['kind'] in ('clock', 'clock_once') else 'SIM_TIME',
                                    c['kind'] in ('clock', 'time_daily'), act(c['target'], c['value']))
        ctl.update_priority(ControlPriority(c['priority']))
        wn.add_control('c%d' % k, ctl)
    for k, r in enumerate(case['rules']):
        rule = Rule(cond(r['cond']), [act(i, v) for i, v in r['then']],
                    [act(i, v) for i, v in r['else']] if r['else'] else None,
                    priority=ControlPriority(r['priority']), name='r%d' % k)
        wn.add_control('r%d' % k, rule)
    return wn


def schedule_of(case):
    """the schedule the reference timeline is computed from; with a valve-status target present every setting command
    on that valve also commands status ACTIVE at the same instant with the same priority"""
    tg = case['targets']
    iv = [i for i, t in enumerate(tg) if t['attr'] == 'vstatus']
    if not iv:
        return {'opts': case['opts'], 'targets': tg, 'controls': case['controls'], 'rules': case['rules']}
    iv = iv[0]
    is_set = lambda i: tg[i]['attr'] == 'setting' and tg[i]['name'] == tg[iv]['name']
    controls = []
    for c in case['controls']:
        controls.append(c)
        if is_set(c['target']):
            controls.append(dict(c, target=iv, value='ACTIVE'))
    rules = []
    for r in case['rules']:
        r2 = dict(r)
        for key in ('then', 'else'):
            acts = [list(a) for a in r[key]]
            if any(is_set(i) for i, _v in acts) and not any(i == iv for i, _v in acts):
                acts.append([iv, 'ACTIVE'])
            r2[key] = acts
        rules.append(r2)
    return {'opts': case['opts'], 'targets': tg, 'controls': controls, 'rules': rules}


def _val_eq(tg, reported, want):
    if tg['attr'] == 'status':
        return int(round(reported)) == (1 if want == 'OPEN' else 0)
    if tg['attr'] == 'vstatus':
        return int(round(reported)) == {'CLOSED': 0, 'OPEN': 1, 'ACTIVE': 2}[want]
    return abs(reported - float(want)) <= 1e-9


def _fmt(tg, reported):
    if tg['attr'] in ('status', 'vstatus'):
        return {0: 'CLOSED', 1: 'OPEN', 2: 'ACTIVE'}.get(int(round(reported)), repr(reported))
    return '%g' % reported


# ------------------------------------------------------------------------------------------ EPANET cross-check of the reference
def _hms(s):
    return '%d:%02d:%02d' % (s // 3600, (s % 3600) // 60, s % 60)


def epanet_comparable(case):
    o = case['opts']
    if any(t['attr'] == 'vstatus' for t in case['targets']):
        return False
    if o['hyd'] % o['rule'] != 0 and case['rules']:
        return False
    seen = set()
    for c in case['controls']:
        if c['at'] % 900 != 0 or c['kind'] in ('time_daily', 'clock_once'):     # EPANET has no repeating sim-time / one-time clock control
            return False
        if case['rules'] and c['at'] % o['rule'] != 0:
            return False
        for t in T.control_instants(c, o):
            if (t, c['target']) in seen:
                return False
            seen.add((t, c['target']))
            # EPANET also evaluates rules at the end of a hydraulic step that a control cut short, even off the rule grid
            if case['rules'] and t % o['rule'] != 0:
                return False
    if o['start_clocktime'] % 900 != 0:
        return False
    for r in case['rules']:
        stack = [r['cond']]
        while stack:
            c = stack.pop()
            if c[0] in ('time', 'clock'):
                if c[2] % 900 != 0:
                    return False
            else:
                stack.extend(c[1:])
    return True


def inp_text(case):
    o = case['opts']
    n = case['n']
    inits = {tg['name']: tg['init'] for tg in case['targets'] if tg['attr'] != 'vstatus'}
    L = ['[TITLE]', 'c04', '', '[JUNCTIONS]']
    for i in range(n):
        L.append('J%d %g 1.0' % (i + 1, 5.0 + i))
    L += ['', '[RESERVOIRS]', 'R 60', '', '[PIPES]', 'TRUNK R J1 100 400 120 0 OPEN']
    for i in range(n):
        L.append('P%d J%d J%d 200 200 110 0 %s' % (i + 1, i + 1, (i + 1) % n + 1, inits['P%d' % (i + 1)]))
    if case['chord']:
        L.append('CH J1 J3 300 150 100 0 OPEN')
    L += ['', '[VALVES]']
    if 'V1' in inits:
        L.append('V1 J2 %s 200 TCV %g 0' % ('J%d' % n if n > 3 else 'J1', inits['V1']))
    L += ['', '[CONTROLS]']
    for c in case['controls']:
        tg = case['targets'][c['target']]
        val = c['value'] if tg['attr'] == 'status' else '%g' % c['value']
        if c['kind'] == 'time':
            L.append('LINK %s %s AT TIME %s' % (tg['name'], val, _hms(c['at'])))
        else:
            L.append('LINK %s %s AT CLOCKTIME %s' % (tg['name'], val, _hms(c['at'])))
    L += ['', '[RULES]']

    def prem(c):
        return 'SYSTEM %s %s %s' % ('TIME' if c[0] == 'time' else 'CLOCKTIME', c[1], _hms(c[2]))

    def actline(i, v):
        tg = case['targets'][i]
        if tg['attr'] == 'status':
            return 'PIPE %s STATUS IS %s' % (tg['name'], v)
        return 'VALVE %s SETTING IS %g' % (tg['name'], v)

    for k, r in enumerate(case['rules']):
        L.append('RULE r%d' % k)
        c = r['cond']
        leaves = [c] if c[0] in ('time', 'clock') else c[1:]
        join = 'AND' if c[0] != 'or' else 'OR'
        for j, lf in enumerate(leaves):
            L.append(('IF ' if j == 0 else join + ' ') + prem(lf))
        for j, (i, v) in enumerate(r['then']):
            L.append(('THEN ' if j == 0 else 'AND ') + actline(i, v))
        for j, (i, v) in enumerate(r['else']):
            L.append(('ELSE ' if j == 0 else 'AND ') + actline(i, v))
        L.append('PRIORITY %d' % r['priority'])
        L.append('')
    L += ['[TIMES]', 'DURATION %s' % _hms(o['duration']), 'HYDRAULIC TIMESTEP %s' % _hms(o['hyd']),
          'RULE TIMESTEP %s' % _hms(o['rule']), 'PATTERN TIMESTEP 1:00', 'REPORT TIMESTEP %s' % _hms(o['hyd']),
          'START CLOCKTIME %s' % _hms(o['start_clocktime']), '',
          '[OPTIONS]', 'UNITS LPS', 'HEADLOSS H-W', 'ACCURACY 0.001', 'TRIALS 100', 'UNBALANCED CONTINUE 10', '', '[END]', '']
    return '\n'.join(L)


def epanet_rows(case):
    """[(t, [value per target])] for every hydraulic event EPANET solves"""
    from wntr.epanet.toolkit import ENepanet
    from wntr.epanet.util import EN
    with open('c04.inp', 'w') as f:
        f.write(inp_text(case))
    en = ENepanet(version=2.2)
    en.ENopen('c04.inp', 'c04.rpt', 'c04.bin')
    rows = []
    try:
        en.ENopenH()
        en.ENinitH(0)
        idx = [en.ENgetlinkindex(tg['name']) for tg in case['targets']]
        while True:
            t = en.ENrunH()
            vals = []
            for tg, i in zip(case['targets'], idx):
                if tg['attr'] == 'status':
                    vals.append('OPEN' if en.ENgetlinkvalue(i, EN.STATUS) >= 1 else 'CLOSED')
                else:
                    vals.append(en.ENgetlinkvalue(i, EN.SETTING))
            rows.append((int(t), vals))
            if en.ENnextH() <= 0:
                break
        en.ENcloseH()
    finally:
        en.ENclose()
    return rows


# ------------------------------------------------------------------------------------------ check
def check(case):
    from .. import spec as S
    sched = schedule_of(case)
    o = case['opts']
    sts, amb = T.states(sched)
    tags = ['rep:%s' % ('ALL' if o['rep'] == 'ALL' else 'grid')]
    if o['start_clocktime']:
        tags.append('start_clocktime')
    for c in case['controls']:
        tags.append('ctl_' + c['kind'])
    for r in case['rules']:
        for k in T.cond_kinds(r['cond']):
            tags.append('rule:' + k)
        if r['else']:
            tags.append('rule:else')
        if r['cond'][0] in ('and', 'or'):
            tags.append('rule:' + r['cond'][0])
    if amb:
        return inconclusive('unspecified: %s' % amb[0][2], tags)
    # classification of what the reference predicts
    changes = [(t, ch) for (t, _v, ch) in sts[1:] if ch]
    off_grid = any(t % o['hyd'] != 0 for t, _ in changes)
    second_day = any(t >= 86400 for t, _ in changes)
    by_rule = any(tag.startswith('rule') for _t, ch in changes for tag in ch.values())
    events, _ = T.timeline(sched)
    conflict = False
    per_instant = {}
    for c in case['controls']:
        for t in T.control_instants(c, o):
            per_instant.setdefault((t, c['target']), set()).add(c['value'])
    conflict = any(len(v) > 1 for v in per_instant.values())
    for flag, name in ((off_grid, 'change_off_hyd_grid'), (second_day, 'change_on_later_day'),
                       (by_rule, 'change_by_rule'), (conflict, 'priority_conflict')):
        if flag:
            tags.append(name)
    if not changes:
        tags.append('no_predicted_change')

    # --- cross-check of the reference against EPANET where the semantics coincide by construction
    if epanet_comparable(case):
        try:
            rows = epanet_rows(case)
        except Exception as e:
            rows = None
            tags.append('epanet_failed:%s' % type(e).__name__)
        if rows is not None and rows[-1][0] < (o['duration'] // o['hyd']) * o['hyd']:
            rows = None
            tags.append('epanet_failed:halted')
        if rows is not None:
            tags.append('reference_checked_against_epanet')
            for t, vals in rows:
                want = T.state_at(sts, t)
                for tg, got, w in zip(case['targets'], vals, want):
                    same = (got == w) if tg['attr'] == 'status' else abs(float(got) - float(w)) <= 1e-6
                    if not same:
                        return inconclusive('reference model and EPANET disagree (harness: check refs/c04_timesem)',
                                            tags + ['REF_VS_EPANET t=%d %s epanet=%s ref=%s' % (t, tg['name'], got, w)])
            for t, ch in changes:
                if t <= o['duration'] and t not in set(r[0] for r in rows):
                    return inconclusive('reference model and EPANET disagree (harness: check refs/c04_timesem)',
                                        tags + ['REF_VS_EPANET no epanet event at t=%d' % t])

    # --- WNTR
    try:
        wn = build_wn(case)
    except Exception as e:
        return fail(exc_bucket(e, 'build'), 'building the model raised %r' % e, tags)
    run = S.run_wntr(wn)
    if run.exception is not None:
        return fail(exc_bucket(run.exception, 'run_sim'), 'run_sim raised %r' % run.exception, tags)
    if not run.ok:
        return inconclusive('not converged', tags)
    times = [int(t) for t in run.times]
    tset = set(times)

    def coarse(tag):
        # 'rule(clock>+time<=):else' -> 'rule_mixed:else' (root-cause keys must not depend on the concrete operators)
        if not tag.startswith('rule('):
            return tag
        inner, _, rest = tag[5:].partition(')')
        kinds = set(k[:4] if k.startswith('time') else 'clock' for k in inner.split('+'))
        ops = set(k[4:] if k.startswith('time') else k[5:] for k in inner.split('+'))
        name = 'rule_' + ('mixed' if len(kinds) > 1 else kinds.pop())
        if len(ops) == 1:
            name += ops.pop()
        return name + rest

    def culprit(t, ti, got_txt):
        """root-cause key for a mismatch of target ti at row time t"""
        tg = case['targets'][ti]
        # last reference change of this target at or before t
        last = None
        for tt, _v, ch in sts[1:]:
            if tt <= t and ti in ch:
                last = (tt, ch[ti])
        prev_vals = None
        if last is not None:
            # value before that change
            before = sts[0][1]
            for tt, vals, _ch in sts[1:]:
                if tt < last[0]:
                    before = vals
            prev_vals = before[ti]
        if last is not None and _val_eq(tg, _num(tg, got_txt), prev_vals):
            return 'not_applied/%s' % coarse(last[1])
        # a value nobody should have commanded yet: who commands it at all?
        srcs = set()
        for c in case['controls']:
            if c['target'] == ti and _txt(tg, c['value']) == got_txt:
                srcs.add('ctl_' + c['kind'])
        for r in case['rules']:
            for clause, suffix in ((r['then'], ''), (r['else'], ':else')):
                for i, v in clause:
                    if i == ti and _txt(tg, v) == got_txt:
                        srcs.add('rule(%s)%s' % ('+'.join(sorted(set(T.cond_kinds(r['cond'])))), suffix))
        srcs = set(coarse(x).split(':')[0].rstrip('<>=') for x in srcs)
        if t == 0:
            return 'spurious_at_t0/%s' % ('rule' if any(x.startswith('rule') for x in srcs) else '|'.join(sorted(srcs)) or 'nobody')
        return 'spurious_later/%s' % ('|'.join(sorted(srcs)) or 'nobody')

    def _txt(tg, v):
        return v if tg['attr'] in ('status', 'vstatus') else '%g' % float(v)

    def _num(tg, txt):
        if tg['attr'] in ('status', 'vstatus'):
            return {'OPEN': 1, 'CLOSED': 0}.get(txt, 2)
        return float(txt)

    for k, t in enumerate(times):
        want = T.state_at(sts, t)
        for ti, tg in enumerate(case['targets']):
            got = run.link['status' if tg['attr'] == 'vstatus' else tg['attr']][tg['name']][k]
            if not _val_eq(tg, got, want[ti]):
                got_txt = _fmt(tg, got)
                return fail('timeline/' + culprit(t, ti, got_txt),
                            't=%d (%s clock %s): %s %s reported %s, reference timeline says %s\nreference changes: %s'
                            % (t, _hms(t), _hms(T.clock(t, o['start_clocktime'])), tg['name'], tg['attr'], got_txt,
                               want[ti], [(tt, {case['targets'][i]['name']: tag for i, tag in ch.items()})
                                          for tt, ch in changes][:12]), tags)
    if o['rep'] == 'ALL':
        for t, ch in changes:
            if t <= o['duration'] and t not in tset:
                ti = sorted(ch)[0]
                return fail('no_step_at_instant/%s' % coarse(ch[ti]),
                            'the reference timeline changes %s at t=%d (%s) but no step was solved/reported there; '
                            'reported times around: %s' % (case['targets'][ti]['name'], t, _hms(t),
                                                           [x for x in times if abs(x - t) <= 2 * o['hyd']]), tags)
        # no duplicated or decreasing times
        if any(b <= a for a, b in zip(times, times[1:])):
            return fail('index_not_increasing', 'reported times %s' % times[:30], tags)
    nontrivial = off_grid or second_day or by_rule or conflict
    return passed(nontrivial, tags)
