"""C13 - dictionary and JSON representations round-trip the model exactly.

A case is a plain-data *rich model spec* (every element type, patterns, curves, sources, leaks, PDD fields, simple
controls, rules, options).  `build(case)` creates the WaterNetworkModel through the public API only; the oracle is
the statement itself:

    norm(to_dict(from_dict(json.loads(json.dumps(to_dict(wn)))))) == norm(to_dict(wn))

with the three normalisations the statement names, the same through write_json/read_json (file and buffer), through
from_dict on the un-serialised dictionary, and from_dict(d, append=<empty model>) == from_dict(d).
"""
import copy
import io as _io
import json
import os

from hypothesis import strategies as st

from ..outcome import CaseTimeout, fail, passed

ID = 'C13'
LEVEL = 'exploration'
CASES = {'quick': 1920, 'thorough': 48000}
CASE_TIMEOUT = 30
TECHNIQUE = ('property-based testing (Hypothesis): generated rich model specs built through the public API; round '
             'trip through to_dict/json/from_dict, write_json/read_json and append; field-wise dictionary diff with '
             'one bucket per lost/changed attribute')
RULE = ('Generated spec: 2-4 junctions (thorough 2-6; 0-3 demands with pattern/category, emitter, initial quality, '
        'per-junction PDD fields, tag, leak with/without start/end, fire-fighting demand, custom attribute), 0-2 tanks '
        '(volume curve, overflow, min volume, mixing model/fraction, bulk coefficient, leak with/without start/end), '
        '0-2 reservoirs (head pattern), 0-5 links (thorough 0-8): pipes (CV, status, minor loss, bulk/wall '
        'coefficient, vertices, tag, initial quality), pumps (HEAD/POWER, speed + pattern, efficiency curve, energy '
        'price/pattern, initial setting, outage rule), valves of all six types (GPV with headloss curve); 0-3 patterns '
        '(wrap on/off), 0-5 curves of the four types, 0-2 sources of the four types, 0-4 controls (AT TIME, AT '
        'CLOCKTIME, IF tank level / junction pressure; actions on status, setting, base_speed) and rules (six '
        'relations, AND/OR up to depth 2 on either side, ELSE, several actions, PRIORITY), 0-8 option overrides out of '
        'all eight option sections, three naming styles (typed, purely numeric with node/link name collisions, mixed '
        'case with punctuation). One case in four is first written to and re-read from an INP file, so that the model '
        'under test is in the state the INP reader leaves. Each case draws a sparse (0-4 features) or a rich feature '
        'mask so that features appear alone as well as combined. Enumerated part (always run): every INP file shipped '
        'with the tree (tests + examples; Net6 only in the thorough tier), 70 single-feature variants of a 5-node '
        'model, each of the 147 listed option values alone, 28 single controls/rules, and two all-features models. '
        'Non-trivial = '
        'the model carries at least one feature tag other than the naming style; distinct = SHA-1 of the spec.')
ASSUMPTIONS = [
    'dictionary equality after json.loads(json.dumps(.)) of both sides (tuples -> lists), "" == None for pattern-name '
    'fields, and a junction with an empty demand list may come back with exactly one demand of base value 0 '
    '(the three normalisations named in the statement); the only other tolerance: a rule condition text that differs in '
    'blanks only AND whose AND/OR regrouping is a pure re-association (same truth table) is accepted',
    'names contain no blanks, ";" or EPANET rule keywords (the API asserts no blanks; controls are serialised as '
    'EPANET-style text)',
    'numeric values are finite floats (NaN != NaN would make dictionary equality meaningless); action/threshold '
    'values of controls are floats (an int 1 prints as "1" and returns as "1.0")',
    'simple controls are the EPANET forms (AT TIME, AT CLOCKTIME, IF tank level / junction pressure ABOVE/BELOW) built '
    'with the public Control/SimTimeCondition/TimeOfDayCondition/ValueCondition classes, and - one conditional control in '
    'four - a form EPANET has no control line for (reservoir head, tank head, tank pressure, link flow; recorded open '
    'finding, filed under its own root-cause bucket); rules use any relation, '
    'AND/OR nesting, ELSE and PRIORITY; tank conditions use inequalities only (TankLevelCondition refuses = and <>)',
    'a fire-fighting demand is only added with a duration that covers it (with an empty horizon binary_pattern '
    'returns an empty Pattern object, which is falsy, so that to_dict cannot even report its name)',
    'only the dictionary is observed (as the statement says): e.g. pump.efficiency coming back as a plain dict '
    'instead of a Curve is not visible to this check',
]
TOLERANCES = {'equality': 'exact (Python floats survive repr/JSON exactly)'}
LEVEL_TEXT = ('randomised search over model specs plus a fixed list of single-feature models; every public attribute '
              'that to_dict emits is exercised with a non-default value; no proof')
LEVEL_NOTE = ('trusted base: the WaterNetworkModel.add_* / attribute setters used to build the model, the json module, '
              'the 60-line dictionary differ in this module')
SHRINK_BUDGET = {'quick': 25, 'thorough': 200}

VALVE_TYPES = ['PRV', 'PSV', 'PBV', 'FCV', 'TCV', 'GPV']
CURVE_KINDS = ['HEAD', 'VOLUME', 'EFFICIENCY', 'HEADLOSS']
SOURCE_TYPES = ['CONCEN', 'MASS', 'FLOWPACED', 'SETPOINT']
PAT_KEYS = {'pattern_name', 'demand_pattern', 'head_pattern_name', 'speed_pattern_name', 'pattern', 'energy_pattern',
            'global_pattern'}

# --------------------------------------------------------------------------------------------------------------
# option overrides: (section, key) -> candidate values (all are values the setters accept and keep)
OPTION_VALUES = {
    ('time', 'duration'): [3600, 86400.0, 7200.5, 10 * 86400],
    ('time', 'hydraulic_timestep'): [60, 900, 7200],
    ('time', 'quality_timestep'): [30, 300],
    ('time', 'rule_timestep'): [60, 3600],
    ('time', 'pattern_timestep'): [600, 7200],
    ('time', 'pattern_start'): [3600.0, 5400],
    ('time', 'report_timestep'): [1800, 'ALL', 7200],
    ('time', 'report_start'): [3600, 1800.0],
    ('time', 'start_clocktime'): [3600, 6 * 3600 + 1800, 86399.0],
    ('time', 'statistic'): ['AVERAGED', 'MINIMUM', 'MAXIMUM', 'RANGE'],
    ('time', 'pattern_interpolation'): [True],
    ('hydraulic', 'headloss'): ['D-W', 'C-M'],
    ('hydraulic', 'hydraulics'): ['USE', 'SAVE'],
    ('hydraulic', 'hydraulics_filename'): ['hyd.bin'],
    ('hydraulic', 'viscosity'): [1.1, 0.5],
    ('hydraulic', 'specific_gravity'): [0.98, 1.2],
    ('hydraulic', 'pattern'): [None, '', 'pat0', '1', '2', 'nopattern'],
    ('hydraulic', 'demand_multiplier'): [0.5, 1.3],
    ('hydraulic', 'demand_model'): ['PDD', 'PDA'],
    ('hydraulic', 'minimum_pressure'): [2.0, 3.516],
    ('hydraulic', 'required_pressure'): [14.06, 20.0],
    ('hydraulic', 'pressure_exponent'): [0.75, 1.0],
    ('hydraulic', 'emitter_exponent'): [0.6, 1.0],
    ('hydraulic', 'trials'): [40, 500],
    ('hydraulic', 'accuracy'): [0.01, 1e-5],
    ('hydraulic', 'unbalanced'): ['CONTINUE'],
    ('hydraulic', 'unbalanced_value'): [10, 0],
    ('hydraulic', 'checkfreq'): [5],
    ('hydraulic', 'maxcheck'): [20],
    ('hydraulic', 'damplimit'): [0.01, 1],
    ('hydraulic', 'headerror'): [0.001],
    ('hydraulic', 'flowchange'): [0.0001],
    ('hydraulic', 'inpfile_units'): ['LPS', 'CMH', 'CFS', 'MGD', 'AFD', 'IMGD', 'LPM', 'MLD', 'CMD'],
    ('hydraulic', 'inpfile_pressure_units'): ['PSI', 'KPA', 'METERS'],
    ('quality', 'parameter'): ['CHEMICAL', 'AGE', 'TRACE'],
    ('quality', 'trace_node'): ['J0', '1'],
    ('quality', 'chemical_name'): ['Chlorine', 'Cl2'],
    ('quality', 'diffusivity'): [1.3, 0.0],
    ('quality', 'tolerance'): [0.001, 0.05],
    ('quality', 'inpfile_units'): ['ug/L'],
    ('reaction', 'bulk_order'): [2.0, 0.0],
    ('reaction', 'wall_order'): [0.0],
    ('reaction', 'tank_order'): [2.0],
    ('reaction', 'bulk_coeff'): [-5.787e-06, 1e-7],
    ('reaction', 'wall_coeff'): [-1.1574e-05],
    ('reaction', 'limiting_potential'): [0.01, 10],
    ('reaction', 'roughness_correl'): [-0.5, 1.5],
    ('energy', 'global_price'): [0.1, 3.61e-8],
    ('energy', 'global_pattern'): ['pat0', '1', ''],
    ('energy', 'global_efficiency'): [75.0, 60],
    ('energy', 'demand_charge'): [0.5, 2],
    ('report', 'pagesize'): [40, [20, 30]],
    ('report', 'report_filename'): ['out.rpt'],
    ('report', 'status'): ['YES', 'FULL'],
    ('report', 'summary'): ['NO'],
    ('report', 'energy'): ['YES'],
    ('report', 'nodes'): [True, 'ALL', ['Node-1a', 'Junction12']],
    ('report', 'links'): [True, 'ALL', ['link_1.B', 'Pipe123']],
    ('report', 'report_params.elevation'): [True],
    ('report', 'report_params.flow'): [False],
    ('report', 'report_params.f-factor'): [True],
    ('report', 'param_opts.pressure'): [{'below': 10.0}, {'precision': 3, 'above': 1.5}],
    ('graphics', 'dimensions'): [[0.0, 0.0, 100.0, 100.0], ['0.00', '0.00', '10000.00', '10000.00']],
    ('graphics', 'units'): ['METERS', 'FEET', 'DEGREES'],
    ('graphics', 'offset'): [[1.5, 2.5], ['0.00', '0.00']],
    ('graphics', 'image_filename'): ['map.bmp'],
    ('graphics', 'map_filename'): ['coords.map'],
    ('user', 'scenario'): ['base', 7, 2.5, None, True],
    ('user', 'weights'): [[1.0, 2.5, 3], {'a': 1, 'b': [1, 2]}],
    ('user', 'note_1'): ['free text with blanks'],
}
OPTION_KEYS = sorted(OPTION_VALUES)
SECTIONS = ['time', 'hydraulic', 'quality', 'reaction', 'energy', 'report', 'graphics', 'user']

# optional feature groups of the generator (the mask decides which may deviate from the default in one case)
FEATURES = (
    ['model.name', 'pattern.wrap', 'names']
    + ['options.' + s for s in SECTIONS]
    + ['junction.' + f for f in ('demands', 'category', 'pattern', 'emitter', 'initial_quality', 'pdd', 'tag',
                                 'leak', 'leak_timed', 'fire', 'custom', 'coordinates')]
    + ['tank.' + f for f in ('vol_curve', 'overflow', 'mixing', 'bulk_coeff', 'initial_quality', 'tag', 'leak',
                             'leak_timed', 'min_vol', 'custom')]
    + ['reservoir.' + f for f in ('head_pattern', 'initial_quality', 'tag', 'custom')]
    + ['pipe.' + f for f in ('check_valve', 'status', 'minor_loss', 'bulk_coeff', 'wall_coeff', 'vertices', 'tag',
                             'initial_quality', 'custom')]
    + ['pump.' + f for f in ('speed', 'speed_pattern', 'status', 'efficiency', 'energy_price', 'energy_pattern',
                             'vertices', 'tag', 'initial_quality', 'initial_setting', 'outage', 'custom')]
    + ['valve.' + f for f in ('status', 'minor_loss', 'vertices', 'tag', 'initial_quality', 'custom')]
    + ['source', 'control.time', 'control.clock', 'control.cond', 'rule', 'rule.else', 'rule.andor', 'rule.nested',
       'rule.priority', 'rule.multi_action']
)


# --------------------------------------------------------------------------------------------------------------
# names
def _nm(style, kind, i, sub=''):
    if style == 1:
        return str(i + 1)
    if style == 2:
        return {'node': 'Node-%da', 'link': 'link_%d.B', 'pat': 'Pat.%d', 'curve': 'Crv-%d', 'source': 'Src_%d',
                'rule': 'Rule-%d'}[kind] % (i + 1)
    return {'node': sub or 'N', 'link': sub or 'L', 'pat': 'pat', 'curve': 'crv', 'source': 'S', 'rule': 'rule'}[kind] \
        + str(i)


def _names(case):
    """-> dict with the name of every element of the spec (lists parallel to the spec lists)"""
    s = case.get('style', 0)
    sub = {'J': 'J', 'T': 'T', 'R': 'R', 'pipe': 'P', 'pump': 'PU', 'valve': 'V'}
    return {
        'nodes': [_nm(s, 'node', i, sub[n['k']]) for i, n in enumerate(case['nodes'])],
        'links': [_nm(s, 'link', i, sub[l['k']]) for i, l in enumerate(case['links'])],
        'pats': [_nm(s, 'pat', i) for i in range(len(case['pats']))],
        'curves': [_nm(s, 'curve', i) for i in range(len(case['curves']))],
        'sources': [_nm(s, 'source', i) for i in range(len(case['sources']))],
    }


def _pick(lst, i):
    if i is None or not lst:
        return None
    return lst[int(i) % len(lst)]


# --------------------------------------------------------------------------------------------------------------
# builder: spec -> WaterNetworkModel, public API only
def build(case, info=None):
    """returns (wn, feature tags); info (dict) receives {'rules': {rule name: condition tree of the spec}}"""
    import wntr
    from wntr.network import controls as C
    from wntr.network.base import LinkStatus
    from wntr.network.elements import Pattern

    feats = set()
    nm = _names(case)
    style = case.get('style', 0)
    if style:
        feats.add('names:%s' % {1: 'numeric', 2: 'mixed_case'}[style])
    wn = wntr.network.WaterNetworkModel()
    if case.get('name') is not None:
        wn.name = case['name']
        feats.add('model.name')

    for sec, key, val in case.get('opts', []):
        val = copy.deepcopy(val)
        obj = getattr(wn.options, sec)
        if '.' in key:
            k1, k2 = key.split('.', 1)
            getattr(obj, k1)[k2] = val
        else:
            setattr(obj, key, val)
        feats.add('options.%s' % sec)

    for name, p in zip(nm['pats'], case['pats']):
        if p.get('wrap', True):
            wn.add_pattern(name, [float(v) for v in p['m']])
        else:
            wn.add_pattern(name, Pattern(name, [float(v) for v in p['m']], time_options=wn.options.time, wrap=False))
            feats.add('pattern.wrap')
        if p.get('via_setter'):
            # the multipliers are assigned afterwards through the setter, whole numbers as Python ints
            wn.get_pattern(name).multipliers = [int(v) if float(v).is_integer() else float(v) for v in p['m']]
            feats.add('pattern.multipliers_setter')
        feats.add('pattern')
    curves_by_kind = {k: [] for k in CURVE_KINDS}
    for name, c in zip(nm['curves'], case['curves']):
        wn.add_curve(name, c['k'], [(float(x), float(y)) for x, y in c['pts']])
        curves_by_kind[c['k']].append(name)
        feats.add('curve.%s' % c['k'])

    def pat(i):
        return _pick(nm['pats'], i)

    def common(obj, s, kind):
        if s.get('iq') is not None:
            obj.initial_quality = s['iq']
            feats.add(kind + '.initial_quality')
        if s.get('tag') is not None:
            obj.tag = s['tag']
            feats.add(kind + '.tag')
        if s.get('custom') is not None:
            setattr(obj, 'survey_%s' % kind, copy.deepcopy(s['custom']))
            feats.add(kind + '.custom')

    def vertices(obj, s, kind):
        if s.get('vx'):
            obj.vertices = [(x, y) for x, y in s['vx']]
            feats.add(kind + '.vertices')

    def add_leak(node, s, kind):
        lk = s.get('leak')
        if lk:
            area, cd, start, end = lk
            node.add_leak(wn, area, cd, start, end)
            feats.add(kind + ('.leak_timed' if (start is not None or end is not None) else '.leak'))

    junctions, tanks = [], []
    for name, s in zip(nm['nodes'], case['nodes']):
        xy = tuple(s['xy']) if s.get('xy') is not None else None
        if xy is not None:
            feats.add('coordinates')
        if s['k'] == 'J':
            dem = s.get('dem', [[0.0, None, None]])
            first = dem[0] if dem else [0.0, None, None]
            wn.add_junction(name, base_demand=first[0], demand_pattern=pat(first[1]), elevation=s['elev'],
                            coordinates=xy, demand_category=first[2])
            j = wn.get_node(name)
            if not dem:
                j.demand_timeseries_list.clear()
                feats.add('junction.no_demand')
            for b, p, cat in dem[1:]:
                j.add_demand(b, pat(p), cat)
            if len(dem) > 1:
                feats.add('junction.multi_demand')
            if any(pat(d[1]) is not None for d in dem):
                feats.add('junction.demand_pattern')
            if any(d[2] is not None for d in dem):
                feats.add('junction.category')
            if s.get('emit') is not None:
                j.emitter_coefficient = s['emit']
                feats.add('junction.emitter')
            for k, attr in (('pmin', 'minimum_pressure'), ('preq', 'required_pressure'), ('pexp', 'pressure_exponent')):
                if s.get(k) is not None:
                    setattr(j, attr, s[k])
                    feats.add('junction.pdd')
            if s.get('fire'):
                q, t0, dt = s['fire']
                # a fire flow needs a duration that covers it (binary_pattern of an empty horizon is an empty,
                # falsy Pattern object whose name to_dict cannot report)
                need = max(t0 + dt, wn.options.time.pattern_timestep)
                if wn.options.time.duration < need:
                    wn.options.time.duration = need
                j.add_fire_fighting_demand(wn, q, t0, t0 + dt)
                feats.add('junction.fire')
            add_leak(j, s, 'junction')
            common(j, s, 'junction')
            junctions.append(name)
        elif s['k'] == 'T':
            lo, frac, span = s['lv']
            vc = _pick(curves_by_kind['VOLUME'], s.get('vc'))
            wn.add_tank(name, elevation=s['elev'], init_level=lo + frac * span, min_level=lo, max_level=lo + span,
                        diameter=s['diam'], min_vol=s.get('minvol', 0.0), vol_curve=vc,
                        overflow=bool(s.get('ovf', False)), coordinates=xy)
            t = wn.get_node(name)
            if vc is not None:
                feats.add('tank.vol_curve')
            if s.get('ovf'):
                feats.add('tank.overflow')
            if s.get('minvol'):
                feats.add('tank.min_vol')
            if s.get('mix') is not None:
                t.mixing_model = s['mix']
                feats.add('tank.mixing_model')
            if s.get('frac') is not None:
                t.mixing_fraction = s['frac']
                feats.add('tank.mixing_fraction')
            if s.get('bulk') is not None:
                t.bulk_coeff = s['bulk']
                feats.add('tank.bulk_coeff')
            add_leak(t, s, 'tank')
            common(t, s, 'tank')
            tanks.append(name)
        else:
            hp = pat(s.get('pat'))
            wn.add_reservoir(name, base_head=s['head'], head_pattern=hp, coordinates=xy)
            if hp is not None:
                feats.add('reservoir.head_pattern')
            common(wn.get_node(name), s, 'reservoir')

    nn = len(nm['nodes'])
    pumps, valves = [], []
    for name, s in zip(nm['links'], case['links']):
        k = s['k']
        vt = s.get('vt', 'TCV')
        if k == 'valve' and vt in ('PRV', 'PSV', 'FCV'):
            if len(junctions) < 2:
                vt = 'TCV'
        if k == 'valve' and vt in ('PRV', 'PSV', 'FCV'):
            a = junctions[s['a'] % len(junctions)]
            b = junctions[(s['a'] + 1 + s['b'] % (len(junctions) - 1)) % len(junctions)]
        else:
            a = nm['nodes'][s['a'] % nn]
            b = nm['nodes'][(s['a'] + 1 + s['b'] % (nn - 1)) % nn]
        if k == 'pipe':
            wn.add_pipe(name, a, b, length=s['len'], diameter=s['diam'], roughness=s['rough'],
                        minor_loss=s.get('minor', 0.0), initial_status=s.get('st', 'OPEN'),
                        check_valve=bool(s.get('cv', False)))
            p = wn.get_link(name)
            if s.get('cv'):
                feats.add('pipe.check_valve')
            if s.get('st', 'OPEN') != 'OPEN':
                feats.add('pipe.closed')
            if s.get('minor'):
                feats.add('pipe.minor_loss')
            if s.get('bulk') is not None:
                p.bulk_coeff = s['bulk']
                feats.add('pipe.bulk_coeff')
            if s.get('wall') is not None:
                p.wall_coeff = s['wall']
                feats.add('pipe.wall_coeff')
            vertices(p, s, 'pipe')
            common(p, s, 'pipe')
        elif k == 'pump':
            hc = _pick(curves_by_kind['HEAD'], s.get('curve', 0)) if s.get('head') else None
            sp = pat(s.get('pat'))
            if hc is not None:
                wn.add_pump(name, a, b, pump_type='HEAD', pump_parameter=hc, speed=s.get('speed', 1.0), pattern=sp,
                            initial_status=s.get('st', 'OPEN'))
                feats.add('pump.head')
            else:
                wn.add_pump(name, a, b, pump_type='POWER', pump_parameter=s.get('power', 50.0),
                            speed=s.get('speed', 1.0), pattern=sp, initial_status=s.get('st', 'OPEN'))
                feats.add('pump.power')
            p = wn.get_link(name)
            if s.get('speed', 1.0) != 1.0:
                feats.add('pump.speed')
            if sp is not None:
                feats.add('pump.speed_pattern')
            if s.get('st', 'OPEN') != 'OPEN':
                feats.add('pump.closed')
            ec = _pick(curves_by_kind['EFFICIENCY'], s.get('eff'))
            if ec is not None:
                p.efficiency = wn.get_curve(ec)
                feats.add('pump.efficiency')
            if s.get('price') is not None:
                p.energy_price = s['price']
                feats.add('pump.energy_price')
            ep = pat(s.get('epat'))
            if ep is not None:
                p.energy_pattern = ep
                feats.add('pump.energy_pattern')
            if s.get('iset') is not None:
                p.initial_setting = s['iset']
                feats.add('pump.initial_setting')
            vertices(p, s, 'pump')
            common(p, s, 'pump')
            if s.get('outage'):
                t0, t1, prio, after = s['outage']
                p.add_outage(wn, t0, t1, priority=prio, add_after_outage_rule=bool(after))
                feats.add('pump.outage')
            pumps.append(name)
        else:
            gc = _pick(curves_by_kind['HEADLOSS'], s.get('curve', 0))
            if vt == 'GPV' and gc is None:
                vt = 'TCV'
            wn.add_valve(name, a, b, diameter=s['diam'], valve_type=vt, minor_loss=s.get('minor', 0.0),
                         initial_setting=(gc if vt == 'GPV' else s.get('set', 0.0)),
                         initial_status=s.get('st', 'ACTIVE'))
            v = wn.get_link(name)
            feats.add('valve.%s' % vt)
            if s.get('st', 'ACTIVE') != 'ACTIVE':
                feats.add('valve.status')
            if s.get('minor'):
                feats.add('valve.minor_loss')
            vertices(v, s, 'valve')
            common(v, s, 'valve')
            valves.append((name, vt))

    for name, s in zip(nm['sources'], case['sources']):
        sp = pat(s.get('pat'))
        wn.add_source(name, nm['nodes'][s['node'] % nn], s['type'], s['q'], sp)
        feats.add('source.%s' % s['type'])
        if sp is not None:
            feats.add('source.pattern')

    # ---- controls
    status_val = {'OPEN': LinkStatus.Open, 'CLOSED': LinkStatus.Closed, 'ACTIVE': LinkStatus.Active}

    def action(a):
        li, kind, val = a
        if not nm['links']:
            return None
        if kind == 'setting':
            cand = [n for n, t in valves if t != 'GPV']
            if cand:
                return C.ControlAction(wn.get_link(cand[li % len(cand)]), 'setting', float(val))
        if kind == 'speed' and pumps:
            return C.ControlAction(wn.get_link(pumps[li % len(pumps)]), 'base_speed', float(val))
        link = wn.get_link(nm['links'][li % len(nm['links'])])
        st_ = val if isinstance(val, str) and val in status_val else 'OPEN'
        if st_ == 'ACTIVE' and link.link_type != 'Valve':
            st_ = 'CLOSED'
        return C.ControlAction(link, 'status', status_val[st_])

    def cond(c):
        k = c[0]
        if k == 'time':
            return C.SimTimeCondition(wn, c[1], c[2])
        if k == 'clock':
            return C.TimeOfDayCondition(wn, c[1], c[2])
        if k == 'node':
            node = wn.get_node(nm['nodes'][c[1] % nn])
            attrs = {'Junction': ['pressure', 'head', 'demand'], 'Tank': ['level', 'head', 'pressure'],
                     'Reservoir': ['head']}[node.node_type]
            rel = c[3]
            if node.node_type == 'Tank':     # TankLevelCondition accepts inequalities only
                rel = {'=': '>=', '<>': '<='}.get(rel, rel)
            return C.ValueCondition(node, attrs[c[2] % len(attrs)], rel, float(c[4]))
        if k == 'link':
            if not nm['links']:
                return C.SimTimeCondition(wn, '>=', 3600)
            link = wn.get_link(nm['links'][c[1] % len(nm['links'])])
            attr = c[2]
            if attr == 'setting' and link.link_type == 'Pipe':
                attr = 'flow'
            if attr == 'status':
                v = c[4] if c[4] in status_val else 'OPEN'
                if v == 'ACTIVE' and link.link_type != 'Valve':
                    v = 'OPEN'
                return C.ValueCondition(link, 'status', '=' if c[3] not in ('=', '<>') else c[3], status_val[v])
            return C.ValueCondition(link, attr, c[3], float(c[4] if not isinstance(c[4], str) else 1.0))
        a, b = cond(c[1]), cond(c[2])
        feats.add('rule.%s' % k)
        if c[1][0] in ('and', 'or') or c[2][0] in ('and', 'or'):
            feats.add('rule.nested')
            if c[1][0] in ('and', 'or') and c[1][0] != k:
                feats.add('rule.nested_left_mixed')
            if c[2][0] in ('and', 'or'):
                feats.add('rule.nested_right')
        return (C.AndCondition if k == 'and' else C.OrCondition)(a, b)

    nrule = 0
    for i, c in enumerate(case.get('ctrls', [])):
        k = c[0]
        cname = 'ctl_%d' % i if style != 2 else 'Ctl-%d' % i
        if k in ('time', 'clock'):
            act = action(c[1])
            if act is None:
                continue
            cd = (C.SimTimeCondition(wn, '=', c[2]) if k == 'time' else C.TimeOfDayCondition(wn, '=', c[2]))
            wn.add_control(cname, C.Control(cd, act, name=cname))
            feats.add('control.%s' % k)
            feats.add('action.%s' % act._attribute)
        elif k == 'cond':
            act = action(c[1])
            cands = tanks + junctions
            if act is None or not cands:
                continue
            node = wn.get_node(cands[c[2] % len(cands)])
            attr = 'level' if node.node_type == 'Tank' else 'pressure'
            wn.add_control(cname, C.Control(C.ValueCondition(node, attr, c[3], float(c[4])), act, name=cname))
            feats.add('control.cond_%s' % attr)
            feats.add('action.%s' % act._attribute)
        elif k == 'condx':
            # a simple Control (not a Rule) whose condition is not one of EPANET's simple-control forms: the head of a
            # reservoir or tank, the pressure of a tank, an attribute of a link (all constructible through the API)
            act = action(c[1])
            form = c[5]
            if act is None:
                continue
            if form == 'link_flow':
                obj, attr = wn.get_link(nm['links'][c[2] % len(nm['links'])]), 'flow'
            else:
                kind_ = 'Reservoir' if form == 'reservoir_head' else 'Tank'
                cands = [n for n in nm['nodes'] if wn.get_node(n).node_type == kind_]
                if not cands:
                    continue
                obj, attr = wn.get_node(cands[c[2] % len(cands)]), ('pressure' if form == 'tank_pressure' else 'head')
            wn.add_control(cname, C.Control(C.ValueCondition(obj, attr, c[3], float(c[4])), act, name=cname))
            feats.add('control.cond_not_epanet_form:%s' % form)
            feats.add('action.%s' % act._attribute)
        elif k == 'rule':
            then = [a for a in (action(x) for x in c[2]) if a is not None]
            els = [a for a in (action(x) for x in c[3]) if a is not None]
            if not then:
                continue
            rname = _nm(style, 'rule', nrule)
            nrule += 1
            wn.add_control(rname, C.Rule(cond(c[1]), then, els or None, priority=c[4], name=rname))
            if info is not None:
                info.setdefault('rules', {})[rname] = c[1]
            feats.add('rule')
            for a in then + els:
                feats.add('action.%s' % a._attribute)
            if els:
                feats.add('rule.else')
            if len(then) > 1 or len(els) > 1:
                feats.add('rule.multi_action')
            if c[4] != 3:
                feats.add('rule.priority')
    return wn, feats


# --------------------------------------------------------------------------------------------------------------
# oracle
def _json(d):
    return json.loads(json.dumps(d))


def _norm(x, key=None):
    """the statement's normalisations that act on single values: '' == None for pattern names (tuples have already
    become lists through JSON)"""
    if isinstance(x, dict):
        return {k: _norm(v, k) for k, v in x.items()}
    if isinstance(x, list):
        return [_norm(v, None) for v in x]
    if key in PAT_KEYS and x == '':
        return None
    return x


def _lost(new):
    return new is None or new is False or new == [] or new == {} or new == '' or \
        (isinstance(new, (int, float)) and new == 0)


def _dv(old, new, what, out, had=True, has=True):
    if not has:
        out.append(('lost/' + what, 'key missing after the round trip, was %r' % (old,)))
    elif not had:
        out.append(('extra/' + what, 'key appeared: %r' % (new,)))
    else:
        out.append((('lost/' if _lost(new) else 'changed/') + what, '%r -> %r' % (old, new)))


def _cmp_fields(e0, e1, kind, out, skip=()):
    for k in sorted(set(e0) | set(e1)):
        if k in skip:
            continue
        if k not in e1 or k not in e0:
            _dv(e0.get(k), e1.get(k), '%s.%s' % (kind, k), out, k in e0, k in e1)
            continue
        a, b = e0[k], e1[k]
        if a == b:
            continue
        if isinstance(a, list) and isinstance(b, list) and a and b and all(isinstance(x, dict) for x in a + b):
            if len(a) != len(b):
                out.append(('changed/%s.%s.len' % (kind, k), '%r -> %r' % (a, b)))
            else:
                for x, y in zip(a, b):
                    _cmp_fields(x, y, '%s.%s' % (kind, k), out)
        else:
            _dv(a, b, '%s.%s' % (kind, k), out)


def _cmp_named(l0, l1, section, kindfn, out):
    n0 = [e.get('name') for e in l0]
    n1 = [e.get('name') for e in l1]
    by1 = {e.get('name'): e for e in l1}
    for e in l0:
        if e.get('name') not in by1:
            out.append(('missing/%s' % kindfn(e), '%s %r is not in the re-created model' % (section, e.get('name'))))
    for e in l1:
        if e.get('name') not in n0:
            out.append(('extra/%s' % kindfn(e), '%s %r appeared in the re-created model' % (section, e.get('name'))))
    if sorted(map(str, n0)) == sorted(map(str, n1)) and n0 != n1:
        out.append(('order/%s' % section, '%r -> %r' % (n0, n1)))
    for e0 in l0:
        e1 = by1.get(e0.get('name'))
        if e1 is None:
            continue
        kind = kindfn(e0)
        skip = ()
        if kind == 'junction' and e0.get('demand_timeseries_list') == []:
            # third normalisation of the statement: returns with one zero demand
            dl = e1.get('demand_timeseries_list')
            if dl != [] and not (isinstance(dl, list) and len(dl) == 1 and dl[0].get('base_val') == 0):
                out.append(('changed/junction.no_demand', 'empty demand list came back as %r' % (dl,)))
            skip = ('demand_timeseries_list', 'demand_pattern', 'base_demand', 'demand_category')
        _cmp_fields(e0, e1, kind, out, skip)


def _grouping_kind(tree):
    """Classifies what a flat, left-to-right reading of the rule text does to the condition tree of the spec.
    The flat reading is modelled here independently: walk the clauses in order, AND starts a new group, OR joins
    the previous group, all groups are ANDed.  Leaves are independent boolean variables."""
    if tree is None:
        return 'unclassified'
    seq = []

    def walk(t):
        if t[0] in ('and', 'or'):
            walk(t[1])
            seq.append(t[0])
            walk(t[2])
        else:
            seq.append(len([x for x in seq if isinstance(x, int)]))
    walk(tree)
    nleaf = (len(seq) + 1) // 2

    def ev(t, bits, counter):
        if t[0] in ('and', 'or'):
            a = ev(t[1], bits, counter)
            b = ev(t[2], bits, counter)
            return (a and b) if t[0] == 'and' else (a or b)
        counter[0] += 1
        return bits[counter[0] - 1]

    for m in range(2 ** nleaf):
        bits = [bool(m >> i & 1) for i in range(nleaf)]
        groups = [bits[0]]
        for k in range(1, len(seq), 2):
            if seq[k] == 'and':
                groups.append(bits[seq[k + 1]])
            else:
                groups[-1] = groups[-1] or bits[seq[k + 1]]
        if all(groups) != ev(tree, bits, [0]):
            return 'logic_changed'
    return 'equivalent'


def compare(d0, d1, rules=None):
    """d0: dictionary of the original, d1: of the re-created model (both JSON-normalised) -> [(bucket, detail)]"""
    out = []
    d0, d1 = _norm(d0), _norm(d1)
    for k in sorted(set(d0) | set(d1)):
        if k not in d0 or k not in d1:
            _dv(d0.get(k), d1.get(k), 'model.%s' % k, out, k in d0, k in d1)
        elif k == 'nodes':
            _cmp_named(d0[k], d1[k], k, lambda e: str(e.get('node_type')).lower(), out)
        elif k == 'links':
            _cmp_named(d0[k], d1[k], k, lambda e: str(e.get('link_type')).lower(), out)
        elif k in ('curves', 'patterns', 'sources'):
            _cmp_named(d0[k], d1[k], k, lambda e, kk=k[:-1]: kk, out)
        elif k == 'options':
            for sec in sorted(set(d0[k]) | set(d1[k])):
                s0, s1 = d0[k].get(sec), d1[k].get(sec)
                if isinstance(s0, dict) and isinstance(s1, dict):
                    _cmp_fields(s0, s1, 'options.%s' % sec, out)
                elif s0 != s1:
                    _dv(s0, s1, 'options.%s' % sec, out)
        elif k == 'controls':
            c0, c1 = d0[k], d1[k]
            if len(c0) != len(c1):
                out.append(('count/controls', '%d controls -> %d: %r -> %r' % (len(c0), len(c1), c0, c1)))
                continue
            for x, y in zip(c0, c1):
                if x.get('type') != y.get('type'):
                    out.append(('changed/control.type', '%r -> %r' % (x, y)))
                    continue
                kind = 'control.%s' % x.get('type')
                cx, cy = x.get('condition'), y.get('condition')
                if cx != cy and isinstance(cx, str) and isinstance(cy, str) and cx.split() == cy.split():
                    gk = _grouping_kind((rules or {}).get(x.get('name')))
                    # the condition text differs in blanks only, which is how a regrouping of AND/OR shows; a pure
                    # re-association (same truth table) is not held against the round trip
                    if gk != 'equivalent':
                        out.append(('changed/%s.condition.grouping/%s' % (kind, gk),
                                    'AND/OR grouping changed (visible as blanks): %r -> %r' % (cx, cy)))
                    _cmp_fields(x, y, kind, out, skip=('condition',))
                elif cx != cy and isinstance(cx, str) and isinstance(cy, str) and 'CLOCKTIME' in cx and \
                        len(cx.split()) == len(cy.split()) and \
                        all(a == b or {a, b} == {'AM', 'PM'} for a, b in zip(cx.split(), cy.split())):
                    out.append(('changed/%s.condition.clocktime_am_pm' % kind, '%r -> %r' % (cx, cy)))
                    _cmp_fields(x, y, kind, out, skip=('condition',))
                else:
                    _cmp_fields(x, y, kind, out)
        elif d0[k] != d1[k]:
            _dv(d0[k], d1[k], 'model.%s' % k, out)
    return out


def _raise_bucket(exc):
    """exception type + innermost wntr frame + (when different) the wntr function that from_dict called"""
    import traceback
    tb = exc.__traceback__
    while tb is not None:
        if tb.tb_frame.f_code.co_name == '_read_control_line':
            # a simple control that cannot be re-parsed: key = target keyword and kind of value, not the way it fails
            # (which depends on whether a link of the same name happens to exist)
            words = str(tb.tb_frame.f_locals.get('line', '')).split()
            if len(words) >= 3:
                val = words[2].upper()
                kind = 'status' if val in ('OPEN', 'CLOSED', 'ACTIVE') else 'bool' if val in ('TRUE', 'FALSE') \
                    else 'number'
                return 'raises/control_line/%s/%s' % (words[0].upper(), kind)
        tb = tb.tb_next
    frames = []
    for fr in traceback.extract_tb(exc.__traceback__):
        fn = fr.filename.replace('\\', '/')
        if '/wntr/' in fn and '/vlib/' not in fn:
            frames.append((fn.split('/wntr/', 1)[1], fr.name))
    if not frames:
        return 'raises/%s/unknown' % type(exc).__name__
    inner = '%s:%s' % frames[-1]
    via = ''
    names = [f[1] for f in frames]
    if 'from_dict' in names:
        k = len(names) - 1 - names[::-1].index('from_dict')
        if k + 1 < len(frames) - 1:
            via = '<%s' % frames[k + 1][1]
    return 'raises/%s/%s%s' % (type(exc).__name__, inner, via)


def _roundtrips(wn, d0j):
    """yields (path name, callable returning the re-created model)"""
    import wntr
    yield 'json', lambda: wntr.network.from_dict(copy.deepcopy(d0j))
    yield 'direct', lambda: wntr.network.from_dict(wntr.network.to_dict(wn))

    def through_file():
        path = os.path.join(os.getcwd(), 'c13_model_%d.json' % os.getpid())
        try:
            wntr.network.write_json(wn, path)
            return wntr.network.read_json(path)
        finally:
            if os.path.exists(path):
                os.remove(path)
    yield 'file', through_file

    def through_buffer():
        buf = _io.StringIO()
        wntr.network.write_json(wn, buf)
        buf.seek(0)
        return wntr.network.read_json(buf)
    yield 'buffer', through_buffer


def _inp_files(tier):
    """relative names of the INP files shipped with the tree under test (tests) and with /repo (examples)"""
    from .. import envsetup
    out = []
    for base, sub in ((envsetup.REPO, 'wntr/tests/networks_for_testing'), (envsetup.REPO, 'examples/networks'),
                      ('/repo', 'examples/networks')):
        d = os.path.join(base, sub)
        if not os.path.isdir(d):
            continue
        for f in sorted(os.listdir(d)):
            if f.endswith('.inp') and not f.startswith('bad_') and (tier == 'thorough' or not f.startswith('Net6')):
                if not any(o.endswith('/' + f) for o in out):
                    out.append(sub + '/' + f)
    return out


def _model_of(case):
    """-> (model under test, feature tags, {rule name: spec condition tree})"""
    import wntr
    from .. import envsetup
    if 'inpfile' in case:
        path = os.path.join(envsetup.REPO, case['inpfile'])
        if not os.path.exists(path):
            path = os.path.join('/repo', case['inpfile'])
        wn = wntr.network.read_inpfile(path)
        feats = {'inpfile'}
        feats.update('inpfile.%s' % k for k, n in (('controls', len(wn._controls)), ('sources', len(wn._sources)),
                                                    ('curves', wn.num_curves), ('patterns', wn.num_patterns)) if n)
        if any(l.vertices for _, l in wn.links()):
            feats.add('inpfile.vertices')
        return wn, feats, {}
    info = {}
    wn, feats = build(case, info)
    if case.get('via_inp'):
        # the model under test is what the INP reader makes of the generated model ("readable from an INP file")
        path = os.path.join(os.getcwd(), 'c13_model_%d.inp' % os.getpid())
        try:
            wntr.network.write_inpfile(wn, path)
            wn2 = wntr.network.read_inpfile(path)
            wn, feats = wn2, set(feats) | {'via_inp'}
        except Exception:
            wn, feats = build(case)     # the INP writer/reader refused this model: check the API model itself
            feats.add('via_inp_refused')
        finally:
            if os.path.exists(path):
                os.remove(path)
    return wn, feats, info.get('rules', {})


def check(case):
    import wntr
    wn, feats, rules = _model_of(case)
    tags = sorted(feats)
    found = []          # (bucket, detail) in discovery order
    seen = set()

    def add(bucket, detail, prefix=''):
        base = bucket
        if base in seen:
            return
        seen.add(base)
        found.append((prefix + bucket, detail))

    if case.get('simulated_before'):
        # history: the model has been simulated (and not reset) before it is serialised; run-time state must neither leak
        # into the dictionary nor break the round trip.  Whether the run converges or raises is irrelevant here.
        tags = sorted(set(tags) | {'history:simulated_before'})
        try:
            import warnings as _w
            wn.options.time.duration = min(int(wn.options.time.duration), 2 * int(wn.options.time.hydraulic_timestep))
            with _w.catch_warnings():
                _w.simplefilter('ignore')
                wntr.sim.WNTRSimulator(wn).run_sim(solver_options={'MAXITER': 200})
            tags = sorted(set(tags) | {'history:simulation_completed'})
        except CaseTimeout:
            raise
        except Exception:
            pass
    try:
        d0 = wntr.network.to_dict(wn)
    except Exception as e:
        return fail(_raise_bucket(e).replace('raises/', 'raises/to_dict/', 1), 'to_dict raised %r' % e, tags)
    try:
        text = json.dumps(d0)
        d0j = json.loads(text)
    except Exception as e:
        return fail('raises/json.dumps/%s' % type(e).__name__, 'json.dumps(to_dict(wn)) raised %r' % e, tags)
    if _json(wntr.network.to_dict(wn)) != d0j:
        add('to_dict/not_repeatable', 'two calls of to_dict on the same model differ')

    dj = None
    for pname, fn in _roundtrips(wn, d0j):
        # a path prefix is only used when the plain JSON path completed, i.e. when the difference is known to be
        # specific to the other path; otherwise the same root cause keeps its plain bucket
        prefix = '' if (pname == 'json' or dj is None) else pname + ':'
        try:
            wn2 = fn()
            d2 = _json(wntr.network.to_dict(wn2))
        except Exception as e:
            add(_raise_bucket(e), '%s round trip raised %r' % (pname, e), prefix)
            continue
        if pname == 'json':
            dj = d2
        for b, det in compare(d0j, d2, rules):
            add(b, '%s round trip: %s' % (pname, det), prefix)

    # appending to an empty model == creating from the dictionary
    if dj is not None:
        def app1():
            return wntr.network.from_dict(copy.deepcopy(d0j), append=wntr.network.WaterNetworkModel())

        def app2():
            m = wntr.network.WaterNetworkModel()
            m.from_dict(copy.deepcopy(d0j))
            return m
        def app3():
            path = os.path.join(os.getcwd(), 'c13_model_%d.json' % os.getpid())
            m = wntr.network.WaterNetworkModel()
            try:
                wntr.network.write_json(wn, path)
                wntr.network.read_json(path, append=m)
                return m
            finally:
                if os.path.exists(path):
                    os.remove(path)
        for pname, fn in (('append', app1), ('append_method', app2), ('append_read_json', app3)):
            try:
                d3 = _json(wntr.network.to_dict(fn()))
            except Exception as e:
                found.append(('%s:%s' % (pname, _raise_bucket(e)), '%s raised %r' % (pname, e)))
                continue
            if d3 != dj:
                diffs = compare(dj, d3)
                found.append(('%s:differs' % pname, 'appending to an empty model differs from from_dict(d): %r'
                              % (diffs[:4],)))

    nontrivial = bool([t for t in tags if not t.startswith('names:')]) and len(text) > 0
    forms = sorted(t.split(':', 1)[1] for t in tags if t.startswith('control.cond_not_epanet_form:'))
    if found and forms:
        # one root cause (recorded open finding): a simple Control is serialised as an EPANET control line, which can
        # only say 'NODE <junction or tank> ABOVE/BELOW x'; any other condition is lost (from_dict raises or reads
        # another attribute).  Raises and differences inside the controls of such a case are filed under that root
        # cause; every other bucket of the case keeps its name.
        def rc(b):
            base = b.split(':', 1)[1] if (':' in b and not b.startswith(('raises', 'changed', 'lost'))) else b
            if 'raises' in base or 'control' in base or b.endswith(':differs'):
                return 'control_condition_not_epanet_form/' + forms[0]
            return b
        found = [(rc(b), det) for b, det in found]
    if found:
        # exceptions first; the regrouping bucket (a recorded open finding) last so that it never masks another bucket
        found.sort(key=lambda bd: (2 if ('condition.grouping' in bd[0] or bd[0].startswith('control_condition_not_epanet_form')) else
                                   0 if '/raises' in bd[0] or bd[0].startswith('raises') else 1, bd[0]))
        bucket, detail = found[0]
        more = [b for b, _ in found[1:]]
        return fail(bucket, detail + (' | other buckets in this case: %s' % more if more else ''),
                    tags + ['diff:' + b for b, _ in found], nontrivial)
    return passed(nontrivial, tags)


# --------------------------------------------------------------------------------------------------------------
# enumerated single-feature models
def _base():
    return {
        'style': 0, 'name': None, 'opts': [],
        'pats': [{'m': [1.0, 1.2, 0.8], 'wrap': True}, {'m': [0.5, 1.5], 'wrap': True}],
        'curves': [{'k': 'HEAD', 'pts': [[0.0, 40.0], [0.02, 30.0], [0.04, 10.0]]},
                   {'k': 'VOLUME', 'pts': [[0.0, 0.0], [10.0, 300.0], [80.0, 3000.0]]},
                   {'k': 'EFFICIENCY', 'pts': [[0.0, 50.0], [0.02, 75.0], [0.04, 60.0]]},
                   {'k': 'HEADLOSS', 'pts': [[0.0, 0.0], [0.02, 1.5], [0.04, 5.0]]}],
        'nodes': [
            {'k': 'J', 'elev': 10.0, 'xy': [1.0, 2.0], 'dem': [[0.01, None, None]]},
            {'k': 'J', 'elev': 12.5, 'xy': [3.0, 2.5], 'dem': [[0.02, None, None]]},
            {'k': 'J', 'elev': 8.0, 'xy': [5.0, 1.0], 'dem': [[0.0, None, None]]},
            {'k': 'T', 'elev': 40.0, 'xy': [6.0, 6.0], 'lv': [1.0, 0.5, 6.0], 'diam': 12.0},
            {'k': 'R', 'head': 5.0, 'xy': [0.0, 0.0]},
        ],
        'links': [
            {'k': 'pipe', 'a': 0, 'b': 0, 'len': 120.0, 'diam': 0.3, 'rough': 100.0},
            {'k': 'pipe', 'a': 2, 'b': 0, 'len': 250.5, 'diam': 0.25, 'rough': 120.0},
            {'k': 'pump', 'a': 4, 'b': 0, 'head': True, 'curve': 0},
            {'k': 'pump', 'a': 4, 'b': 1, 'head': False, 'power': 7500.0},
            {'k': 'valve', 'a': 1, 'b': 0, 'vt': 'PRV', 'diam': 0.2, 'set': 25.0},
        ],
        'sources': [], 'ctrls': [],
    }


def _with(fn):
    c = _base()
    fn(c)
    return c


def _set(path, val):
    def f(c):
        o = c
        for p in path[:-1]:
            o = o[p]
        o[path[-1]] = val
    return f


def enumerate_cases(tier):
    for f in _inp_files(tier):
        yield {'inpfile': f}
    yield _base()
    yield dict(_base(), via_inp=True)
    yield dict(_base(), simulated_before=True)
    for lk in ([0.001, 0.75, None, None], [0.002, 0.6, 0, None], [0.002, 0.6, 3600, 7200]):
        yield dict(_with(_set(('nodes', 0, 'leak'), lk)), simulated_before=True)
        yield dict(_with(_set(('nodes', 3, 'leak'), lk)), simulated_before=True)
    J, T, R, P, HP, PP, V = ('nodes', 0), ('nodes', 3), ('nodes', 4), ('links', 0), ('links', 2), ('links', 3), \
        ('links', 4)
    singles = [
        _set(('name',), 'Model one'), _set(('style',), 1), _set(('style',), 2),
        _set(('pats', 0, 'wrap'), False), _set(('pats', 1), {'m': [1.0, 0.0, 2.0], 'wrap': True, 'via_setter': True}),
        _set(J + ('dem',), []), _set(J + ('dem',), [[0.01, 0, 'dom'], [0.002, 1, None], [0.0, None, 'ind']]),
        _set(J + ('dem',), [[0.01, None, 'single_cat']]), _set(J + ('dem',), [[0.0, 1, None]]),
        _set(J + ('emit',), 0.003), _set(J + ('iq',), 0.5), _set(J + ('pmin',), 3.0), _set(J + ('preq',), 21.5),
        _set(J + ('pexp',), 0.6), _set(J + ('tag',), 'zone A'), _set(J + ('custom',), 17.25),
        _set(J + ('leak',), [0.001, 0.75, None, None]), _set(J + ('leak',), [0.002, 0.6, 3600, 7200]),
        _set(J + ('leak',), [0.002, 0.6, 1800, None]), _set(J + ('fire',), [0.06, 3600, 7200]),
        _set(J + ('xy',), None),
        _set(T + ('vc',), 0), _set(T + ('ovf',), True), _set(T + ('minvol',), 12.5), _set(T + ('mix',), '2COMP'),
        _set(T + ('mix',), 'FIFO'), _set(T + ('frac',), 0.25), _set(T + ('frac',), 0.0), _set(T + ('bulk',), -1e-6), _set(T + ('iq',), 1.25),
        _set(T + ('tag',), 'tank-tag'), _set(T + ('custom',), 'x'), _set(T + ('leak',), [0.003, 0.7, None, None]),
        _set(T + ('leak',), [0.003, 0.7, 3600, 7200]), _set(T + ('leak',), [0.003, 0.7, None, 5400]),
        _set(R + ('pat',), 0), _set(R + ('iq',), 2.0), _set(R + ('tag',), 'src'), _set(R + ('custom',), [1, 2]),
        _set(P + ('cv',), True), _set(P + ('st',), 'CLOSED'), _set(P + ('minor',), 0.4), _set(P + ('bulk',), -2e-6),
        _set(P + ('wall',), -1e-5), _set(P + ('vx',), [[1.5, 2.5]]), _set(P + ('vx',), [[1.5, 2.5], [2, 3], [2.5, 2.0]]),
        _set(P + ('tag',), 'main'), _set(P + ('iq',), 0.75), _set(P + ('custom',), 1998),
        _set(HP + ('speed',), 1.2), _set(HP + ('pat',), 1), _set(HP + ('st',), 'CLOSED'), _set(HP + ('eff',), 0),
        _set(HP + ('price',), 0.12), _set(HP + ('epat',), 0), _set(HP + ('vx',), [[0.5, 0.5]]),
        _set(HP + ('tag',), 'ps1'), _set(HP + ('iq',), 0.3), _set(HP + ('iset',), 0.9),
        _set(HP + ('outage',), [3600, 7200, 6, True]), _set(PP + ('outage',), [3600, None, 5, False]),
        _set(PP + ('speed',), 0.8), _set(PP + ('vx',), [[0.5, 1.5]]), _set(PP + ('eff',), 0),
        _set(V + ('st',), 'OPEN'), _set(V + ('st',), 'CLOSED'), _set(V + ('minor',), 0.2),
        _set(V + ('vx',), [[4.0, 2.0]]), _set(V + ('tag',), 'prv-1'), _set(V + ('iq',), 0.6),
        _set(V + ('custom',), 3),
    ]
    for f in singles:
        yield _with(f)
    for vt in VALVE_TYPES:
        yield _with(_set(V + ('vt',), vt))
    for i, ty in enumerate(SOURCE_TYPES):
        yield _with(_set(('sources',), [{'node': i, 'type': ty, 'q': 1.5, 'pat': (0 if i % 2 else None)}]))
    act = {'st': [2, 'status', 'CLOSED'], 'open': [0, 'status', 'OPEN'], 'set': [0, 'setting', 30.5],
           'speed': [0, 'speed', 0.75], 'active': [4, 'status', 'ACTIVE']}
    ctrls = [
        ['time', act['st'], 3600], ['time', act['set'], 5400], ['time', act['speed'], 90000],
        ['time', act['active'], 0], ['clock', act['open'], 6 * 3600], ['clock', act['st'], 13 * 3600 + 1800],
        ['clock', act['st'], 0], ['clock', act['st'], 12 * 3600],
        ['cond', act['st'], 0, '>', 5.5], ['cond', act['open'], 0, '<', 2.25], ['cond', act['set'], 1, '<', 20.0],
        ['cond', act['speed'], 2, '>', 35.0],
        ['rule', ['node', 3, 0, '>=', 5.0], [act['st']], [], 3],
        ['rule', ['node', 3, 0, '<', 2.0], [act['open']], [act['st']], 3],
        ['rule', ['node', 3, 0, '<=', 2.0], [act['open'], act['speed']], [act['st'], act['set']], 5],
        ['rule', ['and', ['time', '>=', 3600], ['time', '<', 7200]], [act['st']], [], 1],
        ['rule', ['or', ['clock', '>', 6 * 3600], ['node', 0, 0, '<', 15.0]], [act['open']], [], 3],
        ['rule', ['and', ['and', ['time', '>', 60], ['node', 1, 1, '>', 1.0]], ['link', 0, 'flow', '<', 0.01]],
         [act['st']], [], 3],
        ['rule', ['or', ['and', ['time', '>', 60], ['node', 1, 1, '>', 1.0]], ['link', 0, 'flow', '<', 0.01]],
         [act['st']], [], 3],
        ['rule', ['and', ['time', '>', 60], ['or', ['node', 1, 1, '>', 1.0], ['link', 0, 'flow', '<', 0.01]]],
         [act['st']], [], 3],
        ['rule', ['or', ['time', '>', 60], ['and', ['node', 1, 1, '>', 1.0], ['link', 0, 'flow', '<', 0.01]]],
         [act['st']], [], 3],
        ['rule', ['and', ['time', '>', 60], ['and', ['node', 1, 1, '>', 1.0], ['link', 0, 'flow', '<', 0.01]]],
         [act['st']], [], 3],
        ['rule', ['or', ['time', '>', 60], ['or', ['node', 1, 1, '>', 1.0], ['link', 0, 'flow', '<', 0.01]]],
         [act['st']], [], 3],
        ['rule', ['clock', '<', 1800], [act['st']], [], 3], ['rule', ['clock', '>', 12 * 3600 + 60], [act['st']], [], 3],
        ['rule', ['link', 2, 'status', '=', 'OPEN'], [act['set']], [], 0],
        ['rule', ['link', 4, 'setting', '<>', 20.0], [act['active']], [], 6],
        ['rule', ['node', 4, 0, '=', 5.0], [act['speed']], [], 2],
    ]
    for ct in ctrls:
        yield _with(_set(('ctrls',), [ct]))
    yield _with(_set(('ctrls',), ctrls))
    for key in OPTION_KEYS:
        for val in OPTION_VALUES[key]:
            yield _with(_set(('opts',), [[key[0], key[1], val]]))
    # everything at once
    c = _base()
    for f in singles[3:]:
        try:
            f(c)
        except Exception:
            pass
    c['nodes'][0]['dem'] = [[0.01, 0, 'dom'], [0.002, 1, None]]
    c['sources'] = [{'node': i, 'type': ty, 'q': 1.5, 'pat': i} for i, ty in enumerate(SOURCE_TYPES)]
    c['ctrls'] = ctrls
    c['opts'] = [[k[0], k[1], OPTION_VALUES[k][0]] for k in OPTION_KEYS]
    yield c


# --------------------------------------------------------------------------------------------------------------
# strategy
def _f(lo, hi, nice):
    return st.one_of(st.sampled_from(nice),
                     st.floats(min_value=lo, max_value=hi, allow_nan=False, allow_infinity=False,
                               allow_subnormal=False))


_coord = st.one_of(st.sampled_from([0.0, 1.5, -3.25, 100.0, 7, 1e6 + 0.1]),
                   st.floats(min_value=-1e7, max_value=1e7, allow_nan=False, allow_subnormal=False))
_xy = st.lists(_coord, min_size=2, max_size=2)
_tag = st.sampled_from(['A', 'zone 1', 'x-y_z', 'Ünïcode', '17', ''])
_custom = st.sampled_from([1, 2.5, 'text', [1, 2], {'k': 'v'}, True])
_time = st.one_of(st.sampled_from([0, 60, 3600, 5400, 43200, 86400, 90000, 360000, 1800.5]),
                  st.integers(0, 400000))
_clock = st.one_of(st.sampled_from([0, 1, 3600, 43199, 43200, 46800, 86399]), st.integers(0, 86399))
_rel6 = st.sampled_from(['>', '<', '>=', '<=', '=', '<>'])


@st.composite
def strategy(draw, tier='quick'):
    rich = draw(st.sampled_from([False, False, True]))
    if rich:
        mask = set(FEATURES)
    else:
        mask = set(draw(st.lists(st.sampled_from(FEATURES), min_size=0, max_size=4)))

    def opt(feature, strat, default=None):
        if feature in mask and draw(st.booleans()):
            return draw(strat)
        return default

    big = tier == 'thorough'
    case = {'style': opt('names', st.sampled_from([1, 2]), 0),
            'name': opt('model.name', st.sampled_from(['net', 'My model', ''])), 'opts': []}
    secs = [s for s in SECTIONS if 'options.' + s in mask]
    if secs:
        keys = [k for k in OPTION_KEYS if k[0] in secs]
        chosen = draw(st.lists(st.sampled_from(keys), min_size=0, max_size=8, unique=True))
        case['opts'] = [[k[0], k[1], draw(st.sampled_from(OPTION_VALUES[k]))] for k in chosen]

    case['pats'] = draw(st.lists(st.fixed_dictionaries({
        'm': st.lists(_f(0.0, 10.0, [0.0, 1.0, 0.5, 2.0, 1e-3]), min_size=0, max_size=5),
        'wrap': st.just(True) if 'pattern.wrap' not in mask else st.booleans()}), min_size=0, max_size=3))
    for p in case['pats']:
        if draw(st.integers(0, 4)) == 0:
            p['via_setter'] = True
            if draw(st.booleans()):
                p['m'] = [float(round(v)) for v in p['m']]
    curves = []
    for k in draw(st.lists(st.sampled_from(CURVE_KINDS), min_size=0, max_size=5)):
        n = draw(st.integers(1, 4))
        if k == 'VOLUME':
            xs = [0.0] + sorted(draw(st.lists(_f(0.1, 59.0, [5.0, 10.0]), min_size=n - 1, max_size=n - 1))) + [60.0]
        else:
            xs = sorted(draw(st.lists(_f(0.0, 1.0, [0.0, 0.01, 0.05]), min_size=n, max_size=n)))
        curves.append({'k': k, 'pts': [[x, draw(_f(0.0, 1000.0, [0.0, 10.0, 50.0, 75.5]))] for x in xs]})
    case['curves'] = curves

    pref = st.one_of(st.none(), st.integers(0, 3))
    nodes = []
    nj = draw(st.integers(2, 6 if big else 4))
    for _ in range(nj):
        dem = [[0.0, None, None]]
        if 'junction.demands' in mask:
            dem = draw(st.lists(st.tuples(_f(-1.0, 1.0, [0.0, 0.01, 0.5]), st.none(), st.none()).map(list),
                                min_size=0, max_size=3))
        else:
            dem = [[draw(_f(-1.0, 1.0, [0.0, 0.01, 0.5])), None, None]]
        for d in dem:
            d[1] = opt('junction.pattern', st.integers(0, 3))
            d[2] = opt('junction.category', st.sampled_from(['dom', 'Ind 2', 'x']))
        j = {'k': 'J', 'elev': draw(_f(-100.0, 3000.0, [0.0, 10.0, 250.5, 100])),
             'xy': draw(_xy) if 'junction.coordinates' not in mask else opt('junction.coordinates', _xy),
             'dem': dem}
        for k, feat, s_ in (('emit', 'junction.emitter', _f(0.0, 1.0, [0.001, 0.0])),
                            ('iq', 'junction.initial_quality', _f(0.0, 100.0, [0.5, 1, 0.0])),
                            ('pmin', 'junction.pdd', _f(0.0, 10.0, [0.0, 3.5])),
                            ('preq', 'junction.pdd', _f(10.0, 50.0, [14.06, 20])),
                            ('pexp', 'junction.pdd', _f(0.1, 2.0, [0.5, 1.0])),
                            ('tag', 'junction.tag', _tag), ('custom', 'junction.custom', _custom)):
            v = opt(feat, s_)
            if v is not None:
                j[k] = v
        lk = None
        if 'junction.leak' in mask and draw(st.booleans()):
            lk = [draw(_f(1e-6, 0.1, [0.001, 0.01])), draw(_f(0.0, 1.0, [0.75, 0.6])), None, None]
        if 'junction.leak_timed' in mask and draw(st.booleans()):
            lk = [draw(_f(1e-6, 0.1, [0.001, 0.01])), draw(_f(0.0, 1.0, [0.75, 0.6])),
                  draw(st.one_of(st.none(), _time)), draw(st.one_of(st.none(), _time))]
        if lk:
            j['leak'] = lk
        fr = opt('junction.fire', st.tuples(_f(0.0, 1.0, [0.05]), st.sampled_from([0, 3600, 7200]),
                                            st.sampled_from([3600, 10800, 86400, 5400])).map(list))
        if fr:
            j['fire'] = fr
        nodes.append(j)
    for _ in range(draw(st.integers(0, 2))):
        t = {'k': 'T', 'elev': draw(_f(0.0, 500.0, [0.0, 50.0])), 'xy': draw(_xy),
             'lv': [draw(_f(0.0, 20.0, [0.0, 1.0])), draw(_f(0.0, 1.0, [0.0, 0.5, 1.0])),
                    draw(_f(0.0, 30.0, [0.0, 5.0, 10.0]))],
             'diam': draw(_f(0.1, 100.0, [10.0, 15.24, 20]))}
        for k, feat, s_ in (('vc', 'tank.vol_curve', st.integers(0, 2)), ('ovf', 'tank.overflow', st.just(True)),
                            ('minvol', 'tank.min_vol', _f(0.0, 1000.0, [10.0])),
                            ('mix', 'tank.mixing', st.sampled_from(['MIXED', '2COMP', 'FIFO', 'LIFO'])),
                            ('frac', 'tank.mixing', _f(0.0, 1.0, [0.5])),
                            ('bulk', 'tank.bulk_coeff', _f(-1e-3, 1e-3, [-1e-6, 0.0])),
                            ('iq', 'tank.initial_quality', _f(0.0, 100.0, [0.5, 1])),
                            ('tag', 'tank.tag', _tag), ('custom', 'tank.custom', _custom)):
            v = opt(feat, s_)
            if v is not None:
                t[k] = v
        lk = None
        if 'tank.leak' in mask and draw(st.booleans()):
            lk = [draw(_f(1e-6, 0.1, [0.001])), draw(_f(0.0, 1.0, [0.75])), None, None]
        if 'tank.leak_timed' in mask and draw(st.booleans()):
            lk = [draw(_f(1e-6, 0.1, [0.001])), draw(_f(0.0, 1.0, [0.75])),
                  draw(st.one_of(st.none(), _time)), draw(st.one_of(st.none(), _time))]
        if lk:
            t['leak'] = lk
        nodes.append(t)
    for _ in range(draw(st.integers(0, 2))):
        r_ = {'k': 'R', 'head': draw(_f(-10.0, 500.0, [0.0, 30.0, 100])), 'xy': draw(_xy)}
        for k, feat, s_ in (('pat', 'reservoir.head_pattern', st.integers(0, 3)),
                            ('iq', 'reservoir.initial_quality', _f(0.0, 100.0, [1.0])),
                            ('tag', 'reservoir.tag', _tag), ('custom', 'reservoir.custom', _custom)):
            v = opt(feat, s_)
            if v is not None:
                r_[k] = v
        nodes.append(r_)
    case['nodes'] = nodes

    vxs = st.lists(_xy, min_size=1, max_size=3)
    links = []
    ends = st.integers(0, 11)
    for kind in draw(st.lists(st.sampled_from(['pipe', 'pipe', 'pump', 'valve']), min_size=0, max_size=8 if big else 5)):
        l_ = {'k': kind, 'a': draw(ends), 'b': draw(ends)}
        if kind == 'pipe':
            l_.update(len=draw(_f(0.1, 1e4, [100.0, 304.8, 1000])), diam=draw(_f(0.01, 3.0, [0.3, 0.3048, 1])),
                      rough=draw(_f(0.001, 200.0, [100.0, 130, 0.26])))
            table = (('cv', 'pipe.check_valve', st.just(True)), ('st', 'pipe.status', st.just('CLOSED')),
                     ('minor', 'pipe.minor_loss', _f(0.0, 100.0, [0.5])),
                     ('bulk', 'pipe.bulk_coeff', _f(-1e-3, 1e-3, [-1e-6])),
                     ('wall', 'pipe.wall_coeff', _f(-1e-3, 1e-3, [-1e-5])), ('vx', 'pipe.vertices', vxs),
                     ('tag', 'pipe.tag', _tag), ('iq', 'pipe.initial_quality', _f(0.0, 100.0, [0.5, 2])),
                     ('custom', 'pipe.custom', _custom))
        elif kind == 'pump':
            l_.update(head=draw(st.booleans()), curve=draw(st.integers(0, 2)),
                      power=draw(_f(1.0, 1e6, [50.0, 7457.0, 1000])))
            table = (('speed', 'pump.speed', _f(0.0, 3.0, [0.5, 1.2, 2])), ('pat', 'pump.speed_pattern', st.integers(0, 3)),
                     ('st', 'pump.status', st.just('CLOSED')), ('eff', 'pump.efficiency', st.integers(0, 2)),
                     ('price', 'pump.energy_price', _f(0.0, 10.0, [0.1])),
                     ('epat', 'pump.energy_pattern', st.integers(0, 3)), ('vx', 'pump.vertices', vxs),
                     ('tag', 'pump.tag', _tag), ('iq', 'pump.initial_quality', _f(0.0, 100.0, [0.5])),
                     ('iset', 'pump.initial_setting', _f(0.0, 2.0, [1.0, 0.8])),
                     ('outage', 'pump.outage', st.tuples(st.sampled_from([0, 3600, 5400]),
                                                         st.sampled_from([None, 7200, 86400]),
                                                         st.integers(0, 6), st.booleans()).map(list)),
                     ('custom', 'pump.custom', _custom))
        else:
            l_.update(vt=draw(st.sampled_from(VALVE_TYPES)), diam=draw(_f(0.01, 3.0, [0.3, 0.2])),
                      set=draw(_f(0.0, 200.0, [0.0, 20.0, 35.5, 50])), curve=draw(st.integers(0, 2)))
            table = (('st', 'valve.status', st.sampled_from(['OPEN', 'CLOSED'])),
                     ('minor', 'valve.minor_loss', _f(0.0, 100.0, [0.5])), ('vx', 'valve.vertices', vxs),
                     ('tag', 'valve.tag', _tag), ('iq', 'valve.initial_quality', _f(0.0, 100.0, [0.5])),
                     ('custom', 'valve.custom', _custom))
        for k, feat, s_ in table:
            v = opt(feat, s_)
            if v is not None:
                l_[k] = v
        links.append(l_)
    case['links'] = links

    case['sources'] = []
    if 'source' in mask:
        case['sources'] = draw(st.lists(st.fixed_dictionaries({
            'node': st.integers(0, 9), 'type': st.sampled_from(SOURCE_TYPES),
            'q': _f(0.0, 1e4, [1.0, 0.5, 100]), 'pat': pref}), min_size=0, max_size=2))

    sval = st.sampled_from(['OPEN', 'CLOSED', 'ACTIVE'])
    act = st.one_of(st.tuples(st.integers(0, 9), st.just('status'), sval),
                    st.tuples(st.integers(0, 9), st.just('setting'), _f(0.0, 200.0, [0.0, 30.0, 45.5])),
                    st.tuples(st.integers(0, 9), st.just('speed'), _f(0.0, 3.0, [0.0, 0.5, 1.0, 1.25]))).map(list)
    thr = _f(-10.0, 500.0, [0.0, 2.5, 5.0, 20.0, 1e-3])
    leaf = st.one_of(
        st.tuples(st.just('time'), st.sampled_from(['=', '>', '<', '>=', '<=']), _time),
        st.tuples(st.just('clock'), st.sampled_from(['=', '>', '<']), _clock),
        st.tuples(st.just('node'), st.integers(0, 9), st.integers(0, 2), _rel6, thr),
        st.tuples(st.just('link'), st.integers(0, 9), st.sampled_from(['flow', 'status', 'setting']),
                  _rel6, st.one_of(thr, sval)),
    ).map(list)
    ao = st.sampled_from(['and', 'or'])
    kinds = [k for k, f_ in (('time', 'control.time'), ('clock', 'control.clock'), ('cond', 'control.cond'),
                             ('rule', 'rule')) if f_ in mask]
    ctrls = []
    if kinds and links:
        for k in draw(st.lists(st.sampled_from(kinds), min_size=0, max_size=4)):
            if k == 'time':
                ctrls.append(['time', draw(act), draw(_time)])
            elif k == 'clock':
                ctrls.append(['clock', draw(act), draw(_clock)])
            elif k == 'cond' and draw(st.integers(0, 3)) == 0:
                ctrls.append(['condx', draw(act), draw(st.integers(0, 9)), draw(st.sampled_from(['>', '<'])), draw(thr),
                              draw(st.sampled_from(['reservoir_head', 'tank_head', 'tank_pressure', 'link_flow']))])
            elif k == 'cond':
                ctrls.append(['cond', draw(act), draw(st.integers(0, 9)), draw(st.sampled_from(['>', '<'])),
                              draw(thr)])
            else:
                c = draw(leaf)
                if 'rule.andor' in mask or 'rule.nested' in mask:
                    shape = draw(st.integers(0, 4 if 'rule.nested' in mask else 1))
                    if shape == 1:
                        c = [draw(ao), c, draw(leaf)]
                    elif shape == 2:
                        c = [draw(ao), [draw(ao), c, draw(leaf)], draw(leaf)]
                    elif shape == 3:
                        c = [draw(ao), c, [draw(ao), draw(leaf), draw(leaf)]]
                    elif shape == 4:
                        c = [draw(ao), [draw(ao), c, draw(leaf)], [draw(ao), draw(leaf), draw(leaf)]]
                nmax = 3 if 'rule.multi_action' in mask else 1
                then = draw(st.lists(act, min_size=1, max_size=nmax))
                els = draw(st.lists(act, min_size=1, max_size=nmax)) if 'rule.else' in mask and draw(st.booleans()) \
                    else []
                prio = opt('rule.priority', st.integers(0, 6), 3)
                ctrls.append(['rule', c, then, els, prio])
    case['ctrls'] = ctrls
    case['via_inp'] = draw(st.sampled_from([False, False, False, True]))
    if draw(st.integers(0, 7)) == 0:
        case['simulated_before'] = True
    return case


def summarize(case):
    if 'inpfile' in case:
        return case
    return {'via_inp': case.get('via_inp', False), 'style': case.get('style'), 'nodes': [n['k'] for n in case['nodes']],
            'links': [(l['k'], l.get('vt')) if l['k'] == 'valve' else l['k'] for l in case['links']],
            'npats': len(case['pats']), 'curves': [c['k'] for c in case['curves']],
            'sources': len(case['sources']), 'ctrls': [c[0] for c in case['ctrls']], 'opts': case['opts'][:6]}
