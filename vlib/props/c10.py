"""C10 - pausing, pickling and restarting a simulation equals running it uninterrupted."""
import pickle

import numpy as np
from hypothesis import strategies as st

from .. import netgen, spec as S
from ..outcome import exc_bucket, fail, inconclusive, passed
from ..refs import c10_compare as CMP

ID = 'C10'
LEVEL = 'exploration'
CASES = {'quick': 360, 'thorough': 6000}
CASE_TIMEOUT = 15
TECHNIQUE = ('property-based testing (Hypothesis), metamorphic relation: generated networks with tanks, level/time/'
             'clock-time controls, rules and leaks are simulated once uninterrupted and once in 2-4 parts (generated pause '
             'points, optional pickle round trip, new simulator object per part); concatenated results must equal the '
             'uninterrupted ones')
RULE = ('Generated network spec (netgen: 2-7 junctions, 1-2 tanks, pumps/valves/CV pipes, leaks with start/end times, '
        'DD or PDD) + 0-4 simple controls (tank level, sim time, clock time; one head pump in three also gets a time control assigning it a second, scaled curve) + 0-3 rules (tank level / SYSTEM TIME / '
        'SYSTEM CLOCKTIME premises, AND/OR, ELSE, priorities) + 1-3 pause points on the hydraulic grid, each with a '
        'pickle flag; 10 hand-built scenarios switch the curve of a pump that is shut off (or running) around pauses at 2-6 h. Report step ALL; rows on the hydraulic grid are compared. Non-trivial = the uninterrupted run converged and, after the first '
        'pause, some link status changes or some leak switches or a control threshold of a tank is crossed; distinct = '
        'SHA-1 of the case.')
ASSUMPTIONS = ['runs that do not converge (uninterrupted or in parts) are inconclusive, except: the uninterrupted run converged and a '
               'continuation stops at the same row on two independent executions for a structural reason (not by running out '
               'of Newton iterations)',
               'a status difference at a step where a tank level is within two seconds of flow of a control threshold or '
               'tank limit (event times are whole seconds and may move by 1-2 s when the model is rebuilt) is counted as '
               'ambiguous and ends the comparison of that case (inconclusive), it is not a violation',
               'equal-priority rules/controls commanding different values at one instant are not generated on purpose; '
               'they are unspecified']
TOLERANCES = {'head_abs_m': 1e-4, 'flow_abs_m3s': 1e-6, 'rel': 1e-5,
              'tank_level_band': '2 s * max|net inflow| / area (statement of C06) for every partial step (event) solved so far in '
                                 'the uninterrupted run: event times are whole seconds and each may move by 1-2 s between two '
                                 'executions (WNTR orders the C++ variables by pointer value, which perturbs Newton at 1e-12 and '
                                 'flips the floor() of a backtrack); heads get 1e-4 + band*(1+events), flows/demands 1e-6 + '
                                 '10 % of the series maximum * min(1, 5*band*(1+events))',
              'solver': 'NewtonSolver TOL 1e-8 in every run so that convergence slack is not the limiting term'}

FEAT = {'nj': (2, 7), 'tanks': (1, 2), 'extra_res': (0, 1), 'pumps': True, 'valves': True, 'cvs': True,
        'closed': True, 'leaks': True, 'tank_leaks': True, 'vol_curves': True, 'tank_links_special': True,
        'booster': False, 'wild': 0.0, 'report_all': False,
        'power_pumps': False,     # WNTR's Newton iteration rarely survives them over many steps; their reverse-flow root is a recorded finding

        'hyd_steps': [900, 1800, 3600, 3600, 7200],
        'durations': [6 * 3600, 12 * 3600, 24 * 3600, 24 * 3600, 36 * 3600]}
OPS = ['>', '>=', '<', '<=']


@st.composite
def strategy(draw, tier='quick', curve_controls=True):
    f = dict(FEAT)
    if tier == 'thorough':
        f['nj'] = (2, 12)
        f['durations'] = f['durations'] + [48 * 3600, 72 * 3600]
    sp = draw(netgen.network(f))
    o = sp['opts']
    o['rep'] = 'ALL'
    if o['duration'] // o['hyd'] > (80 if tier == 'thorough' else 40):
        o['hyd'] = 3600
    nsteps = o['duration'] // o['hyd']
    links = [l for l in sp['pipes'] if not l['cv']] + sp['pumps']
    tank_names = [t['name'] for t in sp['tanks']]

    def target():
        l = links[draw(st.integers(0, len(links) - 1))]
        return [l['name'], 'status', draw(st.sampled_from(['OPEN', 'CLOSED']))]

    def level_thr(tk):
        return round(tk['min'] + (tk['max'] - tk['min']) * draw(st.sampled_from([0.1, 0.25, 0.4, 0.5, 0.6, 0.75, 0.9])), 3)

    controls = []
    for _ in range(draw(st.integers(0, 4))):
        kind = draw(st.sampled_from(['level', 'level', 'time', 'clock']))
        name, attr, val = target()
        if kind == 'level':
            tk = sp['tanks'][draw(st.integers(0, len(tank_names) - 1))]
            op = draw(st.sampled_from(['>', '<']))
            controls.append({'kind': 'cond', 'node': tk['name'], 'nattr': 'level', 'op': op, 'thr': level_thr(tk),
                             'link': name, 'attr': attr, 'value': val})
            if draw(st.booleans()):   # hysteresis partner
                controls.append({'kind': 'cond', 'node': tk['name'], 'nattr': 'level', 'op': '<' if op == '>' else '>',
                                 'thr': level_thr(tk), 'link': name, 'attr': attr,
                                 'value': 'OPEN' if val == 'CLOSED' else 'CLOSED'})
        elif kind == 'time':
            at = draw(st.sampled_from([o['hyd'] * draw(st.integers(0, nsteps)), draw(st.integers(0, o['duration']))]))
            controls.append({'kind': 'time', 'at': at, 'link': name, 'attr': attr, 'value': val})
        else:
            controls.append({'kind': 'time', 'clock': True, 'daily': True, 'at': 900 * draw(st.integers(0, 95)),
                             'link': name, 'attr': attr, 'value': val})
    if curve_controls:
        # a time control that gives a head pump another curve (a simulator that keeps anything derived from the curve
        # it saw when it was created then disagrees with the new simulator of a continuation)
        for p in sp['pumps']:
            if p['type'] == 'HEAD' and draw(st.integers(0, 2)) == 0:
                fac = draw(st.sampled_from([0.6, 0.8, 1.5, 2.0]))
                cname = 'HX_' + p['name']
                sp['curves'][cname] = {'type': 'HEAD', 'pts': [[q, round(h * fac, 3)] for q, h in sp['curves'][p['curve']]['pts']]}
                controls.append({'kind': 'time', 'at': o['hyd'] * draw(st.integers(1, max(1, nsteps))), 'link': p['name'],
                                 'attr': 'pump_curve_name', 'value': cname})
    sp['controls'] = controls

    def leaf():
        k = draw(st.sampled_from(['level', 'level', 'time', 'clock']))
        if k == 'level':
            tk = sp['tanks'][draw(st.integers(0, len(tank_names) - 1))]
            return ['level', tk['name'], draw(st.sampled_from(OPS)), level_thr(tk)]
        if k == 'time':
            return ['time', draw(st.sampled_from(OPS)), 300 * draw(st.integers(0, o['duration'] // 300))]
        return ['clock', draw(st.sampled_from(OPS)), 900 * draw(st.integers(0, 95))]

    rules = []
    for i in range(draw(st.sampled_from([0, 1, 1, 2, 3]))):
        c = leaf()
        if draw(st.integers(0, 2)) == 0:
            c = [draw(st.sampled_from(['and', 'or'])), c, leaf()]
        name, attr, val = target()
        then = [[name, attr, val]]
        els = [[name, attr, 'OPEN' if val == 'CLOSED' else 'CLOSED']] if draw(st.booleans()) else []
        rules.append({'cond': c, 'then': then, 'else': els, 'priority': 1 + (i * 2 + draw(st.integers(0, 1))) % 6})
    np_ = draw(st.sampled_from([1, 1, 2, 3]))
    pauses = sorted(set(o['hyd'] * draw(st.integers(0, max(0, nsteps - 1))) for _ in range(np_)))
    return {'spec': sp, 'rules': rules, 'pauses': pauses, 'pickle': [draw(st.booleans()) for _ in pauses]}


def enumerate_cases(tier):
    """hand-built: a head pump that is shut off by its weak curve (shut-off head below the static lift) gets a strong
    curve from a time control at 3 h; pauses before, at and after the switch, with and without pickling"""
    from .c09 import _base, _junction, _opts, _pipe
    for weak, strong in (([[0.05, 20.0]], [[0.05, 40.0]]), ([[0.05, 40.0]], [[0.05, 20.0]])):
        for pause, pk in ((2, False), (3, True), (4, False), (5, True), (6, False)):
            s = _base(_opts(8 * 3600, 3600))
            s['reservoirs'] = [{'name': 'R1', 'head': 10.0, 'pat': None}]
            s['tanks'] = [{'name': 'T1', 'elev': 40.0, 'init': 3.0, 'min': 0.0, 'max': 8.0, 'diam': 12.0, 'min_vol': 0.0,
                           'vol_curve': None}]
            s['junctions'] = [_junction('J1', 0.0, 0.0), _junction('J2', 5.0, 0.004, 'P1')]
            s['curves'] = {'HC1': {'type': 'HEAD', 'pts': weak}, 'HC2': {'type': 'HEAD', 'pts': strong}}
            s['pumps'] = [{'name': 'PU1', 'a': 'R1', 'b': 'J1', 'type': 'HEAD', 'power': None, 'curve': 'HC1', 'status': 'OPEN'}]
            s['pipes'] = [_pipe('L1', 'J1', 'T1'), _pipe('L2', 'T1', 'J2')]
            s['controls'] = [{'kind': 'time', 'at': 3 * 3600, 'link': 'PU1', 'attr': 'pump_curve_name', 'value': 'HC2'}]
            yield {'spec': s, 'rules': [], 'pauses': [pause * 3600], 'pickle': [pk]}
    # a regulating valve whose upstream side is cut off from every source by a time control (or a rule) after the pause:
    # what the simulator does with such a valve must not depend on the model having been simulated before
    for vt, setting in (('PRV', 20.0), ('FCV', 0.002)):
        for by_rule in (False, True):
            for pauses, pk in (([2 * 3600], False), ([4 * 3600], True), ([2 * 3600, 4 * 3600], False)):
                s = _base(_opts(8 * 3600, 3600))
                s['reservoirs'] = [{'name': 'R1', 'head': 70.0, 'pat': None}]
                s['tanks'] = [{'name': 'T1', 'elev': 30.0, 'init': 3.0, 'min': 0.0, 'max': 8.0, 'diam': 12.0, 'min_vol': 0.0,
                               'vol_curve': None}]
                s['junctions'] = [_junction('J1', 5.0, 0.001), _junction('J2', 5.0, 0.003, 'P1'), _junction('J3', 4.0, 0.001)]
                s['pipes'] = [_pipe('L1', 'R1', 'J1'), _pipe('L2', 'J1', 'J3'), _pipe('L3', 'J2', 'T1')]
                s['valves'] = [{'name': 'V1', 'a': 'J1', 'b': 'J2', 'type': vt, 'diam': 0.3, 'minor': 0.0, 'setting': setting,
                                'status': 'ACTIVE'}]
                rules = []
                if by_rule:
                    rules = [{'cond': ['time', '>=', 6 * 3600], 'then': [['L1', 'status', 'CLOSED']], 'else': [], 'priority': 3}]
                else:
                    s['controls'] = [{'kind': 'time', 'at': 6 * 3600, 'link': 'L1', 'attr': 'status', 'value': 'CLOSED'}]
                yield {'spec': s, 'rules': rules, 'pauses': pauses, 'pickle': [pk] * len(pauses)}


def summarize(case):
    sp = case['spec']
    return {'opts': sp['opts'], 'pauses': case['pauses'], 'pickle': case['pickle'], 'controls': sp['controls'],
            'rules': case['rules'], 'tanks': [t['name'] for t in sp['tanks']], 'n_links': len(S.links_of(sp))}


def add_rules(wn, case):
    from wntr.network import LinkStatus
    from wntr.network.controls import (AndCondition, ControlAction, ControlPriority, OrCondition, Rule, SimTimeCondition,
                                       TimeOfDayCondition, ValueCondition)

    def cond(c):
        if c[0] == 'level':
            return ValueCondition(wn.get_node(c[1]), 'level', c[2], c[3])
        if c[0] == 'time':
            return SimTimeCondition(wn, c[1], int(c[2]))
        if c[0] == 'clock':
            return TimeOfDayCondition(wn, c[1], int(c[2]))
        cls = AndCondition if c[0] == 'and' else OrCondition
        return cls(cond(c[1]), cond(c[2]))

    def act(a):
        return ControlAction(wn.get_link(a[0]), a[1], LinkStatus.Open if a[2] == 'OPEN' else LinkStatus.Closed)

    for k, r in enumerate(case['rules']):
        wn.add_control('rule%d' % k, Rule(cond(r['cond']), [act(a) for a in r['then']],
                                         [act(a) for a in r['else']] if r['else'] else None,
                                         priority=ControlPriority(r['priority']), name='rule%d' % k))


def build(case):
    wn = S.build_wn(case['spec'])
    add_rules(wn, case)
    return wn


KEYS_NODE = ('head', 'demand', 'leak_demand')
KEYS_LINK = ('flowrate', 'status')


def check(case):
    import wntr
    sp = dict(case['spec'])
    sp['opts'] = dict(sp['opts'], rep='ALL')
    case = dict(case, spec=sp)
    o = sp['opts']
    tags = netgen.features(sp) + ['pauses:%d' % len(case['pauses'])]
    if any(case['pickle']):
        tags.append('pickle')
    if case['rules']:
        tags.append('rules')
    for c in sp['controls']:
        tags.append('ctl:' + ('clock' if c.get('clock') else c['kind']))
        if c['attr'] == 'pump_curve_name':
            tags.append('ctl:pump_curve_switch')
    if 0 in case['pauses']:
        tags.append('pause_at_0')
    hw = o['hw_approx']
    # ---- uninterrupted
    try:
        wn = build(case)
    except Exception as e:
        return fail(exc_bucket(e, 'build'), 'building the model raised %r' % e, tags)
    full = S.run_wntr(wn, hw_approx=hw, tol=1e-8, maxiter=1500)
    if full.exception is not None:
        return inconclusive('uninterrupted run raised %s' % type(full.exception).__name__, tags)
    if not full.ok:
        why = 'trial limit' if any('maximum number of trials' in w for w in full.warnings) else 'Newton'
        return inconclusive('uninterrupted run did not converge (%s)' % why, tags)
    # ---- in parts
    wn = build(case)
    parts = []
    ends = list(case['pauses']) + [o['duration']]
    for k, end in enumerate(ends):
        wn.options.time.duration = end
        run = S.run_wntr(wn, hw_approx=hw, tol=1e-8, maxiter=1500)       # a new WNTRSimulator object every time
        if run.exception is not None:
            return fail(exc_bucket(run.exception, 'part%d_raises' % min(k, 1)),
                        'part %d (to %d s, after pauses %s) raised %r' % (k, end, case['pauses'][:k], run.exception), tags)
        if not run.ok:
            # the uninterrupted run went through; a continuation that cannot is only judged when it fails the same way
            # a second time on an independent fresh build (twice the same = not run-to-run noise), not pickled
            if k >= 1:
                wn2 = build(case)
                again = None
                for k2, end2 in enumerate(ends[:k + 1]):
                    wn2.options.time.duration = end2
                    again = S.run_wntr(wn2, hw_approx=hw, tol=1e-8, maxiter=1500)
                    if again.exception is not None or (not again.ok and k2 < k):
                        again = None
                        break
                # (a Newton iteration that merely runs out of iterations is a numerical difficulty - the continuation starts
                #  its first solve from other values than the uninterrupted run - and stays inconclusive; a structural
                #  failure, e.g. a singular Jacobian or the trial limit, is judged)
                numerical = any('Reached maximum number of iterations' in w for w in run.warnings)
                if again is not None and not again.ok and len(again.times) == len(run.times) and not numerical:
                    last = int(run.times[-1]) if len(run.times) else None
                    return fail('continuation_stops/uninterrupted_run_converges',
                                'the uninterrupted run converged to %d s, but part %d of the paused run (pauses %s) stops: '
                                'last reported time %s (the same on a second, independent execution)'
                                % (o['duration'], k, case['pauses'], last), tags)
            return inconclusive('a part did not converge', tags)
        parts.append(run)
        if k < len(case['pauses']) and case['pickle'][k]:
            wn = pickle.loads(pickle.dumps(wn))
    # ---- index structure (report step 'ALL': every solved step is a row; rows on the hydraulic grid are compared)
    hyd = o['hyd']
    allt = []
    for k, run in enumerate(parts):
        ts = [int(t) for t in run.times]
        if k > 0 and ts:
            pause = case['pauses'][k - 1]
            if ts[0] <= pause:
                return fail('index/continuation_start/revisits_earlier_time',
                            'part %d was paused at %d s; the continuation must start after it, at the latest at %d s, but '
                            'its index starts at %s (index %s...)' % (k - 1, pause, pause + hyd, ts[0], ts[:6]), tags)
            if ts[0] > pause + hyd:
                return fail('index/continuation_start/skips_ahead',
                            'part %d was paused at %d s; the first hydraulic step after it is %d s but the index of the '
                            'continuation starts at %s' % (k - 1, pause, pause + hyd, ts[0]), tags)
        allt.extend(ts)
    if any(b <= a for a, b in zip(allt, allt[1:])):
        return fail('index/not_strictly_increasing', 'concatenated index %s' % allt[:40], tags)
    fullt_all = [int(t) for t in full.times]
    first_pause = case['pauses'][0]
    res = CMP.compare(sp, case['rules'], full, CMP.Table(parts), what='run in parts')
    if res is not None and res[0] == 'fail' and not res[1].startswith('index/'):
        # judge a value/status difference against what two executions of the uninterrupted run differ by themselves
        noise = S.run_wntr(build(case), hw_approx=hw, tol=2.5e-9, maxiter=1500)
        if noise.exception is not None or not noise.ok:
            return inconclusive('the uninterrupted run is not reproducible under a solver-tolerance perturbation', tags)
        res = CMP.compare(sp, case['rules'], full, CMP.Table(parts), what='run in parts', noise=noise)
    if res is not None:
        if res[0] == 'inconclusive':
            return inconclusive(res[1], tags)
        bucket = res[1]
        if bucket.startswith('value/'):
            bucket += '/after_pause' if res[3] > first_pause else '/before_pause'
        return fail(bucket, res[2] + ' (pauses %s, pickle %s)' % (case['pauses'], case['pickle']), tags)
    # ---- non-triviality
    k0 = sum(1 for t in fullt_all if t <= first_pause)
    later_change = False
    for name, a, b, kind, l in S.links_of(sp):
        st_ = full.link['status'][name]
        if len(st_) > k0 and np.any(st_[max(k0 - 1, 0):-1] != st_[max(k0, 1):]):
            later_change = True
    for n in S.node_names(sp):
        lk = full.node['leak_demand'][n]
        if len(lk) > k0 and np.any((lk[max(k0 - 1, 0):-1] > 0) != (lk[max(k0, 1):] > 0)):
            later_change = True
    if later_change:
        tags.append('state_change_after_pause')
    if CMP.partial_steps(sp, full) > 10:
        tags.append('many_partial_steps(loose_tolerance)')
    return passed(later_change, tags)
