"""C11 - simulating never alters the model definition; reset and rerun reproduce results."""
import copy
import json

import numpy as np
from hypothesis import strategies as st

from .. import netgen, spec as S
from ..outcome import exc_bucket, fail, inconclusive, passed
from ..refs import c10_compare as CMP
from . import c10

ID = 'C11'
LEVEL = 'exploration'
CASES = {'quick': 320, 'thorough': 5000}
CASE_TIMEOUT = 120
TECHNIQUE = ('property-based testing (Hypothesis), metamorphic relations over generated run/reset/copy/reload histories: '
             'to_dict() before == after every WNTRSimulator and EpanetSimulator run; results of a rerun after '
             'reset_initial_values(), of a deepcopy and of a JSON-reloaded model equal those of the first run')
RULE = ('Generated model (netgen network with tanks, pumps, valves, CV pipes, leaks, DD/PDD + simple controls on link '
        'status, valve setting and pump speed conditioned on tank level / time / clock time + rules with ELSE; in one case in four the initial statuses of pipes and pumps are passed to add_pipe/add_pump as ints) and a '
        'generated history of 2-5 operations from {W: reset if needed and run WNTRSimulator, E: run EpanetSimulator (its results on the used model are compared with those on a freshly built one), '
        'C: deepcopy then run, J: JSON round trip then run, P: pickle round trip then run, R: run a copy whose numeric report '
        'step is shorter than the hydraulic step (dictionary check only)}, starting with W. Non-trivial '
        '= the first run converged and some link status, valve setting or leak state changes during it; distinct = SHA-1.')
ASSUMPTIONS = ['the definition is what to_dict() reports (the statement names the dictionary representation)',
               'a WNTR run that does not converge, or an EPANET run that EPANET itself rejects (error code), is '
               'inconclusive for the result comparison; the dictionary comparison is still made',
               'comparison tolerance as in C10 (event times may move by 1-2 s between executions; see refs/c10_compare.py)',
               'rules use a single AND/OR of two premises at most (deeper nestings do not survive the dictionary form: open '
               'finding of C13), and no two rules/controls of equal priority command one target']
TOLERANCES = {'dict': 'exact equality of json.dumps(to_dict(wn), sort_keys=True)',
              'results': '1e-4 m / 1e-6 m3/s + 1e-5 rel, plus two seconds of tank flow per partial step solved so far '
                         '(refs/c10_compare.py); solver TOL 1e-8'}

OPS = ['W', 'E', 'C', 'J', 'P', 'R', 'S']


@st.composite
def strategy(draw, tier='quick'):
    base = draw(c10.strategy(tier, curve_controls=False))   # C11's statement names status and setting controls
    sp = base['spec']
    o = sp['opts']
    o['rep'] = 'ALL'
    if o['duration'] > 12 * 3600 and tier != 'thorough':
        o['duration'] = 12 * 3600
    if o['duration'] // o['hyd'] > 30:
        o['hyd'] = 1800 if o['duration'] <= 12 * 3600 else 3600
    if o['rule'] < 300:
        o['rule'] = 300
    # extra controls on settings / speeds (definition attributes that a careless action could overwrite)
    extra = []
    for v in sp['valves']:
        if draw(st.booleans()):
            val = {'PRV': 12.0, 'PSV': 9.0, 'FCV': 0.002, 'TCV': 7.0}[v['type']]
            if v['type'] == 'FCV' and abs(v['setting'] - val) < 1e-12:
                val = 0.004
            extra.append({'kind': 'time', 'at': o['hyd'] * draw(st.integers(0, max(1, o['duration'] // o['hyd']))),
                          'link': v['name'], 'attr': 'setting', 'value': val})
    for p in sp['pumps']:
        # (a speed other than 1.0 on a head pump makes the WNTRSimulator raise NotImplementedError)
        if p['type'] == 'POWER' and draw(st.integers(0, 7)) == 0:
            extra.append({'kind': 'time', 'at': o['hyd'] * draw(st.integers(0, max(1, o['duration'] // o['hyd']))),
                          'link': p['name'], 'attr': 'base_speed', 'value': draw(st.sampled_from([0.8, 0.9, 1.1]))})
    sp['controls'] = sp['controls'] + extra
    if draw(st.integers(0, 3)) == 0:
        sp['int_status'] = True       # pipes and pumps get their initial status as an int (accepted by add_pipe/add_pump)
    n = draw(st.integers(1, 3))
    ops = ['W'] + [draw(st.sampled_from(OPS)) for _ in range(n)]
    ctl_valves = [c['link'] for c in sp['controls'] if c['attr'] == 'setting']
    if ctl_valves and draw(st.booleans()):
        # a valve whose setting a control changes: EPANET right after the WNTR run, on the model as that run left it
        ops = ['W', 'E'] + ops[1:]
    return {'spec': sp, 'rules': base['rules'], 'ops': ops}


def summarize(case):
    sp = case['spec']
    return {'opts': sp['opts'], 'ops': case['ops'], 'controls': sp['controls'], 'rules': case['rules'],
            'n_links': len(S.links_of(sp)), 'tanks': [t['name'] for t in sp['tanks']]}


def _dict(wn):
    import wntr
    return json.dumps(wntr.network.to_dict(wn), sort_keys=True, default=str)


def _first_diff(a, b, path=''):
    if type(a) != type(b):
        return '%s: %r -> %r' % (path, a, b)
    if isinstance(a, dict):
        for k in sorted(set(a) | set(b)):
            if k not in a or k not in b:
                return '%s/%s: %r -> %r' % (path, k, a.get(k, '<absent>'), b.get(k, '<absent>'))
            d = _first_diff(a[k], b[k], path + '/' + str(k))
            if d:
                return d
        return None
    if isinstance(a, list):
        if len(a) != len(b):
            return '%s: length %d -> %d' % (path, len(a), len(b))
        for i, (x, y) in enumerate(zip(a, b)):
            nm = x.get('name', i) if isinstance(x, dict) else i
            d = _first_diff(x, y, '%s[%s]' % (path, nm))
            if d:
                return d
        return None
    return None if a == b else '%s: %r -> %r' % (path, a, b)


def _field_of(diff):
    # '/links[L3]/initial_status: ...' -> 'links.initial_status'
    head = diff.split(':')[0]
    parts = [p.split('[')[0] for p in head.split('/') if p]
    return '.'.join(parts[:1] + parts[-1:]) if parts else 'unknown'


def check(case):
    import pickle
    import wntr
    sp = dict(case['spec'])
    sp['opts'] = dict(sp['opts'], rep='ALL')
    case = dict(case, spec=sp)
    o = sp['opts']
    hw = o['hw_approx']
    tags = netgen.features(sp) + ['op:' + x for x in case['ops']]
    if sp.get('int_status'):
        tags.append('initial_status_as_int')
    if case['rules']:
        tags.append('rules')
    for c in sp['controls']:
        tags.append('ctl:%s/%s' % ('clock' if c.get('clock') else c['kind'], c['attr']))
    try:
        wn = c10.build(case)
    except Exception as e:
        return fail(exc_bucket(e, 'build'), 'building the model raised %r' % e, tags)
    d0 = _dict(wn)
    ref = None
    dirty = False
    incon = None
    compared = 0

    # pumps whose speed a control commands: the action writes base_speed itself (recorded open finding); the field is
    # masked in the comparison and reported at the end, so that it cannot hide any other difference
    speed_targets = set(c['link'] for c in sp['controls'] if c['attr'] == 'base_speed')
    clobbered = []

    def masked(text):
        d = json.loads(text)
        for l in d.get('links', []):
            if l.get('name') in speed_targets:
                l['base_speed'] = None
        return d

    def same_dict(model, after):
        d1 = _dict(model)
        if d1 != d0:
            a, b = masked(d0), masked(d1)
            if a == b:
                if not clobbered:
                    clobbered.append('to_dict() differs after %s (history %s): %s'
                                     % (after, case['ops'], _first_diff(json.loads(d0), json.loads(d1))))
                return None
            diff = _first_diff(a, b) or 'text differs'
            return fail('definition_changed/%s/%s' % (after, _field_of(diff)),
                        'to_dict() differs after %s (history %s): %s' % (after, case['ops'], diff[:600]), tags)
        return None

    sims = {}

    def run(model, reuse=False):
        # reuse: run with the simulator object that ran this model before (W creates a new WNTRSimulator every time)
        r_ = S.run_wntr(model, hw_approx=hw, tol=1e-8, maxiter=1500, sim=sims.get(id(model)) if reuse else None)
        sims[id(model)] = r_.sim
        return r_

    for i, op in enumerate(case['ops']):
        if op == 'R':
            # a numeric report step shorter than the hydraulic step makes the simulator reduce its own hydraulic step
            # "for this simulation": the definition (options included) must come out unchanged
            model = copy.deepcopy(wn)
            model.reset_initial_values()
            model.options.time.report_timestep = max(60, o['hyd'] // (2 if i % 2 else 3))
            before = _dict(model)
            r = run(model)
            d1 = _dict(model)
            if d1 != before:
                diff = _first_diff(json.loads(before), json.loads(d1)) or 'text differs'
                return fail('definition_changed/WNTRSimulator(report<hyd)/%s' % _field_of(diff),
                            'to_dict() differs after a WNTRSimulator run with report_timestep %s < hydraulic_timestep %s '
                            '(history %s): %s' % (model.options.time.report_timestep, o['hyd'], case['ops'], diff[:600]), tags)
            continue
        if op == 'E':
            # EPANET needs a numeric report step; set and restore it around the call is itself a definition change, so
            # run EPANET on the model as it is unless the report step is 'ALL' (then use a copy and compare the copy)
            model = wn
            before = d0
            if model.options.time.report_timestep == 'ALL' or str(model.options.time.report_timestep).upper() == 'ALL':
                model = copy.deepcopy(wn)
                model.options.time.report_timestep = o['hyd']
                before = _dict(model)
            res_e = None
            try:
                sim = wntr.sim.EpanetSimulator(model)
                res_e = sim.run_sim(file_prefix='c11tmp')
            except Exception as e:
                tags.append('epanet_refused:%s' % type(e).__name__)
            if res_e is not None and ref is not None:
                # 'simulating equal models gives equal results': EPANET on the model as the history left it (not reset)
                # against EPANET on a model freshly built from the same spec - the same engine on what must be the
                # same input file
                try:
                    fresh = c10.build(case)
                    fresh.options.time.report_timestep = model.options.time.report_timestep
                    res_f = wntr.sim.EpanetSimulator(fresh).run_sim(file_prefix='c11tmpf')
                except Exception:
                    res_f = None
                if res_f is not None:
                    tags.append('epanet_used_vs_fresh_compared')
                    for grp, key in (('node', 'head'), ('link', 'flowrate')):
                        a = getattr(res_e, grp)[key]
                        b = getattr(res_f, grp)[key]
                        if a.shape != b.shape:
                            return fail('results/epanet_used_model_vs_fresh/shape', 'EpanetSimulator results of the used model '
                                        'have shape %r, of a fresh model %r (history %s)' % (a.shape, b.shape, case['ops']), tags)
                        dev = (a - b[a.columns]).abs()
                        scale = max(1.0, float(b.abs().max().max())) if key == 'head' else max(1e-3, float(b.abs().max().max()))
                        if float(dev.max().max()) > 1e-4 * scale:
                            col = dev.max().idxmax()
                            return fail('results/epanet_used_model_vs_fresh/%s' % key,
                                        'EpanetSimulator on the model after the history %s (not reset) and on a freshly built '
                                        'model differ in %s of %s by %.6g (scale %.6g)'
                                        % (case['ops'], key, col, float(dev.max().max()), scale), tags)
            d1 = _dict(model)
            if d1 != before:
                diff = _first_diff(json.loads(before), json.loads(d1)) or 'text differs'
                return fail('definition_changed/EpanetSimulator/%s' % _field_of(diff),
                            'to_dict() differs after EpanetSimulator.run_sim (history %s): %s' % (case['ops'], diff[:600]), tags)
            continue
        if dirty:
            wn.reset_initial_values()
            bad = same_dict(wn, 'reset_initial_values')
            if bad:
                return bad
            dirty = False
        if op in ('W', 'S'):
            model, label = wn, ('rerun after reset_initial_values' if ref is not None else 'first run')
            if op == 'S' and ref is not None:
                label = 'rerun after reset_initial_values with the same simulator object'
            dirty = True
        elif op == 'C':
            model, label = copy.deepcopy(wn), 'deepcopy'
        elif op == 'P':
            model, label = pickle.loads(pickle.dumps(wn)), 'pickle round trip'
        else:
            try:
                model = wntr.network.from_dict(json.loads(json.dumps(wntr.network.to_dict(wn))))
            except Exception as e:
                return fail(exc_bucket(e, 'json_reload'), 'from_dict(json(to_dict)) raised %r' % e, tags)
            label = 'JSON-reloaded model'
        r = run(model, reuse=(op == 'S'))
        bad = same_dict(model if op != 'J' else wn, 'WNTRSimulator')
        if bad and op != 'J':
            return bad
        if op not in ('W', 'S'):
            bad = same_dict(wn, 'run_of_a_copy')     # running a copy must not touch the original either
            if bad:
                return bad
        if r.exception is not None:
            if ref is None:
                return inconclusive('first run raised %s' % type(r.exception).__name__, tags)
            return fail(exc_bucket(r.exception, 'rerun_raises'), '%s raised %r although the first run succeeded'
                        % (label, r.exception), tags)
        if ref is None:
            if not r.ok:
                incon = 'first run did not converge'
                # (running out of Newton iterations is a numerical difficulty that depends on the starting values: inconclusive)
                if op == 'W' and not any('Reached maximum number of iterations' in w for w in r.warnings):
                    # a model that cannot be simulated as built must not become simulable by reset_initial_values():
                    # the rerun after a reset converges although two independent fresh builds do not (twice = not noise)
                    wn.reset_initial_values()
                    r2 = run(wn, reuse=False)
                    if r2.exception is None and r2.ok:
                        nz = S.run_wntr(c10.build(case), hw_approx=hw, tol=1e-8, maxiter=1500)
                        if nz.exception is None and not nz.ok:
                            return fail('results/first_run_fails_rerun_after_reset_converges',
                                        'the first run of the model as built did not converge (last reported time %s, again '
                                        'on a second fresh build), but after reset_initial_values() the same model runs to '
                                        'the end (history %s)' % (r.times[-1] if len(r.times) else None, case['ops']), tags)
                break
            ref = r
            continue
        if not r.ok:
            incon = 'a later run did not converge'
            break
        res = CMP.compare(sp, case['rules'], ref, r, what=label)
        if res is not None and res[0] == 'fail' and not res[1].startswith('index/'):
            # judge the difference against what two executions of the very same fresh model differ by themselves
            nz = S.run_wntr(c10.build(case), hw_approx=hw, tol=2.5e-9, maxiter=1500)
            if nz.exception is not None or not nz.ok:
                res = ('inconclusive', 'the first run is not reproducible under a solver-tolerance perturbation')
            else:
                res = CMP.compare(sp, case['rules'], ref, r, what=label, noise=nz)
        compared += 1
        if res is not None:
            if res[0] == 'inconclusive':
                incon = res[1]
                break
            kind = {'W': 'rerun', 'S': 'rerun_same_simulator', 'C': 'deepcopy', 'P': 'pickle', 'J': 'json'}[op]
            return fail('results/%s/%s' % (kind, res[1]), res[2] + ' (history %s)' % case['ops'], tags)
    if clobbered:
        return fail('definition_changed/pump_speed_control/links.base_speed', clobbered[0], tags)
    if incon:
        return inconclusive(incon, tags)
    if ref is None:
        return inconclusive('no WNTR run in the history', tags)
    # non-trivial: something changes state during the run
    change = False
    for name, a, b, kind, l in S.links_of(sp):
        for key in ('status', 'setting'):
            v = ref.link[key][name]
            if len(v) > 1 and np.any(v[1:] != v[:-1]):
                change = True
    for nname in S.node_names(sp):
        lk = ref.node['leak_demand'][nname]
        if len(lk) > 1 and np.any((lk[1:] > 0) != (lk[:-1] > 0)):
            change = True
    if change:
        tags.append('state_changes_during_run')
    return passed(change and compared > 0, tags)
