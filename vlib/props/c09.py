"""C09 - junctions cut off from all sources are zeroed; connected ones never are.

Two kinds of case, selected by ``case['mode']``:

``'sim'``    ``{'mode': 'sim', 'net': <netgen spec>, 'pause': t | absent}``: a generated network (post-processed here:
             parallel links in both directions, dead-end branches behind pipes / check valves / boosters / regulating
             valves, initially closed links, a schedule of time controls opening and closing links on and off the
             hydraulic grid, optionally the whole network below the reference level) is simulated once with
             WNTRSimulator (``pause``: in two parts with a new simulator object for the second).  For every reported
             row the graph of links whose *reported* status is not Closed is built from the spec's end points and
             searched from the tanks/reservoirs with an own BFS (vlib.spec.reachable_from_sources): unreachable
             junction => demand = pressure = 0 and zero flow in its links; reachable junction => head = pressure +
             elevation, DD demand as specified, node balance.  A run that stops is judged by `_judge_stopped_run`
             (is it only because a part is cut off?).
``'graph'``  ``{'mode': 'graph', 'via': 'csr'|'wn', 'n': N, 'sources': [...], 'links': [[a, b, status, kind], ...],
             'rounds': [[[link_index, status], ...], ...]}``: unit-level differential of the reachability search.
             ``via='csr'``: the adjacency is laid out by this module the way the simulator keeps it (one CSR entry per
             ordered node pair, data 1 iff some link of the pair is not closed) and
             ``wntr.sim.network_isolation.check_for_isolated_junctions`` is called directly.  ``via='wn'``: a
             pipes/valves-only WaterNetworkModel is built, the simulator's own ``_initialize_internal_graph`` /
             ``_update_internal_graph`` maintain the adjacency while status controls fire round by round, and the
             C++ search is called on the simulator's arrays after every round.  Both against the same BFS.
"""
import copy
import re

from hypothesis import strategies as st

from .. import netgen, spec as S
from ..outcome import exc_bucket, fail, inconclusive, passed
from .c01 import balance_check
from ..refs import c02_laws as LAW

ID = 'C09'
LEVEL = 'exploration'
CASES = {'quick': 2400, 'thorough': 60000}
SHRINK_BUDGET = {'quick': 45, 'thorough': 240}
CASE_TIMEOUT = 40
TECHNIQUE = ('property-based testing (Hypothesis): (a) generated networks with closures and open/close schedules '
             'simulated with WNTRSimulator, every reported row judged against an own breadth-first reachability over the '
             'reported link statuses (reference model) plus the C01 conservation oracle; (b) differential test of the '
             'C++ reachability search and of the incrementally maintained adjacency against the same BFS')
RULE = ('sim cases (1 in 4): netgen networks (2-8 junctions, thorough to 14; spanning tree + loops, 1-3 sources, tanks, '
        'pumps, valves, CV pipes, leaks, DD or PDD; most power pumps / PSVs replaced by head pumps / TCVs to keep ordinary '
        'non-convergence rare) post-processed: junction elevations |z| >= 0.5 m, in 2 of 5 cases the whole network lowered '
        'by 45 or 130 m (negative elevations and heads), 0-2 dead-end branches of 1-2 junctions behind a pipe, a check-valve '
        'pipe, a small booster or a PRV/PSV/FCV in either direction, 0-3 extra parallel links (same or opposite direction, '
        'also on pump/valve pairs, also triples), each pipe initially closed with probability 1/8, 0-2 targeted closures '
        '(a junction-junction pipe, one or all links of a parallel pair, staggered schedules on a pair), 0-4 open/close '
        'toggle schedules on links (instants on the hydraulic grid or off it by 1 s..hyd-1 s; valves also get ACTIVE), '
        'report step ALL in 3 of 4 cases, 1 in 5 longer runs paused on the grid and continued with a new simulator object. '
        'graph cases: 2-12 nodes (thorough 30), 1-3 sources, tree + up to 8 extra links with up to 4 links per node pair '
        'in either direction, statuses closed/open/active, 0-4 rounds of 1-3 status changes; via csr (direct call of the '
        'C++ search, rows in sorted or rotated order) or via wn (simulator-maintained adjacency of a pipes/valves model). '
        'Enumerated part: all multigraphs on 1 source + 2 junctions with 0-2 links per pair and every open/closed pattern '
        '(via wn and csr, followed by two rounds of changes) and 45 hand-built simulation scenarios (parallel pair closed '
        'one by one and reopened, dead end cut and reconnected off-grid, every junction cut off, PRV closed/active, pump '
        'outage, PRV and CV inside the cut-off part, draining tank as last source, the same paused, booster / check '
        'valve / PSV pointing out of a dead end and a dead end behind an empty tank at low or negative heads). '
        'Non-trivial: sim = run in which some junction is cut off in some reported row and some junction is reachable in '
        'some row; graph = some non-source node unreachable and some reachable in some round. '
        'Distinct = SHA-1 of the case.')
ASSUMPTIONS = [
    'a link counts as closed in a reported row iff its reported status is 0 (LinkStatus.Closed); Open (1) and Active (2) '
    'are non-closed, whoever set them (user, control, check valve, pump or valve logic, tank limits)',
    'initial statuses are applied with wn.reset_initial_values() before simulating (add_valve/add_pump only store '
    'initial_status; same convention as C02)',
    'for a cut-off junction the statement names demand, pressure and flow; head and leak_demand are not judged there '
    '(leak_demand enters the node balance of the C01 oracle only)',
    'for a reachable junction "not treated as isolated" is observed as reported pressure = reported head - spec '
    'elevation with |elevation| >= 0.5 m (a zeroed row has head = pressure = 0), DD demand = sum base*pattern*multiplier, '
    'and node balance (C01 oracle) at every node',
    'a run that stops (solver not converged / maximum number of trials) is repeated with every step reported; C = the '
    'junctions flagged isolated in the last solved trial or cut off by the link statuses the model is left with (the two '
    'alternating states of a status flip-flop). It is a violation only if it stopped by exceeding the number of trials, C '
    'was cut off in every reported row before, and the same network without C and its links converges for the whole '
    'duration, takes the same steps and solves the failing instant (or no junction is left). A Newton failure is '
    'inconclusive even then (warm start vs cold start is not decidable from outside); everything else is inconclusive; '
    'the reported prefix is always judged',
    'an exception out of run_sim is a violation only if a part is cut off by the user-level statuses and the twin '
    'network with all links open and no controls runs without that exception',
    'negative elevations and heads are inside the input domain (the elevation datum is arbitrary; the bundled Net3 has '
    'junctions below 0)',
    'no two controls act on the same link at the same instant (order would be ambiguous)',
    'graph mode: data values are flags 0/1 (what _initialize/_update_internal_graph guarantee), node_indicator starts '
    'as all ones, every node has at least one link; via wn drives the private sequence of run_sim up to the first solve '
    '(_get_control_managers, _register_controls_with_observers, _initialize_internal_graph, _update_internal_graph), the '
    'anchors named in properties.jsonl',
]
TOLERANCES = {'zero_demand': 'exactly 0 (|x| <= 1e-15)', 'zero_pressure': 'exactly 0 (|x| <= 1e-12 m)',
              'zero_flow': '1.05e-6 m3/s (NewtonSolver TOL: a closed link is held by the constraint flow = 0)',
              'head_pressure_elevation': '1e-9*(1+|head|) m',
              'dd_demand_rel': 1e-12, 'junction_balance_abs': '1.05e-6 + 1e-9*sum|q| (as C01)',
              'tank_reservoir_balance': '1e-9*(1+sum|q|) (as C01)'}
LEVEL_TEXT = ('exploration: about 600 simulated networks and 2500 reachability graphs per seed (quick); '
              'all 3-node multigraphs with <= 2 links per pair are enumerated; no exhaustiveness claim beyond that')
LEVEL_NOTE = ('trusted base: vlib.spec.reachable_from_sources (12-line BFS), the CSR lay-out and status bookkeeping in '
              'this file, vlib.spec builders, the C01 balance evaluator; link statuses are taken from the reported '
              'results, topology and elevations from the generated spec; for stopped runs the statuses and isolation '
              'flags the model is left with are read as evidence of which part was cut off')
EXHAUSTIVE = {'quick': False, 'thorough': False,
              'what': 'graph mode enumerates all multigraphs on 1 source + 2 junctions with 0-2 links per node pair and '
                      'every open/closed assignment; everything else is sampled'}

FEAT = {'nj': (2, 8), 'tanks': (0, 2), 'extra_res': (0, 1), 'pumps': True, 'valves': True, 'cvs': True,
        'closed': True, 'leaks': True, 'tank_leaks': True, 'vol_curves': False, 'tank_links_special': True,
        'booster': True, 'wild': 0.0, 'max_extra_links': 3, 'hyd_steps': [900, 1800, 3600],
        'durations': [0, 3600, 2 * 3600, 3 * 3600, 4 * 3600, 6 * 3600]}
SIM_SHARE = 4
ZQ = 1.05e-6


# ===================================================================================================== helpers
def _links(spec):
    return S.links_of(spec)


def _r(x, n=2):
    return round(float(x), n)


def user_status_at(spec, t):
    """user-level status per link at simulation time t: initial status, then every time control with at <= t in time
    order (classification only; the oracle itself reads the reported statuses)"""
    stt = {}
    for name, _a, _b, _k, l in _links(spec):
        stt[name] = l['status']
    for c in sorted((c for c in spec.get('controls', []) if c['kind'] == 'time' and c['attr'] == 'status'),
                    key=lambda c: c['at']):
        if c['at'] <= t:
            stt[c['link']] = c['value']
    return stt


def event_times(spec):
    return sorted(set([0] + [c['at'] for c in spec.get('controls', []) if c['kind'] == 'time'
                             and c['at'] <= spec['opts']['duration']]))


def user_cut_sets(spec):
    """{t: set of junction names cut off by user-level closures at the instants where they can change}"""
    out = {}
    jn = [j['name'] for j in spec['junctions']]
    for t in event_times(spec):
        us = user_status_at(spec, t)
        reach = S.reachable_from_sources(spec, set(n for n, v in us.items() if v == 'CLOSED'))
        out[t] = set(j for j in jn if j not in reach)
    return out


# ===================================================================================================== sim mode
def sim_tags(spec):
    tags = ['mode:sim'] + netgen.features(spec)
    if spec.get('shared_names'):
        tags.append('names_shared_between_nodes_and_links')
    pairs = {}
    for name, a, b, kind, l in _links(spec):
        pairs.setdefault(tuple(sorted((a, b))), []).append((name, a, b, kind, l))
    multi = [v for v in pairs.values() if len(v) > 1]
    if any(len(set((a, b) for _n, a, b, _k, _l in v)) > 1 for v in multi):
        tags.append('parallel_opposite_direction')
    if any(len(v) >= 3 for v in multi):
        tags.append('parallel_triple')
    if any(any(k != 'pipe' for _n, _a, _b, k, _l in v) for v in multi):
        tags.append('parallel_with_pump_or_valve')
    if min([j['elev'] for j in spec['junctions']] + [rs['head'] for rs in spec['reservoirs']]) < 0:
        tags.append('negative_datum')
    ctl = [c for c in spec.get('controls', []) if c['kind'] == 'time']
    if ctl:
        tags.append('time_controls')
        hyd = spec['opts']['hyd']
        if any(c['at'] % hyd for c in ctl):
            tags.append('control_off_grid')
        if any(c['at'] % hyd == 0 for c in ctl):
            tags.append('control_on_grid')
    return tags


def reduced_spec(spec, cut):
    """the rest of the network: cut-off junctions and every link touching them removed, controls of removed links
    dropped"""
    sp = copy.deepcopy(spec)
    sp['junctions'] = [j for j in sp['junctions'] if j['name'] not in cut]
    for k in ('pipes', 'pumps', 'valves'):
        sp[k] = [l for l in sp[k] if l['a'] not in cut and l['b'] not in cut]
    left = set(n for n, _a, _b, _k, _l in _links(sp))
    sp['controls'] = [c for c in sp.get('controls', []) if c['link'] in left]
    return sp


def open_twin(spec):
    sp = copy.deepcopy(spec)
    for p in sp['pipes']:
        p['status'] = 'OPEN'
    for p in sp['pumps']:
        p['status'] = 'OPEN'
    for v in sp['valves']:
        if v['status'] == 'CLOSED':
            v['status'] = 'ACTIVE'
    sp['controls'] = []
    return sp


_T_RE = re.compile(r'at time (\d+):(\d+):(\d+)')


def failure_time(run):
    for w in run.warnings:
        m = _T_RE.search(w)
        if m and ('did not converge' in w or 'maximum number of trials' in w):
            return int(m.group(1)) * 3600 + int(m.group(2)) * 60 + int(m.group(3))
    return None


def judge_rows(spec, run, tags):
    """per reported row: cut-off junctions zeroed, reachable ones not.  -> (failure or None, stats)"""
    links = _links(spec)
    stt = run.link['status']
    q = run.link['flowrate']
    dem = run.node['demand']
    prs = run.node['pressure']
    head = run.node['head']
    att = {}
    for name, a, b, _k, _l in links:
        att.setdefault(a, []).append(name)
        att.setdefault(b, []).append(name)
    pairs = {}
    for name, a, b, _k, _l in links:
        pairs.setdefault(tuple(sorted((a, b))), []).append(name)
    multi = [v for v in pairs.values() if len(v) > 1]
    stats = {'iso_rows': 0, 'reach_rows': 0, 'reconnect': 0, 'cut_again': 0, 'iso_junction_rows': 0}
    prev_cut = None
    reconnected_once = False
    jset = set(j['name'] for j in spec['junctions'])
    dd = spec['opts']['demand_model'] == 'DD'
    for k, t in enumerate(run.times):
        closed = set(n for n in stt if stt[n][k] == 0)
        reach = S.reachable_from_sources(spec, closed)
        cut = set()
        for j in spec['junctions']:
            n = j['name']
            if n in reach:
                stats['reach_rows'] += 1
                h, p = head[n][k], prs[n][k]
                if not abs(h - p - j['elev']) <= 1e-9 * (1.0 + abs(h)):
                    why = 'zeroed' if (h == 0 and p == 0) else 'inconsistent'
                    path = _path_to_source(spec, closed, n)
                    return (('connected_junction_%s' % why,
                             't=%s junction %s (elevation %s) has a path of non-closed links to a source (%s) but is reported '
                             'with head=%r pressure=%r demand=%r; reported statuses %s'
                             % (t, n, j['elev'], path, h, p, dem[n][k],
                                {m: int(stt[m][k]) for m in sorted(stt)})), stats)
                if dd:
                    want = S.expected_demand(spec, j, t)
                    got = dem[n][k]
                    if not abs(got - want) <= 1e-12 * max(1.0, abs(want)) + 1e-15:
                        why = 'zeroed' if got == 0 else 'wrong'
                        return (('connected_junction_demand_%s' % why,
                                 't=%s junction %s is connected to a source (%s) but reports demand %r, expected %r'
                                 % (t, n, _path_to_source(spec, closed, n), got, want)), stats)
            else:
                cut.add(n)
                stats['iso_junction_rows'] += 1
                if not abs(dem[n][k]) <= 1e-15:
                    return (('cut_off_junction_demand',
                             't=%s junction %s is cut off from every source (closed links %s) but reports demand %r'
                             % (t, n, sorted(closed), dem[n][k])), stats)
                if not abs(prs[n][k]) <= 1e-12:
                    return (('cut_off_junction_pressure',
                             't=%s junction %s is cut off from every source (closed links %s) but reports pressure %r '
                             '(head %r)' % (t, n, sorted(closed), prs[n][k], head[n][k])), stats)
                for ln in att.get(n, ()):
                    if not abs(q[ln][k]) <= ZQ:
                        return (('cut_off_junction_flow',
                                 't=%s junction %s is cut off from every source (closed links %s) but its link %s '
                                 'reports flow %r' % (t, n, sorted(closed), ln, q[ln][k])), stats)
        if cut:
            stats['iso_rows'] += 1
            tags.add('row:cut_off_junction')
            us = user_status_at(spec, t)
            ucut_now = S.reachable_from_sources(spec, set(n for n, v in us.items() if v == 'CLOSED'))
            if any(n in ucut_now for n in cut):
                tags.add('row:cut_off_by_internal_closure')   # check valve / pump / valve / tank-limit logic closed it
            if len(cut) == len(spec['junctions']):
                tags.add('row:every_junction_cut_off')
            for v in multi:
                if all(m in closed for m in v):
                    tags.add('row:parallel_pair_all_closed')
        for v in multi:
            c = sum(1 for m in v if m in closed)
            if 0 < c < len(v):
                tags.add('row:parallel_pair_partly_closed')
        if prev_cut is not None:
            if prev_cut - cut:
                stats['reconnect'] += 1
                tags.add('row:reconnected')
                reconnected_once = True
            if cut - prev_cut:
                stats['cut_again'] += 1
                tags.add('row:cut_during_run')
        prev_cut = cut
        if reconnected_once:
            # 'reconnecting an isolated part restores normal results': from the first reconnection on, every plain pipe
            # that is reported open between two nodes with a path to a source carries the flow that its head loss says
            # (Hazen-Williams + minor loss; law and tolerances of refs/c02_laws.py)
            for name, a, b, kind, l in links:
                if kind != 'pipe' or l.get('cv') or stt[name][k] == 0:
                    continue
                if (a in jset and a not in reach) or (b in jset and b not in reach):
                    continue
                K_, m_ = LAW.pipe_K(l['len'], l['diam'], l['C']), LAW.minor_r(l.get('minor', 0.0), l['diam'])
                dh = float(head[a][k]) - float(head[b][k])
                qk = float(q[name][k])
                loss = LAW.pipe_loss(qk, K_, m_)
                # coarse on purpose (C02 owns the exact law incl. the smoothing of small flows): 5 cm + 5 %
                tol = 0.05 + 0.05 * max(abs(dh), abs(loss))
                if not abs(dh - loss) <= tol:
                    tags.add('row:law_checked_after_reconnection')
                    return (('after_reconnection/open_pipe_off_its_law',
                             't=%s pipe %s (%s -> %s) is reported open between connected nodes with heads %r and %r (difference '
                             '%.6g m) but carries %r m3/s, whose head loss is %.6g m; a part of the network had been '
                             'reconnected before' % (t, name, a, b, head[a][k], head[b][k], dh, q[name][k], loss)), stats)
            tags.add('row:law_checked_after_reconnection')
    return None, stats


def _path_to_source(spec, closed, target):
    """one witness path (link names) from target to a source over non-closed links (own BFS)"""
    adj = {}
    for name, a, b, _k, _l in _links(spec):
        if name in closed:
            continue
        adj.setdefault(a, []).append((b, name))
        adj.setdefault(b, []).append((a, name))
    src = set(n['name'] for n in spec['tanks'] + spec['reservoirs'])
    prev = {target: None}
    todo = [target]
    while todo:
        x = todo.pop(0)
        if x in src:
            out = []
            while prev[x] is not None:
                x, ln = prev[x]
                out.append(ln)
            return 'via ' + '-'.join(reversed(out)) if out else 'source'
        for y, ln in sorted(adj.get(x, ())):
            if y not in prev:
                prev[y] = (x, ln)
                todo.append(y)
    return 'no path'


def _build(spec):
    wn = S.build_wn(spec)
    wn.reset_initial_values()      # add_valve/add_pump only store initial_status; this applies it to the first run
    return wn


def check_sim(case):
    spec = case['net']
    tags = set(sim_tags(spec))
    try:
        wn = _build(spec)
    except Exception as e:
        return fail(exc_bucket(e, 'build'), 'building the model raised %r' % e, tags)
    ucut = user_cut_sets(spec)
    if any(ucut.values()):
        tags.add('user_closures_cut_something')
    hw = spec['opts']['hw_approx']
    pause = case.get('pause')
    dur = spec['opts']['duration']
    parts = [dur]
    if pause and 0 < pause < dur:
        parts = [int(pause), dur]
        tags.add('paused_and_continued')
    stats = {}
    for pi, until in enumerate(parts):
        # a continuation uses a new simulator object on the same model (sim_time, statuses, flags are model state)
        wn.options.time.duration = until
        run = S.run_wntr(wn, hw_approx=hw)
        where = '' if len(parts) == 1 else ' [part %d of a run paused at t=%s]' % (pi + 1, parts[0])
        if run.exception is not None:
            e = run.exception
            if not any(ucut.values()):
                return inconclusive('run_sim raised %s, nothing cut off by user closures' % type(e).__name__, tags)
            twin = S.run_wntr(_build(open_twin(spec)), hw_approx=hw)
            if twin.exception is not None and type(twin.exception) is type(e):
                return inconclusive('run_sim raised %s, also with all links open' % type(e).__name__, tags)
            return fail(exc_bucket(e, 'raises_with_cut_off_part'),
                        'run_sim raised %r while junctions %s are cut off by closed links; the same network with all '
                        'links open and no controls does not raise%s'
                        % (e, {t: sorted(v) for t, v in ucut.items() if v}, where), tags)
        if len(run.times) == 0:
            if pi == 0 or not run.ok:
                return _judge_stopped_run(spec, run, ucut, hw, tags, len(parts) > 1, wn)
            continue
        bad, st_ = judge_rows(spec, run, tags)
        for k, v in st_.items():
            stats[k] = stats.get(k, 0) + v
        if bad:
            return fail(bad[0], bad[1] + where, tags)
        bal = balance_check(spec, run, tags)
        if bal:
            return fail(bal[0], bal[1] + ' [user-level cut sets %s]%s'
                        % ({t: sorted(v) for t, v in ucut.items() if v}, where), tags)
        if not run.ok:
            return _judge_stopped_run(spec, run, ucut, hw, tags, len(parts) > 1, wn)
    rerun = case.get('rerun')
    if rerun and len(parts) == 1:
        # history: the run above ended (possibly with a part cut off); reset_initial_values(); simulate again with a new or
        # with the same simulator object.  Whatever the first run left behind must not make connected junctions zero.
        tags.add('rerun_after_reset:' + rerun)
        wn.reset_initial_values()
        run2 = S.run_wntr(wn, hw_approx=hw, sim=run.sim if rerun == 'same' else None)
        where = ' [second run after reset_initial_values(), %s simulator object]' % rerun
        if run2.exception is not None:
            return fail(exc_bucket(run2.exception, 'rerun_raises'), 'the first run completed, the second raised %r%s'
                        % (run2.exception, where), tags)
        if len(run2.times) == 0 or not run2.ok:
            if run.ok:
                return fail('rerun_stops', 'the first run completed, the second stopped (%s)%s' % (run2.warnings[-1:], where), tags)
            return inconclusive('second run did not converge either', tags)
        bad, st_ = judge_rows(spec, run2, tags)
        if bad:
            return fail('rerun/' + bad[0], bad[1] + where, tags)
        bal = balance_check(spec, run2, tags)
        if bal:
            return fail('rerun/' + bal[0], bal[1] + where, tags)
    nontrivial = stats.get('iso_junction_rows', 0) > 0 and stats.get('reach_rows', 0) > 0
    return passed(nontrivial, tags)


def _closing_kinds(spec, cut, tf, wn=None):
    """kinds of the links that separate the cut-off part without being closed by the user-level statuses, i.e. the
    links whose own status logic (check valve, pump, regulating valve, tank limits) takes part in the cut"""
    kinds = set()
    tanks = set(t['name'] for t in spec['tanks'])
    us = user_status_at(spec, tf)
    for name, a, b, kind, l in _links(spec):
        if (a in cut) == (b in cut) or us[name] == 'CLOSED':
            continue
        if kind == 'pipe':
            k = 'cv' if l.get('cv') else ('tank_link' if (a in tanks or b in tanks) else 'pipe')
            if k == 'tank_link' and wn is not None:      # which limit of the tank is involved
                tk = [t for t in spec['tanks'] if t['name'] in (a, b)][0]
                try:
                    lvl = float(wn.get_node(tk['name']).head) - tk['elev']
                    k = 'tank_link_full' if lvl >= tk['max'] - 1e-3 else ('tank_link_empty' if lvl <= tk['min'] + 1e-3 else k)
                except Exception:
                    pass
        elif kind == 'valve':
            k = l['type'].lower()
        else:
            k = 'pump'
        kinds.add(k)
    return sorted(kinds)


def _judge_stopped_run(spec, run, ucut, hw, tags, paused=False, wn0=None):
    """A run that stopped early: is it only because a part is cut off?

    The run is repeated with every step reported.  C = the junctions that were cut off in the last solved trial
    (the model's isolation flags) or are cut off by the link statuses the model is left with (own BFS); in a
    status flip-flop these are the two alternating states.  If C was cut off in every reported row before the
    failure, the rest of the network (C and its links removed) has had the same history and poses the same
    equations, so it must be solved whenever the rest alone is: the rest alone has to converge for the whole
    duration, take the same steps up to the failure and solve the failing instant."""
    tags.add('not_converged')
    if failure_time(run) is None:
        return inconclusive('not converged (no failure time)', tags)
    full = copy.deepcopy(spec)     # (a paused run is judged by its uninterrupted twin)
    full['opts']['rep'] = 'ALL'
    if spec['opts']['rep'] == 'ALL' and not paused and wn0 is not None:
        wn, rf = wn0, run
    else:
        wn = _build(full)
        rf = S.run_wntr(wn, hw_approx=hw)
    tf = failure_time(rf) if rf.exception is None else None
    if rf.exception is not None or rf.ok or tf is None:
        return inconclusive('not converged (not reproduced with every step reported)', tags)
    msg = '; '.join(w for w in rf.warnings if 'converge' in w or 'trials' in w)[:200]
    kind = 'max_trials' if 'trials' in msg else 'solver'
    jn = [j['name'] for j in spec['junctions']]
    try:
        closed = set(n for n, _a, _b, _k, _l in _links(spec) if int(wn.get_link(n).status) == 0)
        flagged = set(n for n in jn if getattr(wn.get_node(n), '_is_isolated', False))
    except Exception as e:
        return inconclusive('not converged (model state not readable: %s)' % type(e).__name__, tags)
    reach = S.reachable_from_sources(spec, closed)
    cut = set(n for n in jn if n not in reach) | flagged
    if not cut:
        return inconclusive('not converged, nothing cut off (reported prefix satisfied the oracle)', tags)
    tags.add('not_converged_with_cut_off_part')
    stt = rf.link['status'] if len(rf.times) else {}
    for k in range(len(rf.times)):
        r_k = S.reachable_from_sources(spec, set(n for n in stt if stt[n][k] == 0))
        if any(n in r_k for n in cut):
            return inconclusive('not converged, cut-off part changes before the failure (reported prefix satisfied '
                                'the oracle)', tags)
    if len(cut) == len(jn):
        before = [float(t) for t in rf.times]
        rest = 'no junction is left to solve'
        if kind == 'solver':
            return inconclusive('Newton did not converge with every junction cut off', tags)
    else:
        red = reduced_spec(full, cut)
        rr = S.run_wntr(_build(red), hw_approx=hw)
        if rr.exception is not None or not rr.ok:
            return inconclusive('not converged, the rest alone does not converge either', tags)
        before = [float(t) for t in rr.times if t < tf]
        if [float(t) for t in rf.times] != before or tf not in list(rr.times):
            return inconclusive('not converged, the rest alone takes other steps', tags)
        rest = ('the same network without these junctions and their links takes the same steps, solves t=%s and '
                'converges for the whole duration' % tf)
    kinds = _closing_kinds(spec, cut, tf, wn)
    if kind == 'solver':
        # Newton started from the solution of the previous trial / step; the rest alone starts cold.  That is a
        # difference of the numerical start, not of the isolation logic: not decidable from outside.
        return inconclusive('Newton did not converge with a part cut off, the rest alone converges from a cold start',
                            tags)
    order = ['cv', 'pump', 'prv', 'psv', 'fcv', 'tank_link_empty', 'tank_link_full', 'tank_link']
    main = ([k for k in order if k in kinds] or ['user_closed'])[0]
    return fail('rest_not_solved/%s/%s' % (kind, main),
                'the run stopped at t=%s (%s) while junctions %s are cut off from every source (cut off in every '
                'reported row before, steps %s; links separating them that the user-level statuses leave open: %s; '
                'statuses left in the model: closed %s); %s'
                % (tf, msg, sorted(cut), before, kinds, sorted(closed), rest), tags)


# ----------------------------------------------------------------------------------------- sim generator
@st.composite
def sim_case(draw, tier='quick'):
    feat = dict(FEAT)
    if tier == 'thorough':
        feat['nj'] = (2, 14)
        feat['max_extra_links'] = 5
    spec = draw(netgen.network(feat))
    o = spec['opts']
    if draw(st.integers(0, 3)) != 0:
        o['rep'] = 'ALL'
    hyd = o['hyd']
    for j in spec['junctions']:
        if abs(j['elev']) < 0.5:
            j['elev'] = 0.5
    # keep ordinary non-convergence rare: most power pumps become head pumps, most PSVs become TCVs
    qtot = sum(d[0] for j in spec['junctions'] for d in j['demands'])
    for p in spec['pumps']:
        if p['type'] == 'POWER' and draw(st.integers(0, 15)) != 0:
            cname = 'HC%d' % (len(spec['curves']) + 1)
            spec['curves'][cname] = {'type': 'HEAD', 'pts': [[_r(max(qtot * 1.5, 0.003), 5), 70.0]]}
            p.update(type='HEAD', power=None, curve=cname)
    for v in spec['valves']:
        if v['type'] == 'PSV' and draw(st.integers(0, 2)) != 0:
            v.update(type='TCV', setting=draw(st.sampled_from([0.0, 1.0, 5.0])))
    jn = [j['name'] for j in spec['junctions']]
    tn = set(n['name'] for n in spec['tanks'] + spec['reservoirs'])
    used = set(n for n, _a, _b, _k, _l in _links(spec))
    cnt = [0]

    def newname(prefix):
        while True:
            cnt[0] += 1
            nm = '%s9%02d' % (prefix, cnt[0])
            if nm not in used:
                used.add(nm)
                return nm

    def pipe(a, b, cv=False):
        return {'name': newname('L'), 'a': a, 'b': b, 'len': _r(draw(st.floats(20, 600)), 1),
                'diam': draw(st.sampled_from([0.1, 0.15, 0.2, 0.3])), 'C': _r(draw(st.floats(70, 140)), 1),
                'minor': draw(st.sampled_from([0.0, 0.0, 1.0])), 'status': 'OPEN', 'cv': cv}

    # dead-end branches (a new junction behind one pipe, sometimes two in a row)
    for _ in range(draw(st.integers(0, 2))):
        at = jn[draw(st.integers(0, len(jn) - 1))]
        for _k in range(draw(st.sampled_from([1, 1, 2]))):
            nm = 'J%d' % (len(spec['junctions']) + 1)
            spec['junctions'].append({'name': nm, 'elev': _r(draw(st.floats(0.5, 20)), 2),
                                      'demands': [[draw(st.sampled_from([0.001, 0.0005, 0.002, 0.0])), None, None]]})
            a, b = (at, nm) if draw(st.booleans()) else (nm, at)
            z = draw(st.integers(0, 11))
            if z == 4 and at not in tn and nm not in tn:      # a regulating valve, possibly pointing out of the dead end
                vt = draw(st.sampled_from(['PRV', 'PSV', 'FCV']))
                spec['valves'].append({'name': newname('V'), 'a': a, 'b': b, 'type': vt, 'diam': 0.2, 'minor': 0.0,
                                       'setting': 0.001 if vt == 'FCV' else draw(st.sampled_from([10.0, 25.0, 50.0])),
                                       'status': 'ACTIVE'})
            elif z == 0:      # a small booster, possibly pointing out of the dead end
                cname = 'HC%d' % (len(spec['curves']) + 1)
                spec['curves'][cname] = {'type': 'HEAD', 'pts': [[0.004, draw(st.sampled_from([10.0, 30.0]))]]}
                spec['pumps'].append({'name': newname('PU'), 'a': a, 'b': b, 'type': 'HEAD', 'power': None,
                                      'curve': cname, 'status': 'OPEN'})
            else:           # a pipe, every fourth with a check valve in either direction
                spec['pipes'].append(pipe(a, b, cv=z in (1, 2, 3)))
            jn.append(nm)
            at = nm
    # datum: the whole network lowered below the reference level (elevations and heads negative)
    shift = draw(st.sampled_from([0.0, 0.0, 0.0, -45.0, -130.0]))
    if shift:
        for j in spec['junctions']:
            j['elev'] = _r(j['elev'] + shift, 2)
            if abs(j['elev']) < 0.5:
                j['elev'] = -0.5
        for t in spec['tanks']:
            t['elev'] = _r(t['elev'] + shift, 2)
        for rs in spec['reservoirs']:
            rs['head'] = _r(rs['head'] + shift, 2)
            rs['pat'] = None
    # parallel links
    for _ in range(draw(st.integers(0, 3))):
        ls = _links(spec)
        _n, a, b, kind, _l = ls[draw(st.integers(0, len(ls) - 1))]
        if kind != 'pipe' and draw(st.integers(0, 2)) != 0:
            continue
        if draw(st.booleans()):
            a, b = b, a
        spec['pipes'].append(pipe(a, b, cv=draw(st.integers(0, 7)) == 0))
    # random initially closed pipes
    for p in spec['pipes']:
        if draw(st.integers(0, 7)) == 0:
            p['status'] = 'CLOSED'
    # targeted closures / schedules
    pairs = {}
    for name, a, b, kind, l in _links(spec):
        pairs.setdefault(tuple(sorted((a, b))), []).append(name)
    multi = sorted(v for v in pairs.values() if len(v) > 1)
    jset = set(jn)
    bridges = [p['name'] for p in spec['pipes'] if p['a'] in jset and p['b'] in jset]
    by_name = dict((n, (k, l)) for n, _a, _b, k, l in _links(spec))
    dur = o['duration']
    nsteps = dur // hyd

    def instant():
        if nsteps == 0:
            return 0
        k = draw(st.integers(0, nsteps))
        z = draw(st.integers(0, 3))
        if z == 0 and k < nsteps:
            return k * hyd + draw(st.sampled_from([1, 60, 77, hyd // 2, hyd - 1]))
        return k * hyd

    sched = {}      # (link, at) -> value

    def toggle(link, n):
        kind, l = by_name[link]
        cur = l['status']
        times = sorted(set(instant() for _ in range(n)))
        for t in times:
            if t == 0 and dur > 0 and draw(st.booleans()):
                continue
            if cur == 'CLOSED':
                cur = draw(st.sampled_from(['OPEN', 'ACTIVE'])) if kind == 'valve' else 'OPEN'
            else:
                cur = 'CLOSED'
            sched[(link, t)] = cur

    for _ in range(draw(st.integers(0, 2))):
        z = draw(st.integers(0, 2))
        if z == 0 and bridges:
            ln = bridges[draw(st.integers(0, len(bridges) - 1))]
            if draw(st.booleans()):
                by_name[ln][1]['status'] = 'CLOSED'
            toggle(ln, draw(st.integers(0, 3)))
        elif z == 1 and multi:
            v = multi[draw(st.integers(0, len(multi) - 1))]
            how = draw(st.sampled_from(['one', 'all', 'staggered']))
            if how == 'one':
                ln = v[draw(st.integers(0, len(v) - 1))]
                by_name[ln][1]['status'] = 'CLOSED'
                toggle(ln, draw(st.integers(0, 2)))
            elif how == 'all':
                for ln in v:
                    by_name[ln][1]['status'] = 'CLOSED'
                toggle(v[draw(st.integers(0, len(v) - 1))], draw(st.integers(0, 2)))
            else:
                for ln in v:
                    by_name[ln][1]['status'] = 'OPEN' if by_name[ln][0] != 'valve' else by_name[ln][1]['status']
                    toggle(ln, draw(st.integers(1, 3)))
        else:
            ls = _links(spec)
            ln = ls[draw(st.integers(0, len(ls) - 1))][0]
            toggle(ln, draw(st.integers(1, 3)))
    for _ in range(draw(st.integers(0, 2))):
        ls = _links(spec)
        toggle(ls[draw(st.integers(0, len(ls) - 1))][0], draw(st.integers(1, 3)))
    spec['controls'] = [{'kind': 'time', 'at': t, 'link': ln, 'attr': 'status', 'value': v}
                        for (ln, t), v in sorted(sched.items(), key=lambda kv: (kv[0][1], kv[0][0]))]
    if draw(st.integers(0, 3)) == 0:
        S.share_names(spec, draw(st.integers(0, 50)))      # junction '3' and pipe '3' coexist (EPANET-style numbering)
    case = {'mode': 'sim', 'net': spec}
    if nsteps >= 2 and draw(st.integers(0, 4)) == 0:
        case['pause'] = hyd * draw(st.integers(1, nsteps - 1))
    elif draw(st.integers(0, 3)) == 0:
        case['rerun'] = draw(st.sampled_from(['new', 'same']))
    return case


# ===================================================================================================== graph mode
STATUS_NAMES = ['CLOSED', 'OPEN', 'ACTIVE']


def graph_reach(n, sources, links, status):
    """own BFS: set of node ids reachable from the sources over links whose status is not CLOSED"""
    adj = [[] for _ in range(n)]
    for i, (a, b, _s, _k) in enumerate(links):
        if status[i] != 'CLOSED':
            adj[a].append(b)
            adj[b].append(a)
    seen = set(sources)
    todo = list(seen)
    while todo:
        x = todo.pop()
        for y in adj[x]:
            if y not in seen:
                seen.add(y)
                todo.append(y)
    return seen


def graph_tags(case):
    tags = ['mode:graph', 'via:' + case['via']]
    pairs = {}
    for a, b, s, k in case['links']:
        pairs.setdefault((min(a, b), max(a, b)), []).append((a, b, s))
    if any(len(v) > 1 for v in pairs.values()):
        tags.append('parallel_links')
    if any(len(v) > 2 for v in pairs.values()):
        tags.append('parallel_triple')
    if any(len(set((a, b) for a, b, _s in v)) > 1 for v in pairs.values()):
        tags.append('parallel_opposite_direction')
    if any(len(v) > 1 and len(set(s == 'CLOSED' for _a, _b, s in v)) > 1 for v in pairs.values()):
        tags.append('parallel_pair_partly_closed')
    if any(len(v) > 1 and all(s == 'CLOSED' for _a, _b, s in v) for v in pairs.values()):
        tags.append('parallel_pair_all_closed')
    if len(case['sources']) > 1:
        tags.append('multi_source')
    if case.get('rounds'):
        tags.append('status_changes')
    if any(k == 'valve' for _a, _b, _s, k in case['links']):
        tags.append('valves')
    return tags


def _normalise_graph(case):
    """plain data -> (n, sources, links) with every index taken modulo what exists; None if degenerate"""
    n = int(case['n'])
    sources = sorted(set(int(s) % n for s in case['sources']))
    links = []
    for a, b, s, k in case['links']:
        a, b = int(a) % n, int(b) % n
        if a == b:
            b = (a + 1) % n
        if k != 'valve' and s == 'ACTIVE':
            s = 'OPEN'
        links.append((a, b, s, k))
    return n, sources, links


def check_graph(case):
    import numpy as np
    n, sources, links = _normalise_graph(case)
    tags = set(graph_tags(case))
    deg = [0] * n
    for a, b, _s, _k in links:
        deg[a] += 1
        deg[b] += 1
    if n < 2 or not sources or len(sources) == n or not all(deg):
        return passed(False, tags | {'degenerate'})
    status = [s for _a, _b, s, _k in links]
    rounds = [[]] + [list(r) for r in case.get('rounds', [])]
    if case['via'] == 'csr':
        from wntr.sim.network_isolation import check_for_isolated_junctions, get_long_size
        dt = np.int64 if get_long_size() == 8 else np.int32
        order = case.get('order', [])
        runner = None
    else:
        try:
            runner = _WnGraph(n, sources, links, rounds)
        except AttributeError:
            raise       # the private sequence of run_sim this variant drives has changed: a harness matter
        except Exception as e:
            return fail(exc_bucket(e, 'graph_setup'), 'setting up the simulator adjacency for %r raised %r' % (case, e), tags)
    some_cut = some_reached = False
    for ri, rnd in enumerate(rounds):
        for li, s in rnd:
            li = int(li) % len(links)
            if links[li][3] != 'valve' and s == 'ACTIVE':
                s = 'OPEN'
            status[li] = s
        want = graph_reach(n, sources, links, status)
        try:
            if runner is None:
                got = _csr_search(np, dt, check_for_isolated_junctions, n, sources, links, status, order)
            else:
                got = runner.step(ri, status)
        except AssertionError:
            raise       # bookkeeping of this harness disagrees with the model: a harness matter
        except Exception as e:
            return fail(exc_bucket(e, 'graph_search'), 'round %d of %r raised %r' % (ri, case, e), tags)
        iso_want = [i for i in range(n) if i not in want]
        if got != iso_want:
            kind = 'false_isolation' if set(got) - set(iso_want) else 'missed_isolation'
            par = 'parallel' if _involves_parallel(links, status, set(got) ^ set(iso_want)) else 'simple'
            return fail('graph/%s/%s/%s' % (case['via'], kind, par),
                        'round %d: nodes flagged isolated %s, own BFS says %s; n=%d sources=%s links(a,b,status)=%s'
                        % (ri, got, iso_want, n, sources, [(a, b, status[i]) for i, (a, b, _s, _k) in enumerate(links)]),
                        tags)
        if iso_want:
            some_cut = True
        if len(want) > len(sources):
            some_reached = True
    if some_cut:
        tags.add('row:cut_off_junction')
    return passed(some_cut and some_reached, tags)


def _involves_parallel(links, status, nodes):
    pairs = {}
    for a, b, _s, _k in links:
        pairs[(min(a, b), max(a, b))] = pairs.get((min(a, b), max(a, b)), 0) + 1
    return any(c > 1 and (p[0] in nodes or p[1] in nodes) for p, c in pairs.items())


def _csr_search(np, dt, search, n, sources, links, status, order):
    """the adjacency as the simulator keeps it: one entry per ordered node pair, flag 1 iff some link is not closed"""
    flag = {}
    for i, (a, b, _s, _k) in enumerate(links):
        v = 0 if status[i] == 'CLOSED' else 1
        flag[(a, b)] = max(flag.get((a, b), 0), v)
        flag[(b, a)] = max(flag.get((b, a), 0), v)
    rows = [[] for _ in range(n)]
    for (a, b) in sorted(flag):
        rows[a].append(b)
    # optional deterministic permutation inside the rows (the search must not depend on column order)
    for i, r in enumerate(rows):
        if order and len(r) > 1:
            k = order[i % len(order)] % len(r)
            rows[i] = r[k:] + r[:k]
    indptr = [0]
    indices = []
    data = []
    for a, r in enumerate(rows):
        for b in r:
            indices.append(b)
            data.append(flag[(a, b)])
        indptr.append(len(indices))
    ncon = [indptr[i + 1] - indptr[i] for i in range(n)]
    ind = np.ones(n, dtype=dt)
    search(np.array(sources, dtype=dt), ind, np.array(indptr, dtype=dt), np.array(indices, dtype=dt),
           np.array(data, dtype=dt), np.array(ncon, dtype=dt))
    return [i for i in range(n) if ind[i] == 1]


class _WnGraph(object):
    """a WaterNetworkModel whose adjacency is maintained by the simulator's own graph code (no hydraulic solve)"""

    def __init__(self, n, sources, links, rounds):
        import wntr
        from wntr.network import LinkStatus
        from wntr.network.controls import Control, ControlAction
        from wntr.sim import core
        self.n = n
        src = set(sources)
        wn = wntr.network.WaterNetworkModel()
        self.names = {}
        nj = 0
        for i in range(n):
            if i not in src:
                self.names[i] = 'N%d' % i
                wn.add_junction(self.names[i], base_demand=0.001, elevation=5.0)
        for k, i in enumerate(sources):       # alternate tanks and reservoirs
            self.names[i] = 'N%d' % i
            if k % 2:
                wn.add_tank(self.names[i], elevation=30.0, init_level=3.0, min_level=0.0, max_level=6.0, diameter=5.0)
            else:
                wn.add_reservoir(self.names[i], base_head=50.0)
        to = {'CLOSED': LinkStatus.Closed, 'OPEN': LinkStatus.Open, 'ACTIVE': LinkStatus.Active}
        self.to = to
        for i, (a, b, s, kind) in enumerate(links):
            if kind == 'valve':
                wn.add_valve('K%d' % i, self.names[a], self.names[b], diameter=0.2, valve_type='TCV', minor_loss=0.0,
                             initial_setting=1.0, initial_status=s)
            else:
                wn.add_pipe('K%d' % i, self.names[a], self.names[b], length=100.0, diameter=0.2, roughness=100.0,
                            initial_status=s)
        self.ctl = {}
        c = 0
        for ri, rnd in enumerate(rounds):
            for li, s in rnd:
                li = int(li) % len(links)
                if links[li][3] != 'valve' and s == 'ACTIVE':
                    s = 'OPEN'
                key = (li, s)
                if key not in self.ctl:
                    act = ControlAction(wn.get_link('K%d' % li), 'status', to[s])
                    ctl = Control._time_control(wn, 1000 + c, 'SIM_TIME', False, act)
                    wn.add_control('c%d' % c, ctl)
                    c += 1
                    self.ctl[key] = act
        self.links = links
        self.rounds = rounds
        self.wn = wn
        wn.reset_initial_values()      # add_valve/add_pump only store initial_status; this applies it
        sim = wntr.sim.WNTRSimulator(wn)
        # the sequence of run_sim up to the first solve, without the hydraulic model
        sim._valve_source_checker = core._ValveSourceChecker(wn)
        sim._get_control_managers()
        sim._register_controls_with_observers()
        sim._initialize_internal_graph()
        sim._change_tracker.set_reference_point('graph')
        self.sim = sim

    def step(self, ri, status):
        import numpy as np
        from wntr.sim.network_isolation import check_for_isolated_junctions
        sim = self.sim
        for li, s in self.rounds[ri]:
            li = int(li) % len(self.links)
            if self.links[li][3] != 'valve' and s == 'ACTIVE':
                s = 'OPEN'
            self.ctl[(li, s)].run_control_action()
        # the bookkeeping of this harness and the model must agree on the statuses, else the comparison is void
        for i in range(len(self.links)):
            if self.wn.get_link('K%d' % i).status != self.to[status[i]]:
                raise AssertionError('harness: status of link %d is %s, expected %s'
                                     % (i, self.wn.get_link('K%d' % i).status, status[i]))
        sim._update_internal_graph()
        g = sim._internal_graph
        ind = np.ones(self.wn.num_nodes, dtype=sim._int_dtype)
        check_for_isolated_junctions(sim._source_ids, ind, g.indptr, g.indices, g.data, sim._number_of_connections)
        inv = dict((sim._node_name_to_id[nm], i) for i, nm in self.names.items())
        return sorted(inv[k] for k in range(len(ind)) if ind[k] == 1)


@st.composite
def graph_case(draw, tier='quick'):
    n = draw(st.integers(2, 12 if tier == 'quick' else 30))
    ns = draw(st.integers(1, min(3, n - 1)))
    sources = draw(st.lists(st.integers(0, n - 1), min_size=ns, max_size=ns, unique=True))
    links = []
    via = draw(st.sampled_from(['csr', 'wn']))
    p_closed = draw(st.sampled_from([1, 2, 3, 5]))

    def stat():
        z = draw(st.integers(0, 9))
        return 'CLOSED' if z < p_closed else ('ACTIVE' if z == 9 else 'OPEN')

    # every node gets a link (a random tree over a random order), then extras and parallels
    for i in range(1, n):
        a, b = draw(st.integers(0, i - 1)), i
        if draw(st.booleans()):
            a, b = b, a
        links.append([a, b, stat(), 'pipe'])
    for _ in range(draw(st.integers(0, min(8, n)))):
        z = draw(st.integers(0, 2))
        if z == 0 or n == 2:
            k = draw(st.integers(0, len(links) - 1))
            a, b = links[k][0], links[k][1]
            if draw(st.booleans()):
                a, b = b, a
        else:
            a = draw(st.integers(0, n - 1))
            b = (a + draw(st.integers(1, n - 1))) % n
        links.append([a, b, stat(), draw(st.sampled_from(['pipe', 'pipe', 'pipe', 'valve']))])
    rounds = []
    for _ in range(draw(st.integers(0, 4))):
        rounds.append([[draw(st.integers(0, len(links) - 1)), draw(st.sampled_from(STATUS_NAMES))]
                       for _k in range(draw(st.integers(1, 3)))])
    case = {'mode': 'graph', 'via': via, 'n': n, 'sources': sources, 'links': links, 'rounds': rounds}
    if via == 'csr':
        case['order'] = draw(st.lists(st.integers(0, 3), min_size=0, max_size=4))
    return case


# ===================================================================================================== interface
def strategy(tier='quick'):
    return st.integers(0, SIM_SHARE - 1).flatmap(lambda z: sim_case(tier) if z == SIM_SHARE - 1 else graph_case(tier))


def check(case):
    if case.get('mode') == 'graph':
        return check_graph(case)
    return check_sim(case)


def _opts(dur, hyd, rep='ALL', pdd=False):
    return {'duration': dur, 'hyd': hyd, 'pat': 3600, 'rep': rep, 'rule': 3600, 'pattern_start': 0,
            'start_clocktime': 0, 'dm': 1.0, 'demand_model': 'PDD' if pdd else 'DD', 'pmin': 0.0,
            'preq': 10.0 if pdd else 0.07, 'pexp': 0.5, 'hw_approx': 'default'}


def _pipe(name, a, b, status='OPEN', cv=False, diam=0.3):
    return {'name': name, 'a': a, 'b': b, 'len': 200.0, 'diam': diam, 'C': 100.0, 'minor': 0.0, 'status': status, 'cv': cv}


def _junction(name, elev, base=0.002, pat=None):
    return {'name': name, 'elev': elev, 'demands': [[base, pat, None]]}


def _ctl(at, link, value):
    return {'kind': 'time', 'at': at, 'link': link, 'attr': 'status', 'value': value}


def _base(opts):
    return {'opts': opts, 'patterns': {'P1': [1.0, 0.6, 1.4]}, 'curves': {}, 'junctions': [], 'tanks': [], 'reservoirs': [],
            'pipes': [], 'pumps': [], 'valves': [], 'controls': [], 'profile': 'sane'}


def hand_built():
    """the scenarios the statement names, as fixed specs"""
    out = []
    for pdd in (False, True):
        for rep in ('ALL', 3600):
            # R1 - J1 = J2 (two parallel pipes, opposite directions) - J3 ; close one, then the other, reopen off-grid
            s = _base(_opts(6 * 3600, 3600, rep, pdd))
            s['reservoirs'] = [{'name': 'R1', 'head': 60.0, 'pat': None}]
            s['junctions'] = [_junction('J1', 10.0), _junction('J2', 12.0, pat='P1'), _junction('J3', 5.0)]
            s['pipes'] = [_pipe('L1', 'R1', 'J1'), _pipe('L2', 'J1', 'J2'), _pipe('L3', 'J2', 'J1'), _pipe('L4', 'J2', 'J3')]
            s['controls'] = [_ctl(3600, 'L2', 'CLOSED'), _ctl(2 * 3600, 'L3', 'CLOSED'), _ctl(3 * 3600 + 600, 'L2', 'OPEN'),
                             _ctl(4 * 3600, 'L3', 'OPEN'), _ctl(5 * 3600, 'L2', 'CLOSED')]
            out.append(s)
    # dead end cut off from the start and reconnected off the grid; a tank is the only other source
    s = _base(_opts(4 * 3600, 1800))
    s['reservoirs'] = [{'name': 'R1', 'head': 50.0, 'pat': None}]
    s['tanks'] = [{'name': 'T1', 'elev': 35.0, 'init': 3.0, 'min': 0.0, 'max': 6.0, 'diam': 8.0, 'min_vol': 0.0, 'vol_curve': None}]
    s['junctions'] = [_junction('J1', 10.0), _junction('J2', 8.0), _junction('J3', 3.0)]
    s['pipes'] = [_pipe('L1', 'R1', 'J1'), _pipe('L2', 'J1', 'T1'), _pipe('L3', 'J1', 'J2', 'CLOSED'), _pipe('L4', 'J3', 'J2')]
    s['controls'] = [_ctl(3600 + 77, 'L3', 'OPEN'), _ctl(3 * 3600, 'L3', 'CLOSED')]
    out.append(s)
    # the only feed closes: everything is cut off for two hours, the tank-fed variant keeps a part alive
    s = _base(_opts(4 * 3600, 3600))
    s['reservoirs'] = [{'name': 'R1', 'head': 50.0, 'pat': None}]
    s['junctions'] = [_junction('J1', 10.0), _junction('J2', 8.0)]
    s['pipes'] = [_pipe('L1', 'R1', 'J1'), _pipe('L2', 'J1', 'J2')]
    s['controls'] = [_ctl(3600, 'L1', 'CLOSED'), _ctl(3 * 3600, 'L1', 'OPEN')]
    out.append(s)
    # valve between two zones: closed, then active again
    s = _base(_opts(4 * 3600, 3600))
    s['reservoirs'] = [{'name': 'R1', 'head': 70.0, 'pat': None}]
    s['junctions'] = [_junction('J1', 10.0), _junction('J2', 8.0), _junction('J3', 6.0)]
    s['pipes'] = [_pipe('L1', 'R1', 'J1'), _pipe('L3', 'J2', 'J3')]
    s['valves'] = [{'name': 'V2', 'a': 'J1', 'b': 'J2', 'type': 'PRV', 'diam': 0.3, 'minor': 0.0, 'setting': 30.0,
                    'status': 'ACTIVE'}]
    s['controls'] = [_ctl(3600, 'V2', 'CLOSED'), _ctl(2 * 3600 + 1, 'V2', 'ACTIVE'), _ctl(3 * 3600, 'V2', 'CLOSED')]
    out.append(s)
    # pump outage: the zone behind the pump is cut off while the pump is closed
    s = _base(_opts(4 * 3600, 3600))
    s['reservoirs'] = [{'name': 'R1', 'head': 5.0, 'pat': None}]
    s['curves'] = {'HC1': {'type': 'HEAD', 'pts': [[0.006, 50.0]]}}
    s['junctions'] = [_junction('J1', 10.0), _junction('J2', 8.0)]
    s['pumps'] = [{'name': 'PU1', 'a': 'R1', 'b': 'J1', 'type': 'HEAD', 'power': None, 'curve': 'HC1', 'status': 'OPEN'}]
    s['pipes'] = [_pipe('L2', 'J1', 'J2'), _pipe('L3', 'J1', 'J2', 'CLOSED')]
    s['controls'] = [_ctl(3600, 'PU1', 'CLOSED'), _ctl(2 * 3600 + 1800, 'PU1', 'OPEN')]
    out.append(s)
    # a PRV and a check valve inside the part that is cut off and reconnected
    for pdd in (False, True):
        s = _base(_opts(5 * 3600, 3600, 'ALL', pdd))
        s['reservoirs'] = [{'name': 'R1', 'head': 80.0, 'pat': None}]
        s['junctions'] = [_junction('J1', 10.0), _junction('J2', 8.0), _junction('J3', 6.0), _junction('J4', 4.0),
                          _junction('J5', 3.0)]
        s['pipes'] = [_pipe('L1', 'R1', 'J1'), _pipe('L2', 'J1', 'J2'), _pipe('L4', 'J3', 'J4'),
                      _pipe('L5', 'J4', 'J5', cv=True)]
        s['valves'] = [{'name': 'V3', 'a': 'J2', 'b': 'J3', 'type': 'PRV', 'diam': 0.3, 'minor': 0.0, 'setting': 25.0,
                        'status': 'ACTIVE'}]
        s['controls'] = [_ctl(3600, 'L2', 'CLOSED'), _ctl(3 * 3600 + 60, 'L2', 'OPEN')]
        out.append(s)
    # a small tank is the only source left after the feed closes: it drains, its outlet is closed at the minimum level
    s = _base(_opts(6 * 3600, 1800))
    s['reservoirs'] = [{'name': 'R1', 'head': 45.0, 'pat': None}]
    s['tanks'] = [{'name': 'T1', 'elev': 30.0, 'init': 1.0, 'min': 0.5, 'max': 6.0, 'diam': 3.0, 'min_vol': 0.0, 'vol_curve': None}]
    s['junctions'] = [_junction('J1', 10.0, 0.003), _junction('J2', 8.0, 0.003)]
    s['pipes'] = [_pipe('L1', 'R1', 'J1'), _pipe('L2', 'J1', 'J2'), _pipe('L3', 'J2', 'T1')]
    s['controls'] = [_ctl(1800, 'L1', 'CLOSED'), _ctl(5 * 3600, 'L1', 'OPEN')]
    out.append(s)
    # the same paused in the middle of the cut-off period and continued with a new simulator
    out.append(('pause', 3 * 3600, copy.deepcopy(s)))
    # links whose own status logic cuts a dead end off (they point out of it / the tank is at its minimum level);
    # the status logic then looks at the head of the cut-off junction
    s = _base(_opts(2 * 3600, 3600))           # booster out of a dead end, low heads, everything above the reference
    s['reservoirs'] = [{'name': 'R1', 'head': 8.0, 'pat': None}]
    s['junctions'] = [_junction('J1', 2.0), _junction('J2', 1.0)]
    s['curves'] = {'HC1': {'type': 'HEAD', 'pts': [[0.004, 10.0]]}}
    s['pipes'] = [_pipe('L1', 'R1', 'J1')]
    s['pumps'] = [{'name': 'PU1', 'a': 'J2', 'b': 'J1', 'type': 'HEAD', 'power': None, 'curve': 'HC1', 'status': 'OPEN'}]
    out.append(s)
    s = _base(_opts(2 * 3600, 3600))           # check valve out of a dead end, junctions below the reference level
    s['reservoirs'] = [{'name': 'R1', 'head': -20.0, 'pat': None}]
    s['junctions'] = [_junction('J1', -60.0), _junction('J2', -65.0)]
    s['pipes'] = [_pipe('L1', 'R1', 'J1'), _pipe('L2', 'J2', 'J1', cv=True)]
    out.append(s)
    s = _base(_opts(3600, 3600))               # the same above the reference; the demand-driven head of J1 is below 0
    s['reservoirs'] = [{'name': 'R1', 'head': 20.0, 'pat': None}]
    s['junctions'] = [_junction('J1', 5.0, 0.02), _junction('J2', 2.0)]
    s['pipes'] = [dict(_pipe('L1', 'R1', 'J1', diam=0.1), len=1000.0), _pipe('L2', 'J2', 'J1', cv=True)]
    out.append(s)
    s = _base(_opts(2 * 3600, 3600))           # dead end behind a tank at its minimum level, below the reference
    s['reservoirs'] = [{'name': 'R1', 'head': -50.0, 'pat': None}]
    s['tanks'] = [{'name': 'T1', 'elev': -70.0, 'init': 0.5, 'min': 0.5, 'max': 5.0, 'diam': 5.0, 'min_vol': 0.0,
                   'vol_curve': None}]
    s['junctions'] = [_junction('J1', -90.0), _junction('J2', -95.0)]
    s['pipes'] = [_pipe('L1', 'R1', 'J1'), _pipe('L2', 'T1', 'J2')]
    out.append(s)
    s = _base(_opts(2 * 3600, 3600))           # PSV out of a dead end, below the reference
    s['reservoirs'] = [{'name': 'R1', 'head': -50.0, 'pat': None}]
    s['junctions'] = [_junction('J1', -90.0), _junction('J2', -95.0)]
    s['pipes'] = [_pipe('L1', 'R1', 'J1')]
    s['valves'] = [{'name': 'V2', 'a': 'J2', 'b': 'J1', 'type': 'PSV', 'diam': 0.3, 'minor': 0.0, 'setting': 20.0,
                    'status': 'ACTIVE'}]
    out.append(s)
    # every kind of link *inside* a zone that is cut off (from the start, or by a control and never reconnected: an open
    # constant-power pump does not survive a reconnection in WNTR); the rest of the network must still be solved
    for inner in ('POWER', 'HEAD', 'TCV', 'FCV', 'PSV', 'PRV', 'CV'):
        for late in (False, True):
            s = _base(_opts(3 * 3600, 3600))
            s['reservoirs'] = [{'name': 'R1', 'head': 60.0, 'pat': None}]
            s['junctions'] = [_junction('J1', 10.0), _junction('J2', 8.0), _junction('J3', 6.0, 0.002), _junction('J4', 7.0)]
            s['pipes'] = [_pipe('L1', 'R1', 'J1'), _pipe('L4', 'J1', 'J4'),
                          _pipe('L2', 'J1', 'J2', 'OPEN' if late else 'CLOSED')]
            if late:
                s['controls'] = [_ctl(3600, 'L2', 'CLOSED')]
            if inner == 'POWER':
                s['pumps'] = [{'name': 'PU3', 'a': 'J2', 'b': 'J3', 'type': 'POWER', 'power': 500.0, 'curve': None,
                               'status': 'OPEN'}]
            elif inner == 'HEAD':
                s['curves'] = {'HC1': {'type': 'HEAD', 'pts': [[0.004, 10.0]]}}
                s['pumps'] = [{'name': 'PU3', 'a': 'J2', 'b': 'J3', 'type': 'HEAD', 'power': None, 'curve': 'HC1',
                               'status': 'OPEN'}]
            elif inner == 'CV':
                s['pipes'].append(_pipe('L3', 'J2', 'J3', cv=True))
            else:
                s['valves'] = [{'name': 'V3', 'a': 'J2', 'b': 'J3', 'type': inner, 'diam': 0.3, 'minor': 0.0,
                                'setting': {'TCV': 5.0, 'FCV': 0.001, 'PSV': 20.0, 'PRV': 20.0}[inner],
                                'status': 'ACTIVE'}]
            out.append(s)
    # valve station: a zone fed only through a regulating (Active) valve whose parallel bypass pipe is closed, from the
    # start or by a control; an Active valve is a connection
    for vt in ('PRV', 'FCV', 'TCV'):
        for late in (False, True):
            for flip in (False, True):
                s = _base(_opts(3 * 3600, 3600))
                s['reservoirs'] = [{'name': 'R1', 'head': 60.0, 'pat': None}]
                s['junctions'] = [_junction('J1', 10.0), _junction('J2', 8.0), _junction('J3', 6.0, 0.002, 'P1')]
                a, b = ('J2', 'J1') if flip else ('J1', 'J2')
                s['pipes'] = [_pipe('L1', 'R1', 'J1'), _pipe('L2', a, b, 'OPEN' if late else 'CLOSED'), _pipe('L3', 'J2', 'J3')]
                if late:
                    s['controls'] = [_ctl(3600, 'L2', 'CLOSED')]
                s['valves'] = [{'name': 'V2', 'a': 'J1', 'b': 'J2', 'type': vt, 'diam': 0.3, 'minor': 0.0,
                                'setting': {'TCV': 5.0, 'FCV': 0.003, 'PRV': 20.0}[vt], 'status': 'ACTIVE'}]
                out.append(s)
    # names shared between a junction and a link (EPANET numbers nodes and links separately): a looped zone is cut off
    # and reconnected while a dead end behind a closed stub stays cut off; every element of the zone must come back
    for swap in (False, True):
        s = _base(_opts(5 * 3600, 3600))
        s['reservoirs'] = [{'name': 'R1', 'head': 60.0, 'pat': None}]
        s['junctions'] = [_junction('1', 10.0), _junction('2', 8.0), _junction('3', 6.0), _junction('7', 5.0), _junction('8', 4.0)]
        s['pipes'] = [_pipe('1', 'R1', '1'), _pipe('2', '1', '2'), _pipe('7', '2', '3'), _pipe('8', '3', '1' if swap else '2'),
                      _pipe('3', '2', '7', 'CLOSED'), _pipe('4', '7', '8')]
        if swap:
            s['pipes'][2], s['pipes'][3] = s['pipes'][3], s['pipes'][2]
        s['controls'] = [_ctl(3600, '2', 'CLOSED'), _ctl(3 * 3600, '2', 'OPEN')]
        s['shared_names'] = True
        out.append(s)
    return out


def enumerate_cases(tier):
    for s in hand_built():
        if isinstance(s, tuple):
            yield {'mode': 'sim', 'net': s[2], 'pause': s[1]}
        else:
            yield {'mode': 'sim', 'net': s}
    # a run that ends with a zone cut off, then reset_initial_values() and a second run in which the zone is connected
    # from the start (new and same simulator object)
    for rr in ('new', 'same'):
        s = _base(_opts(4 * 3600, 3600))
        s['reservoirs'] = [{'name': 'R1', 'head': 50.0, 'pat': None}]
        s['junctions'] = [_junction('J1', 10.0), _junction('J2', 8.0), _junction('J3', 6.0)]
        s['pipes'] = [_pipe('L1', 'R1', 'J1'), _pipe('L2', 'J1', 'J2'), _pipe('L3', 'J2', 'J3')]
        s['controls'] = [_ctl(2 * 3600, 'L2', 'CLOSED')]
        yield {'mode': 'sim', 'net': s, 'rerun': rr}
        s2 = copy.deepcopy(s)
        s2['pipes'].append(_pipe('L4', 'J1', 'J3', 'CLOSED'))      # a district that stays cut off behind two closed pipes
        s2['pipes'][1]['status'] = 'CLOSED'
        s2['controls'] = []
        yield {'mode': 'sim', 'net': s2, 'rerun': rr}
    # all multigraphs on source 0 + junctions 1, 2 with 0..2 links per pair and every open/closed pattern
    opts = [[], ['OPEN'], ['CLOSED'], ['OPEN', 'OPEN'], ['OPEN', 'CLOSED'], ['CLOSED', 'OPEN'], ['CLOSED', 'CLOSED']]
    pairs = [(0, 1), (0, 2), (1, 2)]
    for i0 in range(7):
        for i1 in range(7):
            for i2 in range(7):
                links = []
                for (a, b), sts in zip(pairs, (opts[i0], opts[i1], opts[i2])):
                    for k, s in enumerate(sts):
                        links.append([a, b, s, 'pipe'] if k == 0 else [b, a, s, 'pipe'])
                if not links:
                    continue
                for via in ('wn', 'csr'):
                    yield {'mode': 'graph', 'via': via, 'n': 3, 'sources': [0], 'links': links,
                           'rounds': [[[0, 'CLOSED']], [[0, 'OPEN'], [len(links) - 1, 'CLOSED']]]}


def summarize(case):
    if case.get('mode') == 'graph':
        return case
    spec = case['net']
    return {'mode': 'sim', 'pause': case.get('pause'), 'rerun': case.get('rerun'), 'opts': spec['opts'], 'n_junctions': len(spec['junctions']),
            'sources': [t['name'] for t in spec['tanks'] + spec['reservoirs']],
            'links': [[l[0], l[1], l[2], l[3], l[4]['status']] for l in S.links_of(spec)],
            'controls': [[c['at'], c['link'], c['value']] for c in spec['controls']]}
