"""C15 - the compiled AML evaluator returns true residuals and Jacobian (history property)."""
import math
from collections import Counter

from hypothesis import strategies as st

from ..outcome import exc_bucket, fail, inconclusive, passed
from ..refs import c15_dual as ref

ID = 'C15'
LEVEL = 'exploration'
CASES = {'quick': 4000, 'thorough': 100000}
CASE_TIMEOUT = 30
RULE = ('A case is a history {vars, params, floats, ops}: ops add constraints built from generated expression ASTs '
        '(+ - * / ** neg abs sign exp log sin cos tan asin acos atan, reflected operators, int/float constants, '
        'if_else(inequality), ConditionalExpression with 1-4 conditions) as model attributes or ConstraintDict items, '
        'delete them (del m.c / del m.cd[k] / del m.cd), change values (.value, load_var_values_from_x, re-assigning the value last set through the setter after the x vector moved the variable, '
        'evaluate_*(x)), call set_structure, and define sub-expressions / Float constants that later constraints '
        'share. The history is interpreted against a real wntr.sim.aml.Model and against an own AST evaluator with '
        'forward-mode dual numbers; after every op the residual vector and the CSR Jacobian are compared entry by '
        'entry through Constraint.index / Var.index. The model is kept square by padding constraints over '
        'dedicated padding variables. Domains are respected by construction (log(|e|+c), asin(0.9 sin e), real '
        'powers of |e|+c, denominators |e|+c); a case whose reference value is undefined, non-finite or > 1e8 is '
        'inconclusive. Non-trivial = at least one compared Jacobian entry has a non-zero reference value; '
        'distinct = SHA-1 of the canonical case. Enumerated part: every operator alone at grid points, branch '
        'boundaries, and minimal sharing / deletion histories.')
ASSUMPTIONS = [
    'sign(0) = +1 and inequality(body, lb, ub) is the closed interval lb <= body <= ub (expr.py: sign, '
    'InequalityOperator.evaluate); if_else / ConditionalExpression take the first true condition',
    'true partial derivatives do not exist at kinks: a Jacobian row is not compared when an abs/sign argument or an '
    'inequality body is within 1e-9 of its switching point (the residual still is)',
    'both branches of an in-expression if_else must be defined at the point (the compiled RPN evaluates both); '
    'only the selected branch of a ConditionalExpression must be defined',
    'every ConditionalExpression ends with add_final_expr (a constraint without a matching branch has no value)',
    'a constraint expression that folds to a python number is made an expression by adding a variable '
    '(a bare number is not an expression object); the folded number is still checked through the sum',
    'set_structure() is called by the interpreter after structural changes, as its docstring demands',
    'if_else and Float are taken from wntr.sim.aml.expr (not re-exported by the package)',
]
TOLERANCES = {
    'residual': '1e-11 * s, s = max(1, largest |intermediate value or derivative| of the reference evaluation); '
                'the RPN performs the same IEEE operations in the same order as the reference, libm agrees to <= 2 ulp',
    'jacobian': '1e-9 * s (symbolic reverse mode vs forward dual numbers: different association, ~1e-13 observed)',
    'kink_distance': 1e-9,
    'domain': 'denominators, log arguments, bases of real powers >= 1e-6; |asin/acos arg| <= 1-1e-6; '
              '|cos| >= 1e-3 under tan; all |values| <= 1e8',
    'values': 'get_x / .value are compared exactly (they are copies of what was stored)',
}
TECHNIQUE = 'history interpreted against the real Model and a dual-number reference evaluator'
LEVEL_TEXT = ('generated histories and expressions are sampled, not exhausted: no violation found means none among '
              'the explored cases')
LEVEL_NOTE = ('trusted base: vlib/refs/c15_dual.py (150 lines, no wntr import), python math (same libm as the '
              'extension), scipy CSR layout')

RTOL_R = 1e-11
RTOL_J = 1e-9
NV, NP, NF = 6, 3, 3
NUM = (int, float, bool)
LEAF = ('v', 'p', 'c', 'F', 'z')


class _Stop(Exception):
    def __init__(self, outcome):
        self.outcome = outcome


# ----------------------------------------------------------------------------------------- world
class World(object):
    def __init__(self, case, tags):
        import wntr.sim.aml as aml
        from wntr.sim.aml import expr as ex
        self.aml, self.ex = aml, ex
        self.tags = tags
        self.m = aml.Model()
        self.rv = [float(x) for x in case['vars']] or [1.0]
        self.last_set = list(self.rv)      # value each Var last received through its constructor or its value setter
        self.rp = [float(x) for x in case['params']] or [1.0]
        self.rf = [float(x) for x in case.get('floats', [])] or [2.0]
        self.rz = []
        self.vars, self.params, self.floats, self.padvars = [], [], [], []
        for i, x in enumerate(self.rv):
            v = aml.Var(x)
            setattr(self.m, 'x%d' % i, v)
            self.vars.append(v)
        for i, x in enumerate(self.rp):
            p = aml.Param(x)
            setattr(self.m, 'p%d' % i, p)
            self.params.append(p)
        for x in self.rf:
            self.floats.append(ex.Float(x))
        self.pool = []       # shared sub-expressions: dict(obj, ast, uses)
        self.cons = []       # live user constraints: dict(obj, ast, where, feat)
        self.padcons = []
        self.padcfg = ('none', 0)
        self.dicts = {}      # slot -> dict(obj, name) (live ConstraintDicts)
        self.seq = 0
        self.dirty = True
        self.last_struct = 'init'
        self.n_jac_nonzero = 0
        self.n_compares = 0
        self.n_domain_skips = 0
        self.n_checked = 0

    def padvar(self, j):
        while len(self.padvars) <= j:
            k = len(self.padvars)
            val = 0.5 + 0.25 * k
            v = self.aml.Var(val)
            setattr(self.m, 'z%d' % k, v)
            self.padvars.append(v)
            self.rz.append(val)
        return self.padvars[j]

    # ------------------------------------------------------------------ building expressions
    def apply(self, op, args):
        """one operator through wntr's overloaded operators / functions"""
        res = self._apply(op, args)
        if isinstance(res, complex):
            raise _Stop(inconclusive('constant sub-expression outside its domain', self.tags))
        return res

    def _apply(self, op, args):
        aml, ex = self.aml, self.ex
        try:
            if op == '+':
                return args[0] + args[1]
            if op == '-':
                return args[0] - args[1]
            if op == '*':
                return args[0] * args[1]
            if op == '/':
                return args[0] / args[1]
            if op == '**':
                return args[0] ** args[1]
            if op == 'neg':
                return -args[0]
            if op == 'ineq':
                return ex.inequality(args[0], lb=args[1], ub=args[2])
            if op == 'if':
                return ex.if_else(args[0], args[1], args[2])
            res = getattr(aml, op)(args[0])
            return res
        except (ZeroDivisionError, OverflowError, ValueError) as e:
            if all(a is None or isinstance(a, NUM) for a in args):
                raise _Stop(inconclusive('constant sub-expression outside its domain', self.tags))
            raise _Stop(fail(exc_bucket(e, 'raises'), 'building %s%r raised %r' % (op, args, e), self.tags))
        except Exception as e:
            raise _Stop(fail(exc_bucket(e, 'raises'), 'building %s%r raised %r' % (op, args, e), self.tags))

    def build(self, ast, uses):
        """case AST -> (wntr object or number, resolved reference AST); `uses` counts shared sub-expressions"""
        op = ast[0]
        if op == 'v':
            i = ast[1] % len(self.vars)
            return self.vars[i], ['v', i]
        if op == 'p':
            i = ast[1] % len(self.params)
            return self.params[i], ['p', i]
        if op == 'c':
            return ast[1], ['c', ast[1]]
        if op == 'F':
            i = ast[1] % len(self.floats)
            self.tags.add('leaf:Float_object')
            return self.floats[i], ['F', i]
        if op == 'e':
            if not self.pool:
                i = ast[1] % len(self.vars)
                return self.vars[i], ['v', i]
            i = ast[1] % len(self.pool)
            ent = self.pool[i]
            if ent['ast'][0] not in LEAF:
                uses[i] += 1
                uses.update(ent['uses'])
                self.tags.add('feat:shared_subexpr')
            return ent['obj'], ent['ast']
        if op == 'ineq':
            body, rbody = self.build(ast[1], uses)
            bounds, rb = [], []
            for b in (ast[2], ast[3]):
                if isinstance(b, list):
                    o, r = self.build(b, uses)
                    if isinstance(o, NUM):       # folded to a number: a plain numeric bound
                        r = float(o)
                    else:
                        self.tags.add('feat:ineq_expr_bound')
                    bounds.append(o)
                    rb.append(r)
                else:
                    bounds.append(b)
                    rb.append(b)
            self.tags.add('op:ineq')
            return self.apply('ineq', [body] + bounds), ['ineq', rbody, rb[0], rb[1]]
        objs, rasts = [], []
        for a in ast[1:]:
            o, r = self.build(a, uses)
            objs.append(o)
            rasts.append(r)
        self.tags.add('op:' + op)
        if op in ref.BINARY and isinstance(objs[0], NUM) and not isinstance(objs[1], NUM):
            self.tags.add('feat:reflected_' + op)
        if op == '**' and rasts[1][0] != 'c':
            self.tags.add('feat:pow_expr_exponent')
        res = self.apply(op, objs)
        if isinstance(res, NUM) and not all(isinstance(o, NUM) for o in objs):
            self.tags.add('feat:folded_to_number')
        return res, [op] + rasts

    def nonconst(self, obj, rast, k):
        if isinstance(obj, NUM):
            k = k % len(self.vars)
            self.tags.add('feat:constant_made_expression')
            return self.apply('+', [obj, self.vars[k]]), ['+', rast, ['v', k]]
        return obj, rast

    def build_constraint(self, spec, k):
        """-> (aml.Constraint, reference AST, feature string)"""
        aml, ex = self.aml, self.ex
        twice = False
        if spec[0] == 'cond':
            ce = aml.ConditionalExpression()
            rbr = []
            for cnd, e in spec[1][:4]:
                u = Counter()
                body, rbody = self.build(cnd[1], u)
                body, rbody = self.nonconst(body, rbody, k)
                lb = cnd[2] if not isinstance(cnd[2], list) else None
                ub = cnd[3] if not isinstance(cnd[3], list) else None
                if lb is None and ub is None:
                    ub = 0.0
                cobj = self.apply('ineq', [body, lb, ub])
                twice = twice or any(c > 1 for c in u.values())
                u = Counter()
                eobj, reast = self.build(e, u)
                eobj, reast = self.nonconst(eobj, reast, k)
                twice = twice or any(c > 1 for c in u.values())
                try:
                    ce.add_condition(cobj, eobj)
                except Exception as exn:
                    raise _Stop(fail(exc_bucket(exn, 'raises'), 'add_condition raised %r' % (exn,), self.tags))
                rbr.append([['ineq', rbody, lb, ub], reast])
            u = Counter()
            fobj, rfin = self.build(spec[2], u)
            fobj, rfin = self.nonconst(fobj, rfin, k)
            twice = twice or any(c > 1 for c in u.values())
            ce.add_final_expr(fobj)
            self.tags.add('feat:ConditionalExpression')
            self.tags.add('cond_branches:%d' % len(rbr))
            feat = 'cond'
            obj, rast = ce, ['cond', rbr, rfin]
        else:
            u = Counter()
            obj, rast = self.build(spec, u)
            obj, rast = self.nonconst(obj, rast, k)
            twice = any(c > 1 for c in u.values())
            feat = 'plain'
        if twice:
            feat += '+subexpr_twice'
            self.tags.add('feat:subexpr_twice_in_one_expression')
        try:
            con = aml.Constraint(obj)
        except Exception as exn:
            raise _Stop(fail(exc_bucket(exn, 'raises'), 'Constraint() raised %r' % (exn,), self.tags))
        return con, rast, feat

    # ------------------------------------------------------------------ structural operations
    def call(self, what, fn, *a):
        """a wntr call that the statement promises to succeed"""
        try:
            return fn(*a)
        except _Stop:
            raise
        except Exception as e:
            raise _Stop(fail(exc_bucket(e, 'raises'), '%s raised %r' % (what, e), self.tags))

    def add(self, where, spec, k, pre=False):
        con, rast, feat = self.build_constraint(spec, k)
        self.seq += 1
        if where < 0:
            name = 'c%d' % self.seq
            self.call('m.%s = Constraint(...)' % name, setattr, self.m, name, con)
            loc = ('attr', name)
            self.tags.add('op:add_attr')
        else:
            slot = where % 2
            d = self.dicts.get(slot)
            key = 'k%d' % self.seq
            if d is None:
                cd = self.aml.ConstraintDict()
                name = 'cd%d_%d' % (slot, self.seq)
                if pre:      # fill first, attach the filled dict to the model
                    self.call('cd[key] = Constraint (detached dict)', cd.__setitem__, key, con)
                    self.call('m.%s = ConstraintDict' % name, setattr, self.m, name, cd)
                    self.tags.add('op:attach_filled_dict')
                else:
                    self.call('m.%s = ConstraintDict' % name, setattr, self.m, name, cd)
                    self.call('m.cd[key] = Constraint', cd.__setitem__, key, con)
                self.dicts[slot] = {'obj': cd, 'name': name}
            else:
                self.call('m.cd[key] = Constraint', d['obj'].__setitem__, key, con)
            loc = ('dict', slot, key)
            self.tags.add('op:add_dict_item')
        self.cons.append({'obj': con, 'ast': rast, 'where': loc, 'feat': feat})
        self.dirty = True
        self.last_struct = 'add'

    def delete(self, i):
        if not self.cons:
            return
        c = self.cons.pop(i % len(self.cons))
        if c['where'][0] == 'attr':
            self.call('del m.%s' % c['where'][1], delattr, self.m, c['where'][1])
            self.tags.add('op:del_attr')
            self.last_struct = 'del_attr'
        else:
            d = self.dicts[c['where'][1]]
            self.call('del m.cd[key]', d['obj'].__delitem__, c['where'][2])
            self.tags.add('op:del_dict_item')
            self.last_struct = 'del_dict_item'
        self.dirty = True

    def delete_dict(self, slot):
        slot = slot % 2
        d = self.dicts.get(slot)
        if d is None:
            return
        self.call('del m.%s (ConstraintDict)' % d['name'], delattr, self.m, d['name'])
        self.cons = [c for c in self.cons if not (c['where'][0] == 'dict' and c['where'][1] == slot)]
        self.dicts[slot] = None
        self.dirty = True
        self.tags.add('op:del_whole_dict')
        self.last_struct = 'del_whole_dict'

    # ------------------------------------------------------------------ padding, structure, comparison
    def registry(self):
        live = self.cons + self.padcons
        want = set(id(c['obj']) for c in live)
        have = [id(c) for c in self.m.cons()]
        extra = [h for h in have if h not in want]
        missing = want - set(have)
        if extra:
            raise _Stop(fail('registry/removed_constraint_still_registered/%s' % self.last_struct,
                             '%d constraint(s) that were removed from the model (last structural op: %s) are still '
                             'registered with the evaluator; %d live' % (len(extra), self.last_struct, len(want)),
                             self.tags))
        if missing or len(have) != len(want):
            raise _Stop(fail('registry/live_constraint_not_registered/%s' % self.last_struct,
                             '%d live constraint(s) missing from Model.cons()' % len(missing), self.tags))
        used = set()
        for c in live:
            used |= ref.var_set(c['ast'])
        for kind, objs in (('v', self.vars), ('z', self.padvars)):
            ids = {id(o): i for i, o in enumerate(objs)}
            for v in self.m.vars():
                if id(v) in ids and (kind, ids[id(v)]) not in used:
                    raise _Stop(fail('registry/stale_variable/%s' % self.last_struct,
                                     'variable %s%d is registered although no live constraint mentions it'
                                     % (kind, ids[id(v)]), self.tags))

    def repad(self):
        uids = set(id(v) for v in self.vars)
        u = sum(1 for v in self.m.vars() if id(v) in uids)
        k = len(self.cons)
        d = k - u
        if d == 0:
            cfg = ('none', 0)
        elif d > 0:
            cfg = ('wide', d + 1)
        else:
            cfg = ('tall', -d + 1)
        if cfg == self.padcfg:
            return
        for c in self.padcons:
            self.call('del m.%s (padding)' % c['name'], delattr, self.m, c['name'])
        self.padcons = []
        asts = []
        if cfg[0] == 'wide':
            a = ['z', 0]
            for j in range(1, cfg[1]):
                a = ['+', a, ['z', j]]
            asts.append(['-', a, ['c', 1.0]])
        elif cfg[0] == 'tall':
            for j in range(cfg[1]):
                asts.append(['-', ['*', ['c', float(j + 2)], ['z', 0]], ['c', 1.0]])
        for a in asts:
            for kk in ref.var_set(a):
                self.padvar(kk[1])
            obj, rast = self.build_pad(a)
            self.seq += 1
            name = 'pad%d' % self.seq
            con = self.aml.Constraint(obj)
            self.call('m.%s = Constraint (padding)' % name, setattr, self.m, name, con)
            self.padcons.append({'obj': con, 'ast': rast, 'name': name, 'feat': 'pad', 'where': ('attr', name)})
        self.padcfg = cfg
        self.tags.add('pad:' + cfg[0])

    def build_pad(self, a):
        if a[0] == 'z':
            return self.padvars[a[1]], a
        if a[0] == 'c':
            return a[1], a
        l, _ = self.build_pad(a[1])
        r, _ = self.build_pad(a[2])
        return self.apply(a[0], [l, r]), a

    def sync(self):
        if self.dirty:
            self.registry()
            self.repad()
            self.registry()
            self.call('set_structure', self.m.set_structure)
            self.dirty = False

    def compare(self, after):
        self.sync()
        m = self.m
        live = self.cons + self.padcons
        n = len(live)
        self.n_compares += 1

        def get_J():
            try:
                return m.evaluate_jacobian()
            except ValueError as e:
                raise _Stop(fail('jacobian/not_square_after_%s' % after, 'evaluate_jacobian raised %r with %d live constraints'
                                 % (e, n), self.tags))
            except Exception as e:
                raise _Stop(fail(exc_bucket(e, 'raises'), 'evaluate_jacobian raised %r' % (e,), self.tags))
        # the two evaluations are independent queries at the current point: every other comparison asks for the Jacobian
        # first (a Newton loop asks for the residuals first, other callers need not)
        jac_first = self.n_compares % 2 == 0
        J0 = get_J() if jac_first else None
        if jac_first:
            self.tags.add('feat:jacobian_before_residuals')
        r = self.call('evaluate_residuals', m.evaluate_residuals)
        if len(r) != n:
            raise _Stop(fail('residual/length', 'evaluate_residuals() has %d entries, %d live constraints'
                             % (len(r), n), self.tags))
        cidx = [c['obj'].index for c in live]
        if sorted(cidx, key=lambda t: (t is None, t)) != list(range(n)):
            raise _Stop(fail('index/constraints_not_a_permutation', 'Constraint.index values %r' % (cidx,), self.tags))
        allv = [('v', i, v) for i, v in enumerate(self.vars)] + [('z', j, v) for j, v in enumerate(self.padvars)]
        reg = [(kd, i, v, v.index) for kd, i, v in allv if v.index is not None]
        regset = dict(((kd, i), vi) for kd, i, v, vi in reg)
        vidx = sorted(t[3] for t in reg)
        if vidx != list(range(len(reg))):
            raise _Stop(fail('index/variables_not_a_permutation', 'Var.index values %r' % (vidx,), self.tags))
        J = J0 if jac_first else get_J()
        if J.shape != (n, n) or len(J.indptr) != n + 1 or J.indptr[-1] != len(J.data) or len(J.indices) != len(J.data):
            raise _Stop(fail('jacobian/malformed_csr', 'shape %r indptr %r nnz %d' % (J.shape, list(J.indptr), len(J.data)),
                             self.tags))
        entries = {}
        for row in range(n):
            for t in range(J.indptr[row], J.indptr[row + 1]):
                col = int(J.indices[t])
                if not (0 <= col < n):
                    raise _Stop(fail('jacobian/column_out_of_range', 'row %d col %d' % (row, col), self.tags))
                entries[(row, col)] = entries.get((row, col), 0.0) + float(J.data[t])
        x = self.call('get_x', m.get_x)
        # values of the leaves
        for kd, i, v, vi in reg:
            want = self.rv[i] if kd == 'v' else self.rz[i]
            if not (float(x[vi]) == want):
                raise _Stop(fail('values/get_x', 'get_x()[%s%d.index=%d] = %r, stored value %r (after %s)'
                                 % (kd, i, vi, float(x[vi]), want, after), self.tags))
        for kd, i, v in allv:
            want = self.rv[i] if kd == 'v' else self.rz[i]
            if not (float(v.value) == want):
                raise _Stop(fail('values/var_value', '%s%d.value = %r, stored value %r (after %s)'
                                 % (kd, i, v.value, want, after), self.tags))
        for i, p in enumerate(self.params):
            if not (float(p.value) == self.rp[i]):
                raise _Stop(fail('values/param_value', 'p%d.value = %r, stored %r' % (i, p.value, self.rp[i]), self.tags))
        env = ref.Env(self.rv, self.rz, self.rp, self.rf)
        for c in live:
            env.reset()
            try:
                val, der = ref.ev(c['ast'], env)
            except ref.Domain:
                self.n_domain_skips += 1
                self.tags.add('feat:constraint_skipped_outside_domain')
                continue
            self.n_checked += 1
            ci = c['obj'].index
            got = float(r[ci])
            if env.boundary:
                self.tags.add('feat:value_exactly_on_branch_boundary')
            if not (abs(got - val) <= RTOL_R * env.scale):
                raise _Stop(fail('residual/%s' % c['feat'],
                                 'after %s: residual[%d] = %r but the expression evaluates to %r (scale %.3g)\n'
                                 'expression %r\nvars %r params %r floats %r'
                                 % (after, ci, got, val, env.scale, c['ast'], self.rv, self.rp, self.rf), self.tags))
            if env.kink:
                self.tags.add('feat:jacobian_row_skipped_at_kink')
                continue
            for kd, i, v in allv:
                pos = i if kd == 'v' else len(self.rv) + i
                want = der[pos]
                if (kd, i) in regset:
                    g = entries.get((ci, regset[(kd, i)]), 0.0)
                    if not (abs(g - want) <= RTOL_J * env.scale):
                        raise _Stop(fail('jacobian/%s' % c['feat'],
                                         'after %s: J[%d,%d] = %r but d/d%s%d = %r (scale %.3g)\nexpression %r\n'
                                         'vars %r params %r floats %r'
                                         % (after, ci, regset[(kd, i)], g, kd, i, want, env.scale, c['ast'],
                                            self.rv, self.rp, self.rf), self.tags))
                    if want != 0.0 and c['feat'] != 'pad':
                        self.n_jac_nonzero += 1
                elif want != 0.0:
                    raise _Stop(fail('jacobian/variable_not_registered',
                                     'd/d%s%d = %r but the variable has no index\nexpression %r' % (kd, i, want, c['ast']),
                                     self.tags))


# ----------------------------------------------------------------------------------------- check
def check(case):
    tags = set()
    try:
        w = World(case, tags)
    except Exception as e:
        return fail(exc_bucket(e, 'raises'), 'creating the model raised %r' % (e,), tags)
    nops = 0
    try:
        for op in case['ops']:
            name = op[0]
            if name == 'def':
                u = Counter()
                obj, rast = w.build(op[1], u)
                w.pool.append({'obj': obj, 'ast': rast, 'uses': u})
                continue
            if name == 'add':
                w.add(op[1], op[2], op[3], bool(op[4]) if len(op) > 4 else False)
            elif name == 'del':
                w.delete(op[1])
            elif name == 'del_dict':
                w.delete_dict(op[1])
            elif name == 'set_var':
                i = op[1] % len(w.vars)
                w.vars[i].value = float(op[2])
                w.rv[i] = float(op[2])
                w.last_set[i] = float(op[2])
                tags.add('op:set_var_value')
            elif name == 'restore_var':
                # the value the Var last received through the setter is assigned again (restoring a starting point
                # after the x vector / a solver has moved the variable)
                i = op[1] % len(w.vars)
                if w.rv[i] != w.last_set[i]:
                    tags.add('op:restore_var_after_load_x')
                w.vars[i].value = w.last_set[i]
                w.rv[i] = w.last_set[i]
            elif name == 'set_param':
                i = op[1] % len(w.params)
                w.params[i].value = float(op[2])
                w.rp[i] = float(op[2])
                tags.add('op:set_param_value')
            elif name == 'load_x':
                w.sync()
                x = w.call('get_x', w.m.get_x).copy()
                vals = op[2] or [0.0]
                for i, v in enumerate(w.vars):
                    if v.index is not None:
                        x[v.index] = float(vals[i % len(vals)])
                        w.rv[i] = float(vals[i % len(vals)])
                mode = op[1] % 3
                if mode == 0:
                    w.call('load_var_values_from_x', w.m.load_var_values_from_x, x)
                elif mode == 1:
                    w.call('evaluate_residuals(x)', w.m.evaluate_residuals, x)
                else:
                    w.call('evaluate_jacobian(x)', w.m.evaluate_jacobian, x)
                tags.add('op:load_x_mode%d' % mode)
            elif name == 'set_structure':
                w.call('set_structure', w.m.set_structure)
                tags.add('op:set_structure_explicit')
            else:
                raise ValueError('unknown op %r' % (name,))
            nops += 1
            w.compare(name)
    except _Stop as s:
        return s.outcome
    tags.add('ops:%s' % ('1-3' if nops <= 3 else '4-8' if nops <= 8 else '9+'))
    if w.n_domain_skips and w.n_jac_nonzero == 0:
        return inconclusive('reference value undefined or out of range (nothing else to compare)', tags)
    return passed(w.n_jac_nonzero > 0, tags)


# ----------------------------------------------------------------------------------------- generation
GRID = [-2.0, -1.0, -0.5, 0.5, 1.0, 2.0, 3.0, 1.5, -1.5, 0.0]
_value = st.one_of(st.sampled_from(GRID), st.sampled_from(GRID),
                   st.integers(-4000, 4000).map(lambda k: k / 1000.0))
_const = st.one_of(st.sampled_from([0, 1, 2, 3, -1, -2]), st.sampled_from([0.0, 1.0, 2.0, 0.5, -1.0, -0.5, 2.5, 1.852]),
                   st.integers(-3000, 3000).map(lambda k: k / 1000.0))
_cpos = st.sampled_from([0.5, 1.0, 2.0, 1, 3])
_bound = st.one_of(st.sampled_from(GRID), st.sampled_from([0, 1, -1, 2]))

_leaf = st.one_of(
    st.tuples(st.just('v'), st.integers(0, NV - 1)).map(list),
    st.tuples(st.just('v'), st.integers(0, NV - 1)).map(list),
    st.tuples(st.just('v'), st.integers(0, NV - 1)).map(list),
    st.tuples(st.just('e'), st.integers(0, 5)).map(list),
    st.tuples(st.just('p'), st.integers(0, NP - 1)).map(list),
    st.tuples(st.just('c'), _const).map(list),
    st.tuples(st.just('F'), st.integers(0, NF - 1)).map(list),
    st.tuples(st.just('e'), st.integers(0, 5)).map(list),
)


def _pos(e, c):
    return ['+', ['abs', e], ['c', c]]


def _ineq_simple(children):
    simple = st.builds(lambda b, lo, hi: ['ineq', b] + (sorted([lo, hi]) if lo is not None and hi is not None else [lo, hi]),
                       children, st.one_of(st.none(), _bound), st.one_of(st.none(), _bound))
    simple = simple.map(lambda t: t if (t[2] is not None or t[3] is not None) else ['ineq', t[1], None, 0.0])
    return simple


def _ineq(children):
    simple = _ineq_simple(children)
    exprb = st.builds(lambda b, e, side: ['ineq', b, e, None] if side else ['ineq', b, None, e],
                      children, children, st.booleans())
    return st.one_of(simple, simple, simple, exprb)


def _extend(ch):
    bounded = st.one_of(ch.map(lambda e: ['sin', e]), ch.map(lambda e: ['atan', e]), _leaf)
    arith = st.one_of(
        st.builds(lambda a, b: ['+', a, b], ch, ch),
        st.builds(lambda a, b: ['-', a, b], ch, ch),
        st.builds(lambda a, b: ['*', a, b], ch, ch),
        st.builds(lambda a, b: ['*', a, b], ch, ch),
        st.builds(lambda a, b, c: ['/', a, _pos(b, c)], ch, ch, _cpos),
        st.builds(lambda a, c: ['/', a, ['c', c]], ch, st.sampled_from([2, 0.5, -1.0, 3.0, 1, -2])),
    )
    power = st.one_of(
        st.builds(lambda a, n: ['**', a, ['c', n]], ch, st.sampled_from([2, 3, 2.0, 3.0, 1, 0, 1.0, 0.0])),
        st.builds(lambda a, c, q: ['**', _pos(a, c), ['c', q]], ch, _cpos,
                  st.sampled_from([0.5, 1.852, -0.5, 2.5, 0.852, -1, -2, -1.0])),
        st.builds(lambda a, c, b: ['**', _pos(a, c), b], ch, _cpos, bounded),
        st.builds(lambda c, b: ['**', ['c', c], b], st.sampled_from([2, 3, 0.5, 1, 1.0, 2.5]), bounded),
    )
    unary = st.one_of(
        ch.map(lambda a: ['neg', a]),
        ch.map(lambda a: ['abs', a]),
        ch.map(lambda a: ['sign', a]),
        bounded.map(lambda a: ['exp', a]),
        st.builds(lambda a, c: ['log', _pos(a, c)], ch, _cpos),
        ch.map(lambda a: ['sin', a]),
        ch.map(lambda a: ['cos', a]),
        ch.map(lambda a: ['tan', ['*', ['c', 0.9], ['sin', a]]]),
        ch.map(lambda a: ['asin', ['*', ['c', 0.9], ['sin', a]]]),
        ch.map(lambda a: ['acos', ['*', ['c', 0.9], ['cos', a]]]),
        ch.map(lambda a: ['atan', a]),
    )
    branch = st.builds(lambda c, a, b: ['if', c, a, b], _ineq(ch), ch, ch)
    # a branch of an if_else that is a bare leaf (variable or shared sub-expression) which an operator standing later in
    # the expression uses again: the reverse sweep reaches that leaf with contributions already accumulated
    shared = st.one_of(st.tuples(st.just('v'), st.integers(0, NV - 1)).map(list),
                       st.tuples(st.just('e'), st.integers(0, 5)).map(list))
    reuse = st.builds(lambda c, a, leaf, b, op, swap, first:
                      [op, ['if', c, leaf, a] if swap else ['if', c, a, leaf], ['*', leaf, b]] if first else
                      [op, ['*', leaf, b], ['if', c, leaf, a] if swap else ['if', c, a, leaf]],
                      _ineq(ch), ch, shared, ch, st.sampled_from(['+', '-', '*']), st.booleans(), st.booleans())
    return st.one_of(arith, arith, arith, power, unary, unary, branch, reuse)


def _expr(max_leaves):
    return st.recursive(_leaf, _extend, max_leaves=max_leaves)


def _guarded(i, c, q):
    """WNTR's own idiom: a real power that is only defined on the branch that selects it"""
    x = ['v', i]
    return ['cond', [[['ineq', x, None, -c], ['neg', ['**', ['neg', x], ['c', q]]]],
                     [['ineq', x, None, c], ['*', ['c', 0.5], x]]],
            ['**', x, ['c', q]]]


def _cond(e):
    general = st.builds(lambda br, fin: ['cond', br, fin],
                        st.lists(st.tuples(_ineq_simple(e), e).map(list), min_size=1, max_size=4), e)
    guarded = st.builds(_guarded, st.integers(0, NV - 1), st.sampled_from([0.5, 1.0, 2.0]),
                        st.sampled_from([1.852, 0.5, 2.5]))
    plus = st.builds(lambda g, a: ['cond', [[b[0], ['+', b[1], a]] for b in g[1]], ['-', g[2], a]], guarded, e)
    return st.one_of(general, general, guarded, plus)


def strategy(tier='quick'):
    e = _expr(8)
    small = _expr(3)
    spec = st.one_of(e, e, e, _cond(small))
    where = st.sampled_from([-1, -1, -1, 0, 0, 1])
    add = st.tuples(st.just('add'), where, spec, st.integers(0, NV - 1), st.booleans()).map(list)
    define = st.tuples(st.just('def'), _expr(4)).map(list)
    op = st.one_of(
        add, add, add, add,
        define,
        st.tuples(st.just('del'), st.integers(0, 7)).map(list),
        st.tuples(st.just('del'), st.integers(0, 7)).map(list),
        st.tuples(st.just('del_dict'), st.integers(0, 1)).map(list),
        st.tuples(st.just('set_var'), st.integers(0, NV - 1), _value).map(list),
        st.tuples(st.just('set_var'), st.integers(0, NV - 1), _value).map(list),
        st.tuples(st.just('set_param'), st.integers(0, NP - 1), _value).map(list),
        st.tuples(st.just('restore_var'), st.integers(0, NV - 1)).map(list),
        st.tuples(st.just('restore_var'), st.integers(0, NV - 1)).map(list),
        st.tuples(st.just('load_x'), st.integers(0, 2), st.lists(_value, min_size=1, max_size=NV)).map(list),
        st.just(['set_structure']),
    )
    nonzero = _value.map(lambda x: x if x != 0.0 else 0.75)
    nmax = 12 if tier == 'quick' else 20
    return st.fixed_dictionaries({
        'vars': st.lists(nonzero, min_size=NV, max_size=NV),
        'params': st.lists(_value, min_size=NP, max_size=NP),
        'floats': st.lists(st.sampled_from([2.0, 0.5, -1.5, 1.852, 3.0, 1.0, 0.0]), min_size=NF, max_size=NF),
        'ops': st.builds(lambda pre, body: pre + body, st.lists(define, min_size=0, max_size=3),
                         st.lists(op, min_size=3, max_size=nmax)),
    })


# ----------------------------------------------------------------------------------------- enumerated cases
def _case(ops, vars_=None, params=None, floats=None):
    return {'vars': list(vars_ or [2.0, 3.0, -1.5, 0.5, 1.0, -2.0]), 'params': list(params or [1.5, -0.5, 2.0]),
            'floats': list(floats or [2.5, 0.5, -1.5]), 'ops': ops}


def enumerate_cases(tier):
    x, y, p = ['v', 0], ['v', 1], ['p', 0]
    unary = [['neg', x], ['abs', x], ['sign', x], ['exp', x], ['log', _pos(x, 0.5)], ['sin', x], ['cos', x],
             ['tan', ['*', ['c', 0.9], ['sin', x]]], ['asin', ['*', ['c', 0.9], ['sin', x]]],
             ['acos', ['*', ['c', 0.9], ['cos', x]]], ['atan', x], ['tan', x]]
    binary = []
    for o in ('+', '-', '*', '/'):
        for a, b in ((x, y), (x, ['c', 2.5]), (['c', 2.5], x), (x, p), (p, x), (['c', 3], y), (x, ['c', 1]), (['c', 1], x),
                     (['c', 0], x), (x, ['F', 0]), (['F', 0], x)):
            binary.append([o, a, b])
    binary += [['+', x, ['c', 0]], ['-', x, ['c', 0]], ['*', x, ['c', 0]],
               ['**', x, ['c', 2]], ['**', x, ['c', 3.0]], ['**', _pos(x, 0.5), ['c', 1.852]], ['**', _pos(x, 1.0), y],
               ['**', ['c', 3], x], ['**', ['c', 2.5], y], ['**', ['c', 1], x], ['**', x, ['c', 0]], ['**', x, ['c', 1]],
               ['**', _pos(x, 0.5), p], ['**', p, ['c', 2]], ['**', ['**', _pos(x, 0.5), ['c', 0.5]], ['c', 3]],
               ['**', ['c', 2], ['**', ['c', 2.0], ['sin', x]]], ['**', ['F', 0], x], ['**', _pos(x, 1.0), ['F', 1]]]
    pts = [-2.0, -0.5, 0.0, 0.5, 1.0, 3.0]
    for a in unary + binary:
        ops = [['add', -1, a, 0, False]]
        for v in pts:
            ops.append(['set_var', 0, v])
        ops.append(['load_x', 0, [1.5, -1.0]])
        yield _case(ops)
    # branch boundaries: if_else and ConditionalExpression with the variable exactly on every bound
    ife = ['if', ['ineq', x, -1.0, 1.0], ['*', ['c', 2.0], x], ['*', x, y]]
    ce = ['cond', [[['ineq', x, None, -1.0], ['-', ['neg', ['**', ['neg', x], ['c', 1.852]]], y]],
                   [['ineq', x, None, 1.0], ['*', x, y]],
                   [['ineq', x, 1.0, 2.0], ['+', x, ['*', ['c', 3.0], y]]]],
          ['-', ['**', x, ['c', 1.852]], y]]
    for a in (ife, ce, ['if', ['ineq', x, y, None], x, ['*', ['c', 2.0], y]], ['if', ['ineq', ['c', 1], 0, 2], x, y]):
        ops = [['add', -1, a, 0, False], ['add', -1, ['+', ['*', x, y], p], 0, False]]
        for v in (-3.0, -1.0, -1.0 - 1e-12, -1.0 + 1e-12, 0.0, 1.0, 1.0 + 1e-12, 1.5, 2.0, 2.0 + 1e-9, 3.0):
            ops.append(['set_var', 0, v])
        ops.append(['load_x', 1, [1.0, 1.0]])
        ops.append(['load_x', 2, [-1.0, 2.0]])
        yield _case(ops)
    # the x vector moves the variables, then the starting values are assigned again through the setter
    for mode in (0, 1, 2):
        yield _case([['add', -1, ['+', ['*', x, y], p], 0, False], ['add', -1, ife, 1, False], ['set_var', 0, 0.5],
                     ['load_x', mode, [3.0, -2.0]], ['restore_var', 0], ['restore_var', 1], ['load_x', mode, [1.5, 1.0]],
                     ['restore_var', 1], ['restore_var', 0]])
    # two ConditionalExpressions with different numbers of branches, one removed and re-added
    yield _case([['add', -1, ce, 0, False], ['add', 0, _guarded(1, 1.0, 2.5), 1, False], ['add', -1, _guarded(2, 0.5, 0.5), 0, False],
                 ['set_var', 0, 1.5], ['set_var', 1, -3.0], ['del', 0], ['set_var', 2, 2.0], ['add', -1, ce, 0, False],
                 ['set_var', 0, -2.0], ['del', 1], ['load_x', 0, [0.25, 2.0, -2.0]]])
    # sharing and deletion histories
    e = ['+', x, y]
    yield _case([['add', -1, ['*', ['F', 0], x], 0, False], ['add', -1, ['*', ['F', 0], y], 0, False], ['del', 0],
                 ['set_var', 1, 2.0]])
    yield _case([['def', ['*', ['c', 2.5], x]], ['add', -1, ['+', ['e', 0], y], 0, False],
                 ['add', -1, ['-', ['e', 0], y], 0, False], ['del', 0], ['set_var', 0, 1.0]])
    yield _case([['def', e], ['add', -1, ['*', ['e', 0], ['e', 0]], 0, False], ['set_var', 0, 1.0]])
    yield _case([['def', e], ['add', -1, ['*', ['e', 0], ['sin', ['e', 0]]], 0, False], ['set_var', 0, 1.0]])
    yield _case([['def', e], ['add', -1, ['*', ['+', ['e', 0], ['c', 1]], ['+', ['e', 0], ['c', 2]]], 0, False]])
    yield _case([['def', e], ['add', -1, ['sin', ['e', 0]], 0, False], ['add', 0, ['cos', ['e', 0]], 0, False],
                 ['add', 0, ['*', ['e', 0], p], 0, True], ['del', 0], ['set_var', 1, -1.0], ['del', 0], ['del', 0]])
    for pre in (False, True):
        yield _case([['add', 0, ['-', x, ['c', 1]], 0, pre], ['add', 0, ['*', x, y], 0, pre], ['add', -1, ['+', y, p], 0, False],
                     ['del_dict', 0], ['set_var', 0, 1.0], ['add', 0, ['*', x, ['v', 2]], 0, pre], ['del', 1], ['del_dict', 0]])
    yield _case([['add', -1, ['*', x, y], 0, False], ['add', -1, ['+', ['v', 2], x], 0, False], ['del', 0],
                 ['set_var', 1, 7.0], ['add', -1, ['**', y, ['c', 2]], 0, False], ['set_structure'], ['set_structure'],
                 ['del', 0], ['del', 0]])


def summarize(case):
    return {'vars': case['vars'], 'params': case['params'], 'n_ops': len(case['ops']),
            'ops': [o if len(repr(o)) < 160 else [o[0], '...'] for o in case['ops'][:6]]}
