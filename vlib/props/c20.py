"""C20 - demand, resilience and pump-cost metrics equal their documented formulas.

A case is a small network *spec* (patterns, junction demand lists with categories, tanks, pumps, pipes,
valves, time/energy options) plus random result tables.  `check` builds the WNTR model and the pandas
tables, calls every metric of the statement and compares with the formula of its docstring re-implemented
below in plain python floats (math.fsum) on the spec - never on WNTR objects.
"""
import math

from hypothesis import strategies as st

from ..outcome import exc_bucket, fail, inconclusive, passed

ID = 'C20'
LEVEL = 'exploration'
CASES = {'quick': 2400, 'thorough': 40000}
CASE_TIMEOUT = 30
SHRINK_BUDGET = {'quick': 40, 'thorough': 150}
RULE = ('Generated: 1-5 junctions (1-4 demand entries each: base, pattern or default pattern, category), 1-4 '
        'patterns of length 1-14/24/48 (wrapping; a few non-wrapping), pattern timestep from {600..10800, 5000, '
        '7000} s, pattern start 0 / multiple of the step / off-grid, demand multiplier, optional interpolation, '
        '1-2 reservoirs, 0-2 tanks (cylinder or volume curve), 0-3 pumps (1-/3-point head curve, power), 0-2 '
        'valves, pipes with nominal or arbitrary diameters, energy options, optional custom lookup tables, '
        'random tables of pressure/demand/pump flow on the report grid (head = elevation + pressure), thresholds. '
        'About one case in five (no valves) is also simulated with WNTRSimulator (demand-driven, <= 7 report '
        'steps).  One case in three continues as a history of the same model object: after the first evaluation '
        '1-2 revisions (pattern.multipliers in place; remove_pattern + add_pattern under the same name; '
        'remove_pattern; options.hydraulic.pattern; TimeSeries.pattern_name) are applied and the demand formulas '
        'and the simulator demand are compared again on the revised spec.  Enumerated: one junction x pattern length 1..13 x pattern start {0, 1 step, off-grid}. '
        'Non-trivial = some junction has a non-zero demand term that follows a pattern of length >= 2; '
        'distinct = SHA-1 of the canonical case.')
ASSUMPTIONS = [
    'pattern value at simulation time t is multipliers[floor((t + pattern_start)/pattern_timestep) mod n] '
    '(TimeOptions.pattern_start docstring: "offset to find the starting pattern step"; this is what the '
    'simulator uses); non-wrapping patterns give 0.0 outside (Pattern docstring); with pattern_interpolation '
    'the value is linear between consecutive multipliers (TimeOptions docstring example)',
    'a demand entry without pattern follows options.hydraulic.pattern when a pattern of that name exists, '
    'otherwise it is constant (HydraulicOptions.pattern docstring)',
    'average over a whole common period of wrapping patterns = sum_k base_k * mean(multipliers_k) * demand '
    'multiplier, independent of where the period starts; cases with a non-wrapping pattern skip this sub-check',
    'Todini index (Todini 2000, eq. for I_r): (sum q_i h_i - sum q_i h_i*) / (sum Q_k H_k + sum P_j/gamma - '
    'sum q_i h_i*), h_i* = Pstar + elevation_i, reservoir outflow Q_k = -demand_k, pump term = flow * |head '
    'difference| (power introduced by a pump is a magnitude); tables are generated with head = elevation + '
    'pressure so the spec elevation is the elevation of the tables',
    'modified resilience index is compared as the ratio (Pout - Pexp)/Pexp; the docstring says "percentage" '
    'but gives no factor 100 and the companion Todini index is a ratio (observation, not asserted)',
    'annual_network_cost: tank volume of a cylinder = pi/4 d^2 max_level; for a volume-curve tank the volume '
    'at max_level plus min_level * volume/(max_level - min_level) as the source comment describes; the pump '
    'power is divided by options.energy.global_efficiency exactly as stored; a lookup closer than 1e-9 '
    'relative to a mid-point between two table entries skips the cost sub-check',
    'head-curve coefficients A,B,C of a one-point curve are 4/3 H, H/(3 Q^2), 2 (docstring); for 3-point curves '
    'the coefficients returned by get_head_curve_coefficients are an *input* of the documented power formula '
    '(their derivation belongs to C02)',
    'pump_cost uses the pump\'s own energy_price when set, else options.energy.global_price (EPANET [ENERGY] '
    'semantics; the code path exists although the docstring calls it unsupported)',
    'water_service_availability where expected demand is 0: any non-finite value is accepted',
    'options.energy.global_efficiency is always a number (None, the constructor default, is outside the '
    'quantifier "efficiencies")',
]
TOLERANCES = {
    'relative': '1e-10 on every compared value (task brief / DESIGN.md C20)',
    'summation': '1e-12 * sum|terms| added for sums and ratios of sums: a-priori bound n*eps*sum|x_i| of '
                 'recursive/pairwise summation (Higham, Accuracy and Stability of Numerical Algorithms, eq. 4.4) '
                 'with n <= 5000 terms, eps = 1.1e-16',
    'population_rounding': 'a junction whose average/R is within 1e-9 relative of k + 0.5 accepts both neighbours',
    'simulated_demand': '1e-10 relative + 1e-12 * sum|terms| (the demand-driven simulator copies the parameter)',
    'interpolation': 'with pattern_interpolation an absolute 1e-15*(k+2)*|base*multiplier|*(|m_i|+|m_next|) is added, '
                     'k = pattern step number: rounding of the documented linear interpolation evaluated as '
                     'slope*t + intercept with the intercept anchored at time (k+1)*step (about 10 eps per step)',
}
TECHNIQUE = 'reference formulas re-implemented from docstrings; differential against demand-driven WNTRSimulator'
LEVEL_TEXT = ('exploration: random specs and random result tables; every metric of the statement compared with an '
              'independent plain-python evaluation of its documented formula')
LEVEL_NOTE = ('trusted base: the reference formulas in this module, numpy/pandas arithmetic, the WNTR model builder '
              '(add_junction/add_pattern/...), and for 3-point pump curves get_head_curve_coefficients')

REL = 1e-10
SUM_EPS = 1e-12
MAX_PERIOD_STEPS = 3000
DAY = 86400

# documented default tables (docstrings of annual_network_cost / annual_ghg_emissions)
_INCH = [4, 6, 8, 10, 12, 14, 16, 18, 20, 24, 28, 30]
DEF_TANK = [[500, 14020], [1000, 30640], [2000, 61210], [3750, 87460], [5000, 122420], [10000, 174930]]
DEF_PIPE = list(zip(_INCH, [8.31, 10.10, 12.10, 12.96, 15.22, 16.62, 19.41, 22.20, 24.66, 35.69, 40.08, 42.60]))
DEF_PRV = list(zip(_INCH, [323, 529, 779, 1113, 1892, 2282, 4063, 4452, 4564, 5287, 6122, 6790]))
DEF_PUMP = [[11310, 2850], [22620, 3225], [24880, 3307], [31670, 3563], [38000, 3820], [45240, 4133],
            [49760, 4339], [54280, 4554], [59710, 4823]]
DEF_GHG = list(zip(_INCH, [5.90, 9.71, 13.94, 18.43, 23.16, 28.09, 33.09, 38.35, 43.76, 54.99, 66.57, 72.58]))
# the docstring gives the diameters in inches and (rounded) m / mm; the inch column is the exact one
DOC_M = [0.102, 0.152, 0.203, 0.254, 0.305, 0.356, 0.406, 0.457, 0.508, 0.610, 0.711, 0.762]


def _inch_table(tab):
    return [[d * 0.0254, c] for d, c in tab]


# ------------------------------------------------------------------------------------------- names
def jname(i):
    return 'J%d' % i


def tname(i):
    return 'T%d' % i


def rname(i):
    return 'R%d' % i


def node_name(case, idx):
    """nodes are addressed junctions first, then tanks, then reservoirs"""
    nj, nt = len(case['junctions']), len(case['tanks'])
    if idx < nj:
        return jname(idx)
    if idx < nj + nt:
        return tname(idx - nj)
    return rname(idx - nj - nt)


def all_nodes(case):
    n = len(case['junctions']) + len(case['tanks']) + len(case['reservoirs'])
    return [node_name(case, i) for i in range(n)]


# ------------------------------------------------------------------------------------------- reference model
def _lcm(a, b):
    return a * b // math.gcd(a, b)


def common_period(case):
    """lcm of 24 h and every pattern's period, in seconds"""
    ts = case['time']['pattern_timestep']
    L = DAY
    for p in case['patterns']:
        L = _lcm(L, len(p['mult']) * ts)
    return L


def ref_pattern_at(pat, t, ts, interp):
    m = pat['mult']
    n = len(m)
    if n == 1:
        return m[0]
    k = t // ts
    if pat['wrap']:
        i = k % n
        if interp:
            nxt = m[(i + 1) % n]
            return m[i] + (nxt - m[i]) * ((t - k * ts) / float(ts))
        return m[i]
    if k < 0 or k >= n:
        return 0.0
    return m[k]


def resolve_pattern(case, pidx):
    if pidx is not None:
        return case['patterns'][pidx]
    dp = case['default_pattern']
    if dp is None:
        return None
    for p in case['patterns']:
        if p['name'] == dp:
            return p
    return None


def ref_terms(case, j, t_sim, category=None, shift=True):
    """terms base*pattern*multiplier of junction j at simulation time t_sim"""
    tm = case['time']
    t = t_sim + (tm['pattern_start'] if shift else 0)
    out = []
    for base, pidx, cat in case['junctions'][j]['demands']:
        if category and cat != category:
            continue
        pat = resolve_pattern(case, pidx)
        v = 1.0 if pat is None else ref_pattern_at(pat, t, tm['pattern_timestep'], tm['interpolation'])
        out.append(base * v * case['demand_multiplier'])
    return out


def ref_noise(case, j, t_sim, category=None):
    """absolute rounding allowance of the interpolation formula slope*t + intercept (its intercept is formed at
    the *next* pattern time, so the error grows with the step number): 1e-15 (k+2) |base| dm (|m_i|+|m_next|)"""
    tm = case['time']
    if not tm['interpolation']:
        return 0.0
    t = t_sim + tm['pattern_start']
    k = t // tm['pattern_timestep']
    out = 0.0
    for base, pidx, cat in case['junctions'][j]['demands']:
        if category and cat != category:
            continue
        pat = resolve_pattern(case, pidx)
        if pat is None or len(pat['mult']) < 2:
            continue
        m = pat['mult']
        i = k % len(m)
        out += 1e-15 * (k + 2) * abs(base * case['demand_multiplier']) * (abs(m[i]) + abs(m[(i + 1) % len(m)]))
    return out


def ref_average_terms(case, j, category=None):
    out = []
    for base, pidx, cat in case['junctions'][j]['demands']:
        if category and cat != category:
            continue
        pat = resolve_pattern(case, pidx)
        mean = 1.0 if pat is None else math.fsum(pat['mult']) / len(pat['mult'])
        out.append(base * mean * case['demand_multiplier'])
    return out


def ref_tank_volume(tank, level):
    if tank['curve'] is None:
        return math.pi / 4.0 * tank['diameter'] ** 2 * level
    pts = tank['curve']
    if level <= pts[0][0]:
        return pts[0][1]
    for (x0, y0), (x1, y1) in zip(pts[:-1], pts[1:]):
        if level <= x1:
            return y0 + (y1 - y0) * (level - x0) / (x1 - x0)
    return pts[-1][1]


def nearest(table, value):
    """-> (cost of the nearest entry, ambiguous?)"""
    d = sorted((abs(x - value), i) for i, (x, _c) in enumerate(table))
    amb = len(d) > 1 and (d[1][0] - d[0][0]) <= 1e-9 * max(abs(value), d[1][0], 1e-300)
    return table[d[0][1]][1], amb


def close(a, r, scale=0.0, extra=0.0):
    """a: value under test, r: reference (None = undefined -> a must be non-finite)"""
    a = float(a)
    if r is None or not math.isfinite(r):
        return not math.isfinite(a)
    if not math.isfinite(a):
        return False
    return abs(a - r) <= REL * abs(r) + SUM_EPS * scale + extra + 1e-300


def ratio(num_terms, den_terms, noise=0.0):
    """reference N/D with its conditioning scale -> (ref or None, scale, ill-conditioned?).
    `noise`: size of quantities whose rounding (eps * noise) enters the denominator in the code under test"""
    N, D = math.fsum(num_terms), math.fsum(den_terms)
    SN, SD = math.fsum(abs(x) for x in num_terms), math.fsum(abs(x) for x in den_terms)
    if SD == 0.0 and noise == 0.0:
        return None, 0.0, False      # every term of the denominator is exactly zero: x/0, not finite
    if D == 0.0:
        return None, 0.0, True       # cancels exactly here, maybe not in another summation order
    r = N / D
    scale = 2.0 * (SN + abs(r) * SD) / abs(D)
    ill = abs(D) < 1e-6 * (SD + noise)   # denominator lost > 6 digits: outcome decided by rounding noise
    return r, scale, ill


# ------------------------------------------------------------------------------------------- model builder
def build_model(case):
    import wntr
    from wntr.network.elements import Pattern
    wn = wntr.network.WaterNetworkModel()
    tm = case['time']
    o = wn.options
    o.time.pattern_timestep = tm['pattern_timestep']
    o.time.pattern_start = tm['pattern_start']
    o.time.hydraulic_timestep = tm['hydraulic_timestep']
    o.time.report_timestep = tm['report_timestep']
    o.time.duration = tm['duration']
    o.time.pattern_interpolation = bool(tm['interpolation'])
    o.hydraulic.demand_multiplier = case['demand_multiplier']
    o.hydraulic.pattern = case['default_pattern']
    o.hydraulic.demand_model = 'DDA'
    o.energy.global_efficiency = case['energy']['global_efficiency']
    o.energy.global_price = case['energy']['global_price']
    for p in case['patterns']:
        if p['wrap']:
            wn.add_pattern(p['name'], list(p['mult']))
        else:
            wn.add_pattern(p['name'], Pattern(p['name'], multipliers=list(p['mult']), wrap=False))
    for i, j in enumerate(case['junctions']):
        dem = j['demands']

        def pn(pidx):
            return None if pidx is None else case['patterns'][pidx]['name']
        wn.add_junction(jname(i), base_demand=dem[0][0], demand_pattern=pn(dem[0][1]), elevation=j['elev'],
                        demand_category=dem[0][2])
        node = wn.get_node(jname(i))
        for base, pidx, cat in dem[1:]:
            node.add_demand(base, pn(pidx), cat)
    for i, t in enumerate(case['tanks']):
        cname = None
        if t['curve'] is not None:
            cname = 'VC%d' % i
            wn.add_curve(cname, 'VOLUME', [tuple(pt) for pt in t['curve']])
        wn.add_tank(tname(i), elevation=t['elev'], init_level=t['init_level'], min_level=t['min_level'],
                    max_level=t['max_level'], diameter=t['diameter'], min_vol=0.0, vol_curve=cname)
    for i, r in enumerate(case['reservoirs']):
        wn.add_reservoir(rname(i), base_head=r['head'])
    for i, (a, b, length, diam) in enumerate(case['pipes']):
        wn.add_pipe('P%d' % i, node_name(case, a), node_name(case, b), length=length, diameter=diam,
                    roughness=100.0, minor_loss=0.0)
    for i, p in enumerate(case['pumps']):
        if p['type'] == 'POWER':
            wn.add_pump('PU%d' % i, node_name(case, p['from']), node_name(case, p['to']), 'POWER', p['power'])
        else:
            wn.add_curve('HC%d' % i, 'HEAD', [tuple(pt) for pt in p['curve']])
            wn.add_pump('PU%d' % i, node_name(case, p['from']), node_name(case, p['to']), 'HEAD', 'HC%d' % i)
        if p.get('energy_price') is not None:
            wn.get_link('PU%d' % i).energy_price = p['energy_price']
    for i, (a, b, vtype, diam) in enumerate(case['valves']):
        wn.add_valve('V%d' % i, node_name(case, a), node_name(case, b), diameter=diam, valve_type=vtype,
                     minor_loss=0.0, initial_setting=10.0 if vtype != 'TCV' else 1.0)
    return wn


def _rot(lst, k):
    k = k % len(lst) if lst else 0
    return lst[k:] + lst[:k]


def tables(case):
    """plain nested lists -> dict of row-major tables keyed by names (head derived from the spec)"""
    tb = case['tables']
    nj, nt = len(case['junctions']), len(case['tanks'])
    names = all_nodes(case)
    times = [k * case['time']['report_timestep'] for k in range(len(tb['pressure']))]
    pressure, head, demand = [], [], []
    for r in range(len(times)):
        prow, hrow = {}, {}
        for c, n in enumerate(names):
            if c < nj:
                p = tb['pressure'][r][c]
                z = case['junctions'][c]['elev']
            elif c < nj + nt:
                p = tb['pressure'][r][c]
                z = case['tanks'][c - nj]['elev']
            else:
                p = 0.0
                z = case['reservoirs'][c - nj - nt]['head']
            prow[n] = p
            hrow[n] = z + p
        pressure.append(prow)
        head.append(hrow)
        demand.append({n: tb['demand'][r][c] for c, n in enumerate(names)})
    flow = [{'PU%d' % i: tb['flow'][r][i] for i in range(len(case['pumps']))} for r in range(len(times))]
    return times, names, pressure, head, demand, flow


def frame(rows, times, cols):
    import pandas as pd
    return pd.DataFrame({c: [float(r[c]) for r in rows] for c in cols}, index=list(times), columns=list(cols))


# ------------------------------------------------------------------------------------------- sub-checks
class Collector(object):
    def __init__(self):
        self.fails = []
        self.tags = set()

    def add(self, bucket, detail):
        self.fails.append((bucket, detail))

    def run(self, name, fn):
        try:
            fn()
        except Exception as e:   # the statement promises a value for every generated input
            self.add(exc_bucket(e, 'raises/' + name), '%s raised %r' % (name, e))


def check_expected_demand(case, wn, col):
    import wntr
    tm = case['time']
    nj = len(case['junctions'])

    def compare(df, label, category):
        idx = [v for v in df.index]
        for t in idx:
            if float(t) != int(t):
                col.add('expected_demand/index', '%s: non-integer time %r' % (label, t))
                return
        if sorted(df.columns) != sorted(jname(i) for i in range(nj)):
            col.add('expected_demand/columns', '%s: columns %r' % (label, list(df.columns)))
            return
        bad_shift = bad_other = None
        for t in idx:
            for j in range(nj):
                terms = ref_terms(case, j, int(t), category)
                ref = math.fsum(terms)
                got = df.loc[t, jname(j)]
                if not close(got, ref, math.fsum(abs(x) for x in terms), ref_noise(case, j, int(t), category)):
                    uns = ref_terms(case, j, int(t), category, shift=False)
                    msg = ('%s: junction %s t=%d: expected_demand=%r, base*pattern*multiplier=%r (pattern step '
                           'floor((t+pattern_start)/step)); pattern_start=%d step=%d'
                           % (label, jname(j), int(t), float(got), ref, tm['pattern_start'], tm['pattern_timestep']))
                    if close(got, math.fsum(uns), math.fsum(abs(x) for x in uns),
                             2 * ref_noise(case, j, int(t), category)):
                        bad_shift = bad_shift or msg + ' -- equals the value for pattern_start=0'
                    else:
                        bad_other = bad_other or msg
        if bad_other:
            col.add('expected_demand/value', bad_other)
        elif bad_shift:
            col.add('expected_demand/pattern_start_ignored', bad_shift)
        return idx

    def default():
        df = wntr.metrics.expected_demand(wn)
        idx = compare(df, 'expected_demand(wn)', None)
        grid = list(range(0, tm['duration'] + 1, tm['report_timestep']))
        if idx is not None and [int(t) for t in idx] != grid:
            col.add('expected_demand/times', 'index %r, report grid %r' % ([int(t) for t in idx], grid))
    col.run('expected_demand', default)

    q = case.get('query')
    if q:
        def query():
            df = wntr.metrics.expected_demand(wn, start_time=q['start'], end_time=q['end'], timestep=q['timestep'],
                                              category=q['category'])
            idx = compare(df, 'expected_demand(wn,%d,%d,%d,%r)' % (q['start'], q['end'], q['timestep'], q['category']),
                          q['category'])
            if idx is None:
                return
            grid = list(range(q['start'], q['end'] + 1, q['timestep']))
            got = [int(t) for t in idx]
            if got[:len(grid)] != grid:
                col.add('expected_demand/times', 'index %r does not start with the grid %r' % (got, grid))
            elif len(got) > len(grid):
                col.tags.add('obs:index_beyond_end_time')
        col.run('expected_demand', query)


def check_average(case, wn, col):
    import wntr
    nj = len(case['junctions'])
    if any(not p['wrap'] for p in case['patterns']):
        col.tags.add('skip:average(nonwrap)')
        return
    tm = case['time']
    avg_ok = [True]

    def window_mean(j, category, offset, length):
        ts = tm['pattern_timestep']
        vals = []
        t = offset
        while t < offset + length:
            vals.append(math.fsum(ref_terms(case, j, t, category, shift=False)))
            t += ts
        return math.fsum(vals) / len(vals)

    def one(category, label):
        ser = wntr.metrics.average_expected_demand(wn, category=category) if category else \
            wntr.metrics.average_expected_demand(wn)
        if sorted(ser.index) != sorted(jname(i) for i in range(nj)):
            col.add('average_expected_demand/index', '%s: %r' % (label, list(ser.index)))
            return
        for j in range(nj):
            terms = ref_average_terms(case, j, category)
            ref = math.fsum(terms)
            got = float(ser[jname(j)])
            # scale: the mean is taken over up to MAX_PERIOD_STEPS values of size sum|base*max|mult|*dm|
            sc = 0.0
            for base, pidx, cat in case['junctions'][j]['demands']:
                pat = resolve_pattern(case, pidx)
                mx = 1.0 if pat is None else max(abs(x) for x in pat['mult'])
                sc += abs(base * mx * case['demand_multiplier'])
            noise = ref_noise(case, j, 2 * common_period(case), category)
            if not close(got, ref, sc, noise):
                avg_ok[0] = False
                ps = tm['pattern_start']
                msg = ('%s: junction %s: got %r, mean over a common period (%d s) = %r'
                       % (label, jname(j), got, common_period(case), ref))
                day = any(close(got, window_mean(j, category, off, DAY), sc) for off in (ps, 0, 2 * ps))
                if day and common_period(case) != DAY:
                    col.add('average_expected_demand/period_is_24h',
                            msg + ' -- equals the mean over a 24 h window although the common period is longer')
                else:
                    col.add('average_expected_demand/value', msg)
                return
    col.run('average_expected_demand', lambda: one(None, 'average_expected_demand(wn)'))
    q = case.get('query')
    if q and q['category']:
        col.run('average_expected_demand', lambda: one(q['category'], 'average_expected_demand(wn,%r)' % q['category']))

    def pop():
        R = case['R']
        ser = wntr.metrics.population(wn) if R is None else wntr.metrics.population(wn, R)
        Rv = 0.00000876157 if R is None else R
        for j in range(nj):
            ref = math.fsum(ref_average_terms(case, j)) / Rv
            lo, hi = ref * (1 - 1e-9), ref * (1 + 1e-9)
            cands = {float(round(lo)), float(round(hi)), float(round(ref)),
                     float(math.floor(ref + 0.5)), float(math.ceil(ref - 0.5))}
            # nearest integers of the perturbed value; ties (x.5) accept both neighbours
            ok = {c for c in cands if abs(c - ref) <= 0.5 + 1e-9 * max(1.0, abs(ref))}
            got = float(ser[jname(j)])
            if got not in ok:
                if not avg_ok[0]:
                    return      # same root cause as the average
                col.add('population/value', 'junction %s: population=%r, average/R=%r' % (jname(j), got, ref))
                return
    col.run('population', pop)


def check_tables(case, wn, col):
    import pandas as pd
    import wntr
    nj, nt, nr = len(case['junctions']), len(case['tanks']), len(case['reservoirs'])
    times, names, pressure, head, demand, flow = tables(case)
    rot = case.get('rot', 0)
    jn = [jname(i) for i in range(nj)]
    tn = [tname(i) for i in range(nt)]
    rn = [rname(i) for i in range(nr)]
    pn = ['PU%d' % i for i in range(len(case['pumps']))]
    Pstar = case['Pstar']
    H = frame(head, times, _rot(names, rot))
    P = frame(pressure, times, _rot(names, rot + 1))
    D = frame(demand, times, _rot(names, rot + 2))
    Q = frame(flow, times, _rot(pn, rot))
    zs = [j['elev'] for j in case['junctions']]

    # ---- water service availability (expected demand = reference values on the report grid)
    exp_rows = [{jn[j]: math.fsum(ref_terms(case, j, t)) for j in range(nj)} for t in times]

    def wsa():
        E = frame(exp_rows, times, jn)
        Dj = frame(demand, times, _rot(jn, rot))
        w = wntr.metrics.water_service_availability(E, Dj)
        for r, t in enumerate(times):
            for n in jn:
                e, d = exp_rows[r][n], demand[r][n]
                ref = None if e == 0.0 else d / e
                if not close(w.loc[t, n], ref):
                    col.add('water_service_availability/frame', 't=%d %s: got %r, demand/expected=%r/%r'
                            % (t, n, float(w.loc[t, n]), d, e))
                    return
        for axis, keys in ((0, jn), (1, times)):
            es, ds = E.sum(axis=axis), Dj.sum(axis=axis)
            w = wntr.metrics.water_service_availability(es, ds)
            for k in keys:
                # the sums themselves are the caller's (documented) input: use the same floats
                e, d = float(es[k]), float(ds[k])
                ref = None if e == 0.0 else d / e
                if not close(w[k], ref):
                    col.add('water_service_availability/series', 'axis=%d key=%r: got %r, %r/%r'
                            % (axis, k, float(w[k]), d, e))
                    return
    col.run('water_service_availability', wsa)

    # ---- Todini index
    def todini():
        res = wntr.metrics.todini_index(H, P, D, Q, wn, Pstar)
        for r, t in enumerate(times):
            pout = [demand[r][n] * head[r][n] for n in jn]
            pexp = [demand[r][n] * (Pstar + z) for n, z in zip(jn, zs)]
            noise = [demand[r][n] * pressure[r][n] for n in jn]
            pres = [-demand[r][n] * head[r][n] for n in rn]
            ppump = []
            for i, p in enumerate(case['pumps']):
                dh = head[r][node_name(case, p['to'])] - head[r][node_name(case, p['from'])]
                ppump.append(flow[r]['PU%d' % i] * abs(dh))
            num = pout + [-x for x in pexp]
            den = pres + ppump + [-x for x in pexp]
            ref, scale, ill = ratio(num, den, math.fsum(abs(x) for x in noise + pout))
            if ill:
                col.tags.add('skip:todini_row_ill_conditioned')
                continue
            extra = 0.0 if ref is None else math.fsum(abs(x) for x in noise) / abs(math.fsum(den)) * (1 + abs(ref))
            if not close(res.loc[t], ref, scale + 2 * extra):
                neg = any((head[r][node_name(case, p['to'])] - head[r][node_name(case, p['from'])]) < 0
                          for p in case['pumps'])
                col.add('todini_index/value' + ('_negative_pump_gain' if neg else ''),
                        't=%d: todini=%r, formula=%r (Pout=%r Pexp=%r Pin_res=%r Pin_pump=%r)'
                        % (t, float(res.loc[t]), ref, math.fsum(pout), math.fsum(pexp), math.fsum(pres),
                           math.fsum(ppump)))
                return
    col.run('todini_index', todini)

    # ---- modified resilience index
    def mri():
        Pj = frame(pressure, times, _rot(jn, rot))
        Dj = frame(demand, times, _rot(jn, rot + 1))
        elev = pd.Series({n: float(z) for n, z in zip(_rot(jn, rot + 2), _rot(zs, rot + 2))})
        per = wntr.metrics.modified_resilience_index(Pj, elev, Pstar, per_junction=True)
        for r, t in enumerate(times):
            for n, z in zip(jn, zs):
                p = pressure[r][n]
                ref, scale, ill = ratio([p + z, -(Pstar + z)], [Pstar, z])
                if ill:
                    continue
                if not close(per.loc[t, n], ref, scale):
                    col.add('modified_resilience_index/per_junction', 't=%d %s: got %r, (p-P*)/(P*+z)=%r (p=%r z=%r P*=%r)'
                            % (t, n, float(per.loc[t, n]), ref, p, z, Pstar))
                    return
        tot = wntr.metrics.modified_resilience_index(Pj, elev, Pstar, demand=Dj, per_junction=False)
        for r, t in enumerate(times):
            pout = [demand[r][n] * (pressure[r][n] + z) for n, z in zip(jn, zs)]
            pexp = [demand[r][n] * (Pstar + z) for n, z in zip(jn, zs)]
            ref, scale, ill = ratio(pout + [-x for x in pexp], pexp)
            if ill:
                col.tags.add('skip:mri_row_ill_conditioned')
                continue
            if not close(tot.loc[t], ref, scale):
                col.add('modified_resilience_index/system', 't=%d: got %r, formula=%r' % (t, float(tot.loc[t]), ref))
                return
    col.run('modified_resilience_index', mri)

    # ---- tank capacity
    def tankcap():
        Pt = frame(pressure, times, _rot(tn, rot))
        res = wntr.metrics.tank_capacity(Pt, wn)
        if sorted(res.columns) != sorted(tn):
            col.add('tank_capacity/columns', repr(list(res.columns)))
            return
        for r, t in enumerate(times):
            for i, n in enumerate(tn):
                tk = case['tanks'][i]
                ref = ref_tank_volume(tk, pressure[r][n]) / ref_tank_volume(tk, tk['max_level'])
                if not close(res.loc[t, n], ref):
                    col.add('tank_capacity/' + ('curve' if tk['curve'] else 'cylinder'),
                            't=%d %s level=%r: got %r, V(level)/V(max_level)=%r'
                            % (t, n, pressure[r][n], float(res.loc[t, n]), ref))
                    return
    if nt:
        col.run('tank_capacity', tankcap)

    # ---- pump power / energy / cost
    def pumps():
        eff = case['energy']['global_efficiency']
        power = wntr.metrics.pump_power(Q, H, wn)
        energy = wntr.metrics.pump_energy(Q, H, wn)
        ref_energy = []
        for r, t in enumerate(times):
            row = {}
            for i, p in enumerate(case['pumps']):
                n = 'PU%d' % i
                dh = head[r][node_name(case, p['to'])] - head[r][node_name(case, p['from'])]
                ref = 1000.0 * 9.81 * dh * flow[r][n] / (eff / 100.0)
                if not close(power.loc[t, n], ref):
                    col.add('pump_power/value', 't=%d %s: got %r, 9810*dh*q/(eff/100)=%r (dh=%r q=%r eff=%r)'
                            % (t, n, float(power.loc[t, n]), ref, dh, flow[r][n], eff))
                    return
                refe = ref * case['time']['report_timestep']
                row[n] = refe
                if not close(energy.loc[t, n], refe):
                    col.add('pump_energy/value', 't=%d %s: got %r, power*report_timestep=%r (report %d s, hydraulic %d s)'
                            % (t, n, float(energy.loc[t, n]), refe, case['time']['report_timestep'],
                               case['time']['hydraulic_timestep']))
                    return
            ref_energy.append(row)
        E = frame(ref_energy, times, _rot(pn, rot + 1))
        cost = wntr.metrics.pump_cost(E, wn)
        for r, t in enumerate(times):
            for i, p in enumerate(case['pumps']):
                n = 'PU%d' % i
                price = p['energy_price'] if p.get('energy_price') is not None else case['energy']['global_price']
                ref = ref_energy[r][n] * price
                if not close(cost.loc[t, n], ref):
                    col.add('pump_cost/value', 't=%d %s: got %r, energy*price=%r*%r' %
                            (t, n, float(cost.loc[t, n]), ref_energy[r][n], price))
                    return
    if pn:
        col.run('pump_power_energy_cost', pumps)


def check_economic(case, wn, col):
    import pandas as pd
    import wntr
    ct = case.get('cost_tables') or {}

    def table(key, default):
        return [list(x) for x in ct[key]] if ct.get(key) else default

    def series(key):
        if not ct.get(key):
            return None
        return pd.Series([float(c) for _x, c in ct[key]], index=[float(x) for x, _c in ct[key]])

    tank_tab = table('tank', [list(x) for x in DEF_TANK])
    pipe_tab = table('pipe', _inch_table(DEF_PIPE))
    prv_tab = table('prv', _inch_table(DEF_PRV))
    pump_tab = table('pump', [list(x) for x in DEF_PUMP])
    ghg_tab = table('ghg', _inch_table(DEF_GHG))
    eff = case['energy']['global_efficiency']
    amb = [False]
    terms = []

    def look(tab, v):
        c, a = nearest(tab, v)
        amb[0] = amb[0] or a
        return c

    for tk in case['tanks']:
        if tk['curve'] is None:
            vol = math.pi * (tk['diameter'] / 2.0) ** 2 * tk['max_level']
        else:
            v = ref_tank_volume(tk, tk['max_level'])
            vol = v + tk['min_level'] * v / (tk['max_level'] - tk['min_level'])
        terms.append(look(tank_tab, vol))
    for a, b, length, diam in case['pipes']:
        terms.append(look(pipe_tab, diam) * length)
    head_ok = True
    for i, p in enumerate(case['pumps']):
        if p['type'] == 'POWER':
            pmax = p['power'] / eff
        else:
            if len(p['curve']) == 1:
                q0, h0 = p['curve'][0]
                A, B, C = 4.0 / 3.0 * h0, h0 / (3.0 * q0 * q0), 2.0
            else:
                try:
                    A, B, C = wn.get_link('PU%d' % i).get_head_curve_coefficients()
                except Exception:
                    head_ok = False
                    continue
            qs = (A / (B * (C + 1.0))) ** (1.0 / C)
            pmax = 9.81 * 1000.0 * qs * (A - B * qs ** C) / eff
        terms.append(look(pump_tab, pmax))
    for a, b, vtype, diam in case['valves']:
        if vtype == 'PRV':
            terms.append(look(prv_tab, diam))
    ghg_amb = [False]
    ghg_terms = []
    for a, b, length, diam in case['pipes']:
        c, am = nearest(ghg_tab, diam)
        ghg_amb[0] = ghg_amb[0] or am
        ghg_terms.append(c * length)

    def cost():
        if not head_ok:
            col.tags.add('skip:cost(head curve fit)')
            return
        if amb[0]:
            col.tags.add('skip:cost(midpoint)')
            return
        got = wntr.metrics.annual_network_cost(wn, tank_cost=series('tank'), pipe_cost=series('pipe'),
                                               prv_cost=series('prv'), pump_cost=series('pump'))
        ref = math.fsum(terms)
        if not close(got, ref, math.fsum(abs(x) for x in terms)):
            # attribute the difference to one component class by recomputing partial networks is not possible
            # on the spec alone; give the component sums instead
            col.add('annual_network_cost/value', 'got %r, formula %r (terms %r, efficiency as stored %r)'
                    % (float(got), ref, terms[:12], eff))
    col.run('annual_network_cost', cost)

    def ghg():
        if ghg_amb[0]:
            col.tags.add('skip:ghg(midpoint)')
            return
        got = wntr.metrics.annual_ghg_emissions(wn, pipe_ghg=series('ghg'))
        ref = math.fsum(ghg_terms)
        if not close(got, ref, math.fsum(abs(x) for x in ghg_terms)):
            col.add('annual_ghg_emissions/value', 'got %r, formula %r (terms %r)' % (float(got), ref, ghg_terms[:12]))
    col.run('annual_ghg_emissions', ghg)


def check_simulation(case, wn, col):
    """demand delivered by the demand-driven WNTRSimulator at every report time = the formula"""
    import wntr
    nj = len(case['junctions'])
    try:
        sim = wntr.sim.WNTRSimulator(wn)
        res = sim.run_sim()
    except Exception as e:
        return 'simulation failed: %s' % type(e).__name__
    dem = res.node['demand']
    tm = case['time']
    grid = list(range(0, tm['duration'] + 1, tm['report_timestep']))
    if [int(t) for t in dem.index] != grid:
        return 'simulation stopped early'
    exp = None
    try:
        exp = wntr.metrics.expected_demand(wn)
    except Exception:
        pass        # already reported by check_expected_demand
    for t in grid:
        for j in range(nj):
            terms = ref_terms(case, j, t)
            ref = math.fsum(terms)
            sc = math.fsum(abs(x) for x in terms)
            got = float(dem.loc[t, jname(j)])
            noise = ref_noise(case, j, t)
            if not close(got, ref, sc, noise):
                col.add('simulator_demand/differs_from_formula',
                        't=%d %s: simulated demand %r, base*pattern*multiplier %r' % (t, jname(j), got, ref))
                return None
            if exp is not None and not close(float(exp.loc[t, jname(j)]), got, sc, 2 * noise):
                uns = math.fsum(ref_terms(case, j, t, shift=False))
                key = 'expected_demand/pattern_start_ignored' if close(float(exp.loc[t, jname(j)]), uns, sc, 2 * noise) \
                    else 'expected_demand/differs_from_simulator'
                if not any(b == key for b, _d in col.fails):
                    col.add(key, 't=%d %s: expected_demand %r but WNTRSimulator (DD) delivered %r; pattern_start=%d'
                            % (t, jname(j), float(exp.loc[t, jname(j)]), got, tm['pattern_start']))
                return None
    return None


# ------------------------------------------------------------------------------------------- revisions
class Prefixed(Collector):
    """reports into another collector under a bucket prefix"""
    def __init__(self, prefix, base):
        self.prefix = prefix
        self.fails = base.fails
        self.tags = base.tags

    def add(self, bucket, detail):
        self.fails.append((self.prefix + bucket, detail))


def explicit_refs(case):
    return {pidx for j in case['junctions'] for _b, pidx, _c in j['demands'] if pidx is not None}


def apply_revision(case, wn, rev):
    """one edit of the *same* model object after the metrics have been evaluated on it; returns the revised spec.
    ['mult', pidx, m]      pattern.multipliers = m                      (in place)
    ['readd', pidx, m]     remove_pattern(name); add_pattern(name, m)   (only patterns without registered usage)
    ['remove', pidx]       remove_pattern(name)                         (only patterns nothing refers to explicitly)
    ['default', name]      options.hydraulic.pattern = name
    ['retarget', j, k, pidx]  junction j, demand entry k: pattern_name = name of pattern pidx (never None: the
                              setter stores None as 'no pattern', the constructors as 'default pattern')"""
    import copy
    from wntr.network.elements import Pattern
    case = copy.deepcopy(case)
    case.pop('revisions', None)
    op = rev[0]
    if op == 'mult':
        p = case['patterns'][rev[1]]
        wn.get_pattern(p['name']).multipliers = list(rev[2])
        p['mult'] = list(rev[2])
    elif op == 'readd':
        p = case['patterns'][rev[1]]
        wn.remove_pattern(p['name'])
        if p['wrap']:
            wn.add_pattern(p['name'], list(rev[2]))
        else:
            wn.add_pattern(p['name'], Pattern(p['name'], multipliers=list(rev[2]), wrap=False))
        p['mult'] = list(rev[2])
    elif op == 'remove':
        idx = rev[1]
        wn.remove_pattern(case['patterns'][idx]['name'])
        case['patterns'].pop(idx)
        for j in case['junctions']:
            for d in j['demands']:
                if d[1] is not None and d[1] > idx:
                    d[1] -= 1
    elif op == 'default':
        wn.options.hydraulic.pattern = rev[1]
        case['default_pattern'] = rev[1]
    elif op == 'retarget':
        _op, j, k, pidx = rev
        ts = wn.get_node(jname(j)).demand_timeseries_list[k]
        ts.pattern_name = case['patterns'][pidx]['name']
        case['junctions'][j]['demands'][k][1] = pidx
    else:
        raise ValueError(op)
    return case


def check_revisions(case, wn, col, tags):
    """the demand formulas on the model as it is after each revision (a history of one model object)"""
    cur = case
    for rev in case.get('revisions') or []:
        op = rev[0]
        tags.add('revision:' + op)
        if op in ('readd', 'remove') and cur['patterns'][rev[1]]['name'] == cur['default_pattern'] and \
                any(d[1] is None and d[0] != 0.0 for j in cur['junctions'] for d in j['demands']):
            tags.add('revision:%s_default_in_use' % op)
        try:
            cur = apply_revision(cur, wn, rev)
        except Exception as e:
            return 'revision %r refused: %s' % (rev[:2], type(e).__name__)
        pc = Prefixed('after_revision/%s/' % op, col)
        check_expected_demand(cur, wn, pc)
        check_average(cur, wn, pc)
        if case.get('simulate'):
            wn.reset_initial_values()
            why = check_simulation(cur, wn, pc)
            if why:
                return why
    return None


# buckets of the two predicted defects: reported only when nothing else fails in the same case, so that they
# cannot mask a different root cause
PREDICTED = ('expected_demand/pattern_start_ignored', 'average_expected_demand/period_is_24h')


def case_tags(case):
    tm = case['time']
    ts = tm['pattern_timestep']
    tags = set()
    used = set()
    cats = set()
    default_used = False
    for j in case['junctions']:
        for base, pidx, cat in j['demands']:
            if cat:
                cats.add(cat)
            if pidx is None:
                default_used = default_used or resolve_pattern(case, None) is not None
            pat = resolve_pattern(case, pidx)
            if pat is not None and base != 0.0:
                used.add(pat['name'])
    tags.add('period_not_dividing_day' if any(DAY % (len(p['mult']) * ts) for p in case['patterns'])
             else 'period_divides_day')
    if DAY % ts:
        tags.add('step_not_dividing_day')
    ps = tm['pattern_start']
    tags.add('pattern_start:' + ('0' if ps == 0 else 'multiple' if ps % ts == 0 else 'offgrid'))
    if len(cats) > 1:
        tags.add('multi_category')
    if any(len(j['demands']) > 1 for j in case['junctions']):
        tags.add('multi_demand')
    if default_used:
        tags.add('default_pattern_used')
    if tm['interpolation']:
        tags.add('interpolation')
    if any(not p['wrap'] for p in case['patterns']):
        tags.add('nonwrap_pattern')
    if case['demand_multiplier'] != 1.0:
        tags.add('multiplier!=1')
    for t in case['tanks']:
        tags.add('tank:curve' if t['curve'] else 'tank:cylinder')
    for p in case['pumps']:
        tags.add('pump:power' if p['type'] == 'POWER' else 'pump:head%d' % len(p['curve']))
        if p.get('energy_price') is not None:
            tags.add('pump_price')
    tags.add('npumps:%d' % len(case['pumps']))
    tags.add('nres:%d' % len(case['reservoirs']))
    for v in case['valves']:
        tags.add('valve:' + v[2])
    if case.get('cost_tables'):
        tags.add('custom_tables')
    if case.get('query'):
        tags.add('query')
        if case['query']['category']:
            tags.add('query_category')
        if (case['query']['end'] - case['query']['start']) % case['query']['timestep']:
            tags.add('query_end_off_grid')
    if tm['report_timestep'] != tm['hydraulic_timestep']:
        tags.add('report!=hydraulic_step')
    if case.get('simulate'):
        tags.add('simulate')
    nontrivial = any(len(resolve_pattern(case, pidx)['mult']) >= 2
                     for j in case['junctions'] for base, pidx, cat in j['demands']
                     if base != 0.0 and resolve_pattern(case, pidx) is not None) and case['demand_multiplier'] != 0.0
    return tags, nontrivial


def check(case):
    tags, nontrivial = case_tags(case)
    try:
        wn = build_model(case)
    except Exception as e:
        return inconclusive('model builder raised %s' % type(e).__name__, tags)
    col = Collector()
    times, names, pressure, head, demand, flow = tables(case)
    if any((head[r][node_name(case, p['to'])] - head[r][node_name(case, p['from'])]) < 0
           for r in range(len(times)) for p in case['pumps']):
        tags.add('pump_gain_negative')
    check_expected_demand(case, wn, col)
    check_average(case, wn, col)
    check_tables(case, wn, col)
    check_economic(case, wn, col)
    if case.get('simulate'):
        why = check_simulation(case, wn, col)
        if why:
            tags.add('sim_inconclusive')
            if not col.fails:
                return inconclusive(why, tags | col.tags)
    if case.get('revisions'):
        why = check_revisions(case, wn, col, tags)
        if why:
            tags.add('revision_inconclusive')
            if not col.fails:
                return inconclusive(why, tags | col.tags)
    tags |= col.tags
    if col.fails:
        first = [f for f in col.fails if f[0] not in PREDICTED] or col.fails
        bucket, detail = first[0]
        return fail(bucket, detail + ' | all buckets in this case: %s' % sorted({b for b, _ in col.fails}), tags,
                    nontrivial=True)
    return passed(nontrivial, tags)


# ------------------------------------------------------------------------------------------- generator
def _f(lo, hi):
    return st.floats(min_value=lo, max_value=hi, allow_nan=False, allow_infinity=False, allow_subnormal=False)


_mult = st.one_of(_f(0.0, 3.0), st.sampled_from([0.0, 1.0, 0.5, 2.0]), _f(-1.0, 0.0))
_base = st.one_of(_f(0.0, 0.02), _f(0.0, 0.02), st.sampled_from([0.0, 0.001, 0.01]), _f(-0.01, 0.0))
_cat = st.sampled_from([None, None, 'dom', 'ind', 'irr'])
_diam = st.one_of(st.sampled_from([d * 0.0254 for d in _INCH] + DOC_M + [0.05, 0.09, 0.33, 1.0, 1.5]),
                  _f(0.02, 1.6))
_steps = [3600, 3600, 1800, 7200, 900, 600, 5400, 10800, 5000, 7000]


def _limit_period(patterns, ts):
    """shorten the longest pattern until the common period has at most MAX_PERIOD_STEPS steps"""
    def steps():
        L = DAY
        for p in patterns:
            L = _lcm(L, len(p['mult']) * ts)
        return L // ts
    while steps() > MAX_PERIOD_STEPS:
        cand = [p for p in patterns if len(p['mult']) > (2 if not p['wrap'] else 1)]
        if not cand:
            break
        longest = max(cand, key=lambda p: len(p['mult']))
        longest['mult'] = longest['mult'][:-1]


@st.composite
def strategy(draw, tier='quick'):
    simulate = draw(st.integers(0, 4)) == 0
    ts = draw(st.sampled_from(_steps))
    npat = draw(st.integers(1, 4))
    one_idx = draw(st.integers(-1, npat - 1))       # which pattern (if any) is called '1'
    patterns = []
    for i in range(npat):
        n = draw(st.one_of(st.integers(1, 14), st.sampled_from([24, 12, 48, 5, 7, 9])))
        wrap = draw(st.integers(0, 29)) != 7
        if not wrap:
            n = max(n, 2)
        patterns.append({'name': '1' if i == one_idx else 'pt%d' % i,
                         'mult': draw(st.lists(_mult, min_size=n, max_size=n)), 'wrap': wrap})
    _limit_period(patterns, ts)
    dp = draw(st.sampled_from(['1', '1', '1', '1', None, 'other']))
    if dp == 'other':
        dp = patterns[draw(st.integers(0, npat - 1))]['name']
    interp = draw(st.integers(0, 9)) == 3 and all(p['wrap'] for p in patterns)
    ps_kind = draw(st.sampled_from(['0', '0', 'mult', 'mult', 'off']))
    if ps_kind == '0':
        pstart = 0
    elif ps_kind == 'mult':
        pstart = ts * draw(st.integers(1, 30))
    else:
        pstart = ts * draw(st.integers(0, 30)) + draw(st.integers(1, ts - 1))
    hyd = draw(st.sampled_from([3600, 1800, 900, 7200]))
    rep = hyd * draw(st.integers(1, 3))
    nsteps = draw(st.integers(0, 7 if simulate else 5))
    time = {'pattern_timestep': ts, 'pattern_start': pstart, 'hydraulic_timestep': hyd, 'report_timestep': rep,
            'duration': rep * nsteps, 'interpolation': bool(interp)}
    dm = draw(st.one_of(st.just(1.0), _f(0.1, 3.0)))

    free_default = draw(st.booleans())
    nj = draw(st.integers(1, 5))
    nt = draw(st.integers(0, 2))
    nr = draw(st.integers(1, 2))
    junctions = []
    for j in range(nj):
        nd = draw(st.integers(1, 4))
        dem = []
        for _ in range(nd):
            pidx = draw(st.one_of(st.none(), st.integers(0, npat - 1), st.integers(0, npat - 1)))
            if free_default and pidx is not None and patterns[pidx]['name'] == dp:
                pidx = None         # the default pattern is then only used through the default
            dem.append([draw(_base), pidx, draw(_cat)])
        junctions.append({'elev': draw(st.one_of(_f(0.0, 120.0), st.sampled_from([0.0, 10.0]), _f(-20.0, 0.0))),
                          'demands': dem})
    tanks = []
    for i in range(nt):
        minl = draw(st.one_of(st.just(0.0), _f(0.0, 3.0)))
        maxl = minl + draw(_f(1.0, 12.0))
        diam = draw(_f(3.0, 40.0))
        curve = None
        if draw(st.booleans()):
            npts = draw(st.integers(2, 5))
            xs = [0.0]
            for _ in range(npts - 1):
                xs.append(xs[-1] + draw(_f(0.5, 8.0)))
            scale_x = (maxl + draw(_f(0.0, 2.0))) / xs[-1]      # the curve covers [0, >= max_level]
            xs = [x * scale_x for x in xs]
            xs[-1] = max(xs[-1], maxl)
            ys = [draw(st.one_of(st.just(0.0), _f(0.0, 300.0)))]
            for _ in range(npts - 1):
                ys.append(ys[-1] + draw(_f(20.0, 4000.0)))
            curve = [[x, y] for x, y in zip(xs, ys)]
        tanks.append({'elev': draw(_f(20.0, 150.0)), 'min_level': minl, 'max_level': maxl,
                      'init_level': minl + (maxl - minl) * draw(_f(0.3, 0.9)), 'diameter': diam, 'curve': curve})
    reservoirs = [{'head': draw(_f(30.0, 90.0) if simulate else _f(-5.0, 90.0))} for _ in range(nr)]

    def J(i):
        return i

    def T(i):
        return nj + i

    def R(i):
        return nj + nt + i
    pipes = []
    for j in range(nj):
        parent = R(0) if j == 0 else draw(st.sampled_from([J(k) for k in range(j)] + [R(0)]))
        pipes.append([parent, J(j), draw(_f(10.0, 1500.0)), draw(_diam) if not simulate else draw(_f(0.15, 0.8))])
    for i in range(nt):
        pipes.append([J(draw(st.integers(0, nj - 1))), T(i), draw(_f(10.0, 800.0)),
                      draw(_diam) if not simulate else draw(_f(0.15, 0.8))])
    if nj >= 2:
        for _ in range(draw(st.integers(0, 2))):
            a = draw(st.integers(0, nj - 2))
            b = draw(st.integers(a + 1, nj - 1))
            pipes.append([J(a), J(b), draw(_f(10.0, 1500.0)), draw(_diam) if not simulate else draw(_f(0.15, 0.8))])
    pumps = []
    r1_by_pump = nr == 2 and draw(st.booleans())     # the second reservoir feeds through a pipe or a pump
    if nr == 2 and not r1_by_pump:
        pipes.append([R(1), J(draw(st.integers(0, nj - 1))), draw(_f(10.0, 1500.0)),
                      draw(_diam) if not simulate else draw(_f(0.15, 0.8))])
    for ip in range(draw(st.integers(1 if r1_by_pump else 0, 3))):
        to = draw(st.integers(0, nj - 1))
        src = R(1) if (r1_by_pump and ip == 0) else \
            draw(st.sampled_from([R(k) for k in range(nr)] + [J(k) for k in range(to)]))
        kind = draw(st.sampled_from(['HEAD1', 'HEAD1', 'HEAD3', 'POWER'] if not simulate else ['HEAD1', 'HEAD3']))
        p = {'from': src, 'to': J(to), 'type': 'HEAD' if kind != 'POWER' else 'POWER', 'energy_price': None}
        if kind == 'POWER':
            p['power'] = draw(st.one_of(_f(500.0, 80000.0), _f(1e4, 5e6)))
        elif kind == 'HEAD1':
            p['curve'] = [[draw(_f(0.005, 0.5)), draw(_f(5.0, 120.0))]]
        else:
            A = draw(_f(10.0, 120.0))
            C = draw(_f(1.2, 2.6))
            q2 = draw(_f(0.02, 0.6))
            q1 = q2 * draw(_f(0.3, 0.7))
            B = A * draw(_f(0.3, 0.9)) / q2 ** C
            p['curve'] = [[0.0, A], [q1, A - B * q1 ** C], [q2, A - B * q2 ** C]]
        if draw(st.integers(0, 3)) == 0:
            p['energy_price'] = draw(_f(0.0, 1e-6))
        pumps.append(p)
    valves = []
    if nj >= 2 and not simulate:
        for _ in range(draw(st.integers(0, 2))):
            a = draw(st.integers(0, nj - 2))
            b = draw(st.integers(a + 1, nj - 1))
            valves.append([J(a), J(b), draw(st.sampled_from(['PRV', 'PRV', 'PSV', 'FCV', 'TCV', 'PBV'])), draw(_diam)])
    energy = {'global_efficiency': draw(st.one_of(st.sampled_from([75.0, 100.0, 0.75, 1.0, 50]), _f(0.3, 100.0))),
              'global_price': draw(st.one_of(st.sampled_from([0.0, 3.61e-8]), _f(0.0, 1e-6)))}

    # result tables on the report grid
    nrows = nsteps + 1
    nn = nj + nt + nr
    zero_dem = draw(st.integers(0, 15)) == 0
    pump_up = draw(st.integers(0, 3)) != 0
    press, demand, flow = [], [], []
    for r in range(nrows):
        prow = [draw(st.one_of(_f(0.0, 100.0), _f(-15.0, 0.0))) if draw(st.integers(0, 5)) else 0.0 for _ in range(nj)]
        for tk in tanks:
            prow.append(tk['min_level'] + (tk['max_level'] - tk['min_level']) * draw(_f(0.0, 1.0)))
        prow += [0.0] * nr
        if pump_up:     # a running pump adds head: raise the discharge-side pressure where needed
            for p in sorted(pumps, key=lambda p: p['to']):
                src = p['from']
                if src >= nj + nt:
                    hs = reservoirs[src - nj - nt]['head']
                else:
                    hs = junctions[src]['elev'] + prow[src]
                zt = junctions[p['to']]['elev']
                if zt + prow[p['to']] < hs:
                    prow[p['to']] = hs - zt + 1.0
        press.append(prow)
        drow = [0.0 if zero_dem else draw(st.one_of(_f(0.0, 0.05), st.sampled_from([0.0]), _f(-0.01, 0.0)))
                for _ in range(nj)]
        drow += [draw(_f(-0.05, 0.05)) for _ in range(nt)]
        drow += [draw(st.one_of(_f(-0.3, 0.0), _f(0.0, 0.05))) for _ in range(nr)]
        demand.append(drow)
        flow.append([draw(st.one_of(_f(0.0, 0.6), st.sampled_from([0.0]), _f(-0.05, 0.0))) for _ in pumps])
    query = None
    if draw(st.booleans()):
        qstep = draw(st.sampled_from([ts, ts, 3600, 1800, 1234, 2 * ts, 900, 7 * 3600]))
        qstart = draw(st.sampled_from([0, 0, ts, 3600, 17, 5 * ts + 60]))
        n = draw(st.integers(0, 12))
        rem = draw(st.sampled_from([0, 0, 0, 1, qstep // 2, qstep - 1]))
        cats = sorted({d[2] for j in junctions for d in j['demands'] if d[2]})
        qcat = draw(st.sampled_from([None] + cats + cats + ['none_such'])) if draw(st.booleans()) else None
        query = {'start': qstart, 'end': qstart + n * qstep + rem, 'timestep': qstep, 'category': qcat}
    cost_tables = None
    if draw(st.integers(0, 3)) == 0:
        cost_tables = {}
        for key, lo, hi in (('tank', 50.0, 20000.0), ('pipe', 0.03, 1.5), ('prv', 0.03, 1.5),
                            ('pump', 10.0, 1e5), ('ghg', 0.03, 1.5)):
            if draw(st.booleans()):
                xs = draw(st.lists(_f(lo, hi), min_size=1, max_size=6, unique=True))
                cost_tables[key] = [[x, draw(_f(0.0, 1e5))] for x in xs]
    case = {
        'time': time, 'demand_multiplier': dm, 'default_pattern': dp, 'patterns': patterns,
        'junctions': junctions, 'tanks': tanks, 'reservoirs': reservoirs, 'pipes': pipes, 'pumps': pumps,
        'valves': valves, 'energy': energy,
        'tables': {'pressure': press, 'demand': demand, 'flow': flow},
        'Pstar': draw(st.one_of(_f(0.0, 60.0), st.sampled_from([21.09, 30, 0, 14.06]))),
        'R': draw(st.one_of(st.none(), st.none(), _f(1e-6, 1e-4))),
        'query': query, 'cost_tables': cost_tables, 'rot': draw(st.integers(0, 5)), 'simulate': simulate,
    }
    if draw(st.integers(0, 2)) == 0:
        case['revisions'] = _draw_revisions(draw, case)
    return case


def _new_mult(draw, cur, pidx):
    """new multipliers for pattern pidx that keep the common period within MAX_PERIOD_STEPS"""
    ts = cur['time']['pattern_timestep']
    p = cur['patterns'][pidx]
    lo = 1 if p['wrap'] else 2
    n = draw(st.one_of(st.just(len(p['mult'])), st.integers(lo, 14), st.sampled_from([5, 7, 9, 24])))

    def steps(k):
        L = DAY
        for i, q in enumerate(cur['patterns']):
            L = _lcm(L, (k if i == pidx else len(q['mult'])) * ts)
        return L // ts
    while n > lo and steps(n) > MAX_PERIOD_STEPS:
        n -= 1
    if steps(n) > MAX_PERIOD_STEPS:
        n = len(p['mult'])
    return draw(st.lists(_mult, min_size=n, max_size=n))


def _draw_revisions(draw, case):
    import copy
    cur = copy.deepcopy(case)
    used_at_build = explicit_refs(case)       # these have a registered usage: WNTR refuses to remove them
    revs = []
    for _ in range(draw(st.integers(1, 2))):
        npat = len(cur['patterns'])
        free = [i for i in range(npat) if cur['patterns'][i]['name'] not in
                {case['patterns'][k]['name'] for k in used_at_build}]
        unref = [i for i in free if i not in explicit_refs(cur)]
        dflt = [i for i in free if cur['patterns'][i]['name'] == cur['default_pattern']]
        ops = ['mult', 'default', 'retarget']
        if free:
            ops += ['readd', 'readd']
        if dflt:
            ops += ['readd_default', 'readd_default', 'readd_default']
        if unref and npat > 1:
            ops += ['remove']
        op = draw(st.sampled_from(ops))
        if op == 'mult':
            pidx = draw(st.integers(0, npat - 1))
            rev = ['mult', pidx, _new_mult(draw, cur, pidx)]
        elif op in ('readd', 'readd_default'):
            pidx = draw(st.sampled_from(dflt if op == 'readd_default' else free))
            rev = ['readd', pidx, _new_mult(draw, cur, pidx)]
        elif op == 'remove':
            rev = ['remove', draw(st.sampled_from(unref))]
        elif op == 'default':
            rev = ['default', draw(st.sampled_from([p['name'] for p in cur['patterns']] + [None, '1']))]
        else:
            j = draw(st.integers(0, len(cur['junctions']) - 1))
            k = draw(st.integers(0, len(cur['junctions'][j]['demands']) - 1))
            rev = ['retarget', j, k, draw(st.integers(0, npat - 1))]
        revs.append(rev)
        # the spec after this revision (model-free part of apply_revision)
        if rev[0] in ('mult', 'readd'):
            cur['patterns'][rev[1]]['mult'] = list(rev[2])
        elif rev[0] == 'remove':
            idx = rev[1]
            cur['patterns'].pop(idx)
            for jn in cur['junctions']:
                for d in jn['demands']:
                    if d[1] is not None and d[1] > idx:
                        d[1] -= 1
        elif rev[0] == 'default':
            cur['default_pattern'] = rev[1]
        else:
            cur['junctions'][rev[1]]['demands'][rev[2]][1] = rev[3]
    return revs


def _mini(n, pstart, ts=3600):
    mult = [round(0.4 + 0.3 * ((7 * k) % n), 3) for k in range(n)]
    return {
        'time': {'pattern_timestep': ts, 'pattern_start': pstart, 'hydraulic_timestep': 3600, 'report_timestep': 3600,
                 'duration': 4 * 3600, 'interpolation': False},
        'demand_multiplier': 1.0, 'default_pattern': '1', 'patterns': [{'name': 'pt0', 'mult': mult, 'wrap': True}],
        'junctions': [{'elev': 10.0, 'demands': [[0.004, 0, None]]}], 'tanks': [],
        'reservoirs': [{'head': 60.0}], 'pipes': [[1, 0, 200.0, 0.3048]], 'pumps': [], 'valves': [],
        'energy': {'global_efficiency': 75.0, 'global_price': 3.61e-8},
        'tables': {'pressure': [[30.0 + k, 0.0] for k in range(5)], 'demand': [[0.004, -0.004]] * 5,
                   'flow': [[]] * 5},
        'Pstar': 21.09, 'R': None, 'query': None, 'cost_tables': None, 'rot': 0, 'simulate': True,
    }


def enumerate_cases(tier):
    for n in range(1, 14):
        for ps in (0, 3600, 5000):
            yield _mini(n, ps)


def summarize(case):
    s = {k: v for k, v in case.items() if k != 'tables'}
    s['tables'] = {'rows': len(case['tables']['pressure'])}
    return s
