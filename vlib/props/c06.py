"""C06 - tank volumes integrate their net inflow and stay within their limits."""
from hypothesis import strategies as st
from ..outcome import fail, inconclusive, passed
from ..refs import c05_tankgen as G
from .. import spec as S

ID = 'C06'
LEVEL = 'exploration'
CASES = {'quick': 640, 'thorough': 6000}
CASE_TIMEOUT = 20
SHRINK_BUDGET = {'quick': 40, 'thorough': 240}
TECHNIQUE = ('property-based testing (Hypothesis): generated tank networks simulated with WNTRSimulator (report step '
             'ALL); every pair of consecutive reported rows is checked against an own Euler/volume reference '
             '(conservation oracle written from the statement, volume curve interpolated by own code)')
RULE = ('Generated case (refs/c05_tankgen.py) = reservoir feeding 1-4 junctions (1 case in 8: the first tank directly) '
        'through a head pump (1- or 3-point curve, lift 6-25 m) or a long pipe, 1-3 tanks (cylindrical or 1-4 segment volume curve starting at 0 or '
        'min_level and ending at max_level or 1 m above it; init level anywhere incl. exactly min/max; area from a '
        'drawn traverse time of 1-8 h) each with 1-3 links (pipe either direction, CV pipe in/out, pump in/out, '
        'initially closed pipe; 1 case in 4 with >= 2 tanks also a tank-to-tank pipe), demand patterns with multipliers 0.05-3.6, 0-3 tank-level/pressure controls, in one case in three 1-4 time controls at arbitrary instants with priorities 0-6; one case in four with a volume-curve tank was simulated before with other curve points (re-assigned through Curve.points, reset); '
        'duration 12-72 h, hydraulic step 900-7200 s (<= 100 steps), DD (15 % PDD). Oracle per tank and per pair '
        'of consecutive rows. Non-trivial = converged run in which some tank reaches a level limit (within 1 mm) or '
        'a partial (off-grid) step is reported; distinct = SHA-1 of the case.')
ASSUMPTIONS = ['only runs WNTR reports as converged are judged (not converged / exception in run_sim = inconclusive)',
               'tank level = reported pressure of the tank node, net inflow = reported demand of the tank node',
               'beyond the ends of a volume curve the volume is taken from the linear extension of the last segment '
               '(levels leave the curve only inside the two-seconds-of-flow band of the statement)',
               'volume curves are strictly increasing and cover [min_level, max_level]; no tank leaks (C08)']
TOLERANCES = {'volume_identity': '1e-7*|q*dt| + 1e-9*A m3 (float noise of head-elevation at heads <= 100 m is 1e-14 m)',
              'init_level_abs': 1e-9,
              'limit_band': '2 s * |net inflow of the previous row| / A + 1.5e-4 m (statement: about two seconds of flow; '
                            'Htol = 1.524e-4 m is the reopening hysteresis of the tank controls); a level that already lay '
                            'beyond the limit in the previous row was judged when it got there and may have moved on by at '
                            'most Qtol*dt/A (a flow within Qtol counts as no flow in the third clause)',
              'no_discharge_at_min / no_fill_at_max': 'Qtol = 2.83168e-6 m3/s (WNTRSimulator._Qtol), premise '
                                                      'level <= min + 1e-12 / level >= max - 1e-12',
              }

LEVEL_TEXT = ('exploration: the volume identity, the start level, the limit band and the no-discharge/no-fill rule were '
              'evaluated for every tank and every pair of consecutive reported rows of the converged WNTRSimulator runs on '
              'generated networks; no violation outside the listed findings means none was found in the explored sample')
LEVEL_NOTE = ('trusted base: the reference in this module (V = A*level or own linear interpolation of the spec curve, '
              'Euler step with the reported net inflow), refs/c05_tankgen.py, vlib.spec.build_wn/run_wntr; observation '
              'through results.node[pressure|demand] with report_timestep ALL. Not covered: tank leaks (C08), mixing '
              'models, runs that do not converge')

FEAT = {'nctl': (0, 3), 'tanks': (1, 3), 'vol_curve': 0.45, 'pdd': 0.15}


@st.composite
def strategy(draw, tier='quick'):
    f = dict(FEAT)
    if tier == 'thorough':
        f['max_steps'] = 200
    case = draw(G.scenario(f))
    if draw(st.integers(0, 5)) == 0:
        # a leaking tank: the leak is part of the reported net inflow, so the volume identity must hold as for any tank
        # (the level-limit clauses are not applied to it: a leak keeps draining a tank below its minimum level)
        tk = case['tanks'][draw(st.integers(0, len(case['tanks']) - 1))]
        dur = max(case['opts']['duration'], 3600)
        tk['leak'] = {'area': draw(st.sampled_from([1e-4, 5e-4, 2e-3])), 'cd': draw(st.sampled_from([0.75, 0.6])),
                      'start': draw(st.sampled_from([None, 0, case['opts']['hyd'], dur // 3 + 7])),
                      'end': draw(st.sampled_from([None, None, dur // 2 + 900]))}
        if tk['leak']['start'] is not None and tk['leak']['end'] is not None and tk['leak']['end'] <= tk['leak']['start']:
            tk['leak']['end'] = None
    if draw(st.integers(0, 2)) == 0:
        # time controls at arbitrary instants (mostly inside a hydraulic step) with explicit priorities, also below the
        # medium priority of the simulator's own tank-limit controls: a limit reached earlier in the same step must win
        links = [l for l in case['pipes'] + case['pumps'] if not l.get('cv')]
        dur = case['opts']['duration']
        for _ in range(draw(st.integers(1, 4)) if links else 0):
            l = draw(st.sampled_from(links))
            case['controls'].append({'kind': 'time', 'at': draw(st.integers(1, max(1, dur - 1))), 'link': l['name'],
                                     'attr': 'status', 'value': draw(st.sampled_from(['OPEN', 'CLOSED'])),
                                     'priority': draw(st.sampled_from([None, 0, 1, 2, 4, 6]))})
    vc = sorted(t['vol_curve'] for t in case['tanks'] if t.get('vol_curve'))
    if vc and draw(st.integers(0, 3)) == 0:
        fac = draw(st.sampled_from([0.5, 2.0]))
        case['vol_curve_edit'] = {name: [[x, round(y * fac, 3)] for x, y in case['curves'][name]['pts']] for name in vc}
    h = S.draw_history(draw, st, case['opts'])
    if h:
        case['history'] = h
    return case


def summarize(case):
    return {'opts': {k: case['opts'][k] for k in ('duration', 'hyd', 'pat', 'demand_model')}, 'meta': case.get('meta'),
            'tanks': case['tanks'], 'curves': {k: v for k, v in case['curves'].items() if v['type'] == 'VOLUME'},
            'links': [[l['name'], l['a'], l['b']] for k in ('pipes', 'pumps', 'valves') for l in case[k]],
            'controls': case['controls']}


def _via(case, run, tk, k, sign):
    """root-cause qualifier of a forbidden net flow (sign -1: out of the tank, +1: into it) in row k: is it carried by a
    link whose other end is a tank as well?"""
    tn = set(t['name'] for t in case['tanks'])
    tt = 0.0
    for grp in ('pipes', 'pumps'):
        for l in case[grp]:
            if tk['name'] in (l['a'], l['b']) and l['a'] in tn and l['b'] in tn:
                f = run.link['flowrate'][l['name']][k]
                into = f if l['b'] == tk['name'] else -f
                if sign * into > G.QTOL:
                    tt += into
    return abs(tt) > G.QTOL


def _limit_bucket(what, kind, via):
    # one root cause, whatever the side and the tank kind: the limit of one tank is overruled through a tank-to-tank link
    return 'tank_to_tank_link/limit_not_enforced' if via else '%s/%s' % (what, kind)


def tank_checks(case, run, tags):
    """-> None or (bucket, detail); appends classification tags"""
    times = run.times
    n = len(times)
    hyd = case['opts']['hyd']
    if any(int(t) % hyd for t in times):
        tags.append('partial_step')
    for tk in case['tanks']:
        name = tk['name']
        lv = run.node['pressure'][name]
        q = run.node['demand'][name]
        kind = 'curve' if tk.get('vol_curve') else 'cyl'
        if not abs(lv[0] - tk['init']) <= 1e-9:
            return ('init_level/%s' % kind, 'tank %s: level at t=0 is %.12g, init_level %.12g' % (name, lv[0], tk['init']))
        leaky = bool(tk.get('leak'))
        if leaky:
            tags.append('tank_leak')
            if float(max(run.node['leak_demand'][name])) > 0:
                tags.append('tank_leak_active')
        for k in range(n):
            # ---- limits (band from the inflow of the row that led here)
            if k > 0 and not leaky:
                for side, lim, sgn in (('min', tk['min'], -1.0), ('max', tk['max'], 1.0)):
                    over = sgn * (lv[k] - lim)
                    if over > 0:
                        a_eff = G.mean_area(case, tk, lim, lv[k])
                        band = 2.0 * abs(q[k - 1]) / a_eff + 1.5e-4
                        if over > 1e-9:
                            tags.append('beyond_%s' % side)
                        # a level that already lay beyond the limit was judged when it got there; since then it may only
                        # have moved by what a flow within the flow tolerance (which counts as no flow) carries
                        creep = G.QTOL * (times[k] - times[k - 1]) / a_eff + 1e-12
                        if not over <= band and not over <= sgn * (lv[k - 1] - lim) + creep:
                            return (_limit_bucket('limit_overshoot/' + side, kind, _via(case, run, tk, k - 1, sgn)),
                                    'tank %s t=%d: level %.9g is %.6g beyond %s_level %.6g, allowed 2 s*|q_prev|/A+1.5e-4 = '
                                    '%.6g (q_prev=%.6g at t=%d, A=%.4g)' % (name, times[k], lv[k], over, side, lim, band,
                                                                           q[k - 1], times[k - 1], a_eff))
            if lv[k] <= tk['min'] + 1e-3:
                tags.append('reached_min')
            if lv[k] >= tk['max'] - 1e-3:
                tags.append('reached_max')
            if not leaky and lv[k] <= tk['min'] + 1e-12 and not q[k] >= -G.QTOL:
                return (_limit_bucket('discharge_at_min', kind, _via(case, run, tk, k, -1.0)),
                        'tank %s t=%d: level %.9g <= min_level %.6g but net inflow %.6g < -Qtol' % (name, times[k], lv[k],
                                                                                                    tk['min'], q[k]))
            if not leaky and lv[k] >= tk['max'] - 1e-12 and not q[k] <= G.QTOL:
                return (_limit_bucket('fill_at_max', kind, _via(case, run, tk, k, 1.0)),
                        'tank %s t=%d: level %.9g >= max_level %.6g but net inflow %.6g > Qtol' % (name, times[k], lv[k],
                                                                                                  tk['max'], q[k]))
            # ---- volume identity
            if k > 0:
                dt = times[k] - times[k - 1]
                dv = G.tank_volume(case, tk, lv[k]) - G.tank_volume(case, tk, lv[k - 1])
                want = q[k - 1] * dt
                area = G.mean_area(case, tk, lv[k - 1], lv[k])
                tol = 1e-7 * abs(want) + 1e-9 * area
                if not dt > 0:
                    return ('time_not_increasing', 'rows %d,%d: t=%s,%s' % (k - 1, k, times[k - 1], times[k]))
                if not abs(dv - want) <= tol:
                    outside = ''
                    if tk.get('vol_curve'):
                        pts = case['curves'][tk['vol_curve']]['pts']
                        lo_, hi_ = pts[0][0], pts[-1][0]
                        if min(lv[k], lv[k - 1]) < lo_ - 1e-9 or max(lv[k], lv[k - 1]) > hi_ + 1e-9:
                            outside = '/outside_curve'
                    return ('volume_identity/%s%s' % (kind, outside),
                            'tank %s rows t=%d -> t=%d: level %.9g -> %.9g, V changes by %.9g m3, net inflow %.9g * dt %d = '
                            '%.9g m3 (diff %.3g, tol %.3g)' % (name, times[k - 1], times[k], lv[k - 1], lv[k], dv, q[k - 1],
                                                             dt, want, dv - want, tol))
    return None


def _prelude(case):
    """the model has a past: it was simulated for two steps while the volume curves of its tanks had another shape
    (same levels, other volumes), then the curves were re-assigned through Curve.points to the points of the spec and
    the model was reset; the run that is judged must integrate with the curves as they are now"""
    ed = case.get('vol_curve_edit')
    if not ed:
        return None

    def run_past(wn):
        import wntr
        dur = wn.options.time.duration
        for name, pts in sorted(ed.items()):
            wn.get_curve(name).points = [(float(x), float(y)) for x, y in pts]
        wn.options.time.duration = min(dur, 2 * wn.options.time.hydraulic_timestep)
        try:
            wntr.sim.WNTRSimulator(wn).run_sim()
        except Exception:
            pass
        for name in sorted(ed):
            wn.get_curve(name).points = [(float(x), float(y)) for x, y in case['curves'][name]['pts']]
        wn.options.time.duration = dur
        wn.reset_initial_values()
    return run_past


def check(case):
    tags = G.spec_tags(case)
    if case.get('vol_curve_edit'):
        tags.append('history:simulated_with_other_volume_curves_then_reassigned')
    run, bad = G.simulate(case, _prelude(case))
    if bad:
        if bad[0] == 'fail':
            return fail(bad[1], bad[2], tags)
        return inconclusive(bad[1], tags)
    res = tank_checks(case, run, tags)
    if res:
        return fail(res[0], res[1], tags)
    nontrivial = bool(set(tags) & {'reached_min', 'reached_max', 'partial_step'})
    return passed(nontrivial, tags)
