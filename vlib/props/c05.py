"""C05 - reported states are consistent with every conditional simple control."""
from hypothesis import strategies as st
from ..outcome import fail, inconclusive, passed
from ..refs import c05_tankgen as G

ID = 'C05'
LEVEL = 'exploration'
CASES = {'quick': 480, 'thorough': 6000}
CASE_TIMEOUT = 20
SHRINK_BUDGET = {'quick': 40, 'thorough': 240}
TECHNIQUE = ('property-based testing (Hypothesis): generated tank networks with 1-6 conditional simple controls, simulated '
             'with WNTRSimulator (report step ALL); every control is re-evaluated on every reported row by an own '
             'reference (threshold comparison, priority/conflict rule, the three exceptions of the statement demonstrated '
             'from the reported heads and levels, crossing time from an own Euler integration)')
RULE = ('Generated case (refs/c05_tankgen.py) = reservoir feeding 1-4 junctions (1 case in 8: the first tank directly) '
        'through a head pump or a long pipe, 1-3 tanks (cylindrical / volume curve) with 1-3 links each (pipe, CV pipe, '
        'pump; in or out; sometimes a tank-to-tank pipe), optional TCV/PRV/FCV with bypass, demand patterns 0.05-3.6 that drive the levels across their range, duration 12-72 h, hydraulic '
        'step 900-7200 s, plus 1-6 simple controls: tank level/pressure/head above/below a threshold (also exactly at '
        'min/max level), hysteresis pairs, pairs of thresholds 0-5 cm apart (both crossed within one step), conflicting '
        'pairs with explicit priorities 0-6, junction-pressure controls and pressure hysteresis pairs; targets: feed '
        'pump/pipe, tank links (pipes, CV pipes, pumps), other pipes (status), valves (status or setting; one case in five has a leaking tank; with a valve present, tank level -> valve setting controls are drawn three times as often as any other kind). Plus 8 (thorough '
        '16) enumerated cases in which a junction pressure ramps by ~2 cm per row across 3-decimal thresholds. '
        'Non-trivial = converged run in which at least one control changes its truth value between two reported rows; '
        'distinct = SHA-1 of the case.')
ASSUMPTIONS = ['only runs WNTR reports as converged are judged (not converged / exceeded trials / exception = inconclusive)',
               'a row is skipped for a control when the reported value is within 1e-6 of the threshold (so > and >= coincide)',
               'conflict = another control on the same link commanding a different value of the same attribute, or a valve '
               'setting control (implies status ACTIVE) against a valve status control; a conflicting control that is true '
               'or within 1e-6 of its threshold with equal or higher priority excuses either outcome',
               'a link reported closed carries no reported flow (|q| <= Qtol), otherwise the command has not taken effect in that step',
               'an adjacent tank "holds a link closed" when its level is within Htol of min (max) level and the link could '
               'only drain (fill) it: pumps / CV pipes by their orientation, plain pipes by the reported heads',
               'the partial-step clause is demanded only where the reported state of the target at the previous row differs '
               'from the command and no exception could have held the link closed at that row (the user status is then '
               'known to differ), and the target shows the commanded state in the row where the condition is first true',
               'two controls on one tank and one link with opposite directions and opposite commands are generated as a '
               'proper hysteresis band (above-threshold >= below-threshold + 10 % of the range): touching or overlapping '
               'bands make any engine switch the link every 1-2 s for the rest of the run',
               'tank PRESSURE conditions on volume-curve tanks are not generated (TankLevelCondition documents them as not '
               'implemented); LEVEL and HEAD are']
TOLERANCES = {'threshold_skip': 1e-6,
              'setting_abs': 1e-9,
              'crossing': '2 s * |net inflow of the previous row| (+1e-9*A m3): backtrack is floor() of whole seconds and '
                          'report times are whole seconds (statement: met by a partial step, not overshot)',
              'Htol': '1.524e-4 m (+1e-6) for check valves and tank limits (WNTRSimulator._Htol)',
              'pump_shutoff': 'h_end - h_start > Hmax - 1e-3 m with Hmax = 4/3*H (1-point curve) or H(0) (3-point curve)'}

LEVEL_TEXT = ('exploration: every conditional simple control of every generated network was re-evaluated on every reported '
              'row of the converged WNTRSimulator runs (plus a deterministic family with a pressure ramp of ~2 cm per '
              'row); no violation means none was found in the explored sample, not that none exists')
LEVEL_NOTE = ('trusted base: the reference in this module (threshold comparison, conflict/priority rule, the three '
              'exceptions evaluated from reported heads and levels, Euler crossing time), refs/c05_tankgen.py (generator, '
              'own volume-curve interpolation), vlib.spec.build_wn/run_wntr; observation through results.node/link tables '
              'with report_timestep ALL. Not covered: rules, time controls (C04), controls on leaks/demands, runs that do '
              'not converge')

FEAT = {'nctl': (1, 6), 'tanks': (1, 3), 'vol_curve': 0.35, 'pdd': 0.15}
STATUS_CODE = {'CLOSED': 0, 'OPEN': 1, 'ACTIVE': 2}


@st.composite
def strategy(draw, tier='quick'):
    f = dict(FEAT)
    if tier == 'thorough':
        f['max_steps'] = 200
    case = draw(G.scenario(f))
    if draw(st.integers(0, 4)) == 0:
        # a leaking tank: the leak is part of the net inflow that carries the level across the thresholds
        tk = case['tanks'][draw(st.integers(0, len(case['tanks']) - 1))]
        tk['leak'] = {'area': draw(st.sampled_from([2e-4, 5e-4, 1e-3, 2e-3])), 'cd': draw(st.sampled_from([0.75, 0.6])),
                      'start': draw(st.sampled_from([0, 0, None, case['opts']['hyd']])), 'end': None}
    if draw(st.integers(0, 5)) == 0:
        # history: run, reset_initial_values(), run again (new or same simulator object); the second run is judged
        case['history'] = ['rerun', draw(st.sampled_from(['new', 'same']))]
    return case


def enumerate_cases(tier='quick'):
    """Deterministic family: a junction pressure that ramps by ~2 cm per reported row (large tank draining or being
    filled at a constant rate), with pressure thresholds at arbitrary 3-decimal values: every crossing has a row that lies
    0-2 cm beyond the threshold, which random thresholds almost never produce (comparison resolution of the condition)."""
    for filling in (False, True):
        for strict in (True, False):
            for l3 in ('OPEN', 'CLOSED'):
                for hyd in ((900,) if tier == 'quick' else (900, 1800)):
                    q = -0.006 if filling else 0.004
                    p0 = 25.0
                    sgn = 1.0 if filling else -1.0
                    op = ('>' if strict else '>=') if filling else ('<' if strict else '<=')
                    cmds = ['CLOSED', 'OPEN', 'CLOSED'] if l3 == 'OPEN' else ['OPEN', 'CLOSED', 'OPEN']
                    ctl = []
                    for prio, (off, cmd) in enumerate(zip((0.313, 0.777, 1.241), cmds)):
                        # later thresholds have higher priority, so exactly one control is the one to be obeyed at any time
                        ctl.append({'kind': 'cond', 'node': 'J1', 'nattr': 'pressure', 'op': op, 'thr': round(p0 + sgn * off, 3),
                                    'link': 'L3', 'attr': 'status', 'value': cmd, 'priority': prio + 1})
                    ctl.append({'kind': 'cond', 'node': 'J2', 'nattr': 'pressure', 'op': op, 'thr': round(p0 - 2.0 + sgn * 1.037, 3),
                                'link': 'V1', 'attr': 'setting', 'value': 7.5})
                    yield {
                        'opts': {'duration': 24 * 3600, 'hyd': hyd, 'pat': 3600, 'rep': 'ALL', 'rule': 3600, 'pattern_start': 0,
                                 'start_clocktime': 0, 'dm': 1.0, 'demand_model': 'DD', 'pmin': 0.0, 'preq': 0.07, 'pexp': 0.5,
                                 'hw_approx': 'default'},
                        'patterns': {'P1': [1.0]}, 'curves': {},
                        'junctions': [{'name': 'J1', 'elev': 0.0, 'demands': [[q, 'P1', None]]},
                                      {'name': 'J2', 'elev': 2.0, 'demands': [[0.002, 'P1', None]]},
                                      {'name': 'J3', 'elev': 2.0, 'demands': [[0.0005, 'P1', None]]}],
                        'tanks': [{'name': 'T1', 'elev': 20.0, 'init': 5.0, 'min': 0.0, 'max': 9.0, 'diam': 18.0 * (hyd / 900.0) ** 0.5,
                                   'min_vol': 0.0, 'vol_curve': None}],
                        'reservoirs': [],
                        'pipes': [{'name': 'L1', 'a': 'T1', 'b': 'J1', 'len': 50.0, 'diam': 0.4, 'C': 120.0, 'minor': 0.0,
                                   'status': 'OPEN', 'cv': False},
                                  {'name': 'L2', 'a': 'J1', 'b': 'J2', 'len': 100.0, 'diam': 0.3, 'C': 120.0, 'minor': 0.0,
                                   'status': 'OPEN', 'cv': False},
                                  {'name': 'L3', 'a': 'J1', 'b': 'J2', 'len': 100.0, 'diam': 0.2, 'C': 120.0, 'minor': 0.0,
                                   'status': l3, 'cv': False}],
                        'pumps': [],
                        'valves': [{'name': 'V1', 'a': 'J2', 'b': 'J3', 'type': 'TCV', 'diam': 0.2, 'minor': 0.0, 'setting': 1.0,
                                    'status': 'ACTIVE'}],
                        'controls': ctl, 'profile': 'ramp', 'meta': {'feed': 'none(ramp)', 'href': 25.0, 'qm': abs(q), 'qp': abs(q)},
                    }


def summarize(case):
    return {'opts': {k: case['opts'][k] for k in ('duration', 'hyd', 'pat', 'demand_model')}, 'meta': case.get('meta'),
            'tanks': [[t['name'], t['min'], t['init'], t['max'], t.get('vol_curve')] for t in case['tanks']],
            'links': [[l['name'], l['a'], l['b']] for k in ('pipes', 'pumps', 'valves') for l in case[k]],
            'controls': case['controls']}


def _cmp(op, v, thr):
    if op in ('>', '>='):
        return v > thr
    return v < thr


class Ref(object):
    """reference view of a case + run"""

    def __init__(self, case, run):
        self.case = case
        self.run = run
        self.times = run.times
        self.tanks = dict((t['name'], t) for t in case['tanks'])
        self.junctions = set(j['name'] for j in case['junctions'])
        self.links = {}
        for k, kind in (('pipes', 'pipe'), ('pumps', 'pump'), ('valves', 'valve')):
            for l in case[k]:
                self.links[l['name']] = (kind, l)
        self.head = run.node['head']
        self.pres = run.node['pressure']
        self.status = run.link['status']
        self.setting = run.link['setting']
        self.ctl = []
        for i, c in enumerate(case['controls']):
            series = self.head[c['node']] if c['nattr'] == 'head' else self.pres[c['node']]
            truth = []
            for v in series:
                truth.append(None if abs(v - c['thr']) <= 1e-6 else bool(_cmp(c['op'], v, c['thr'])))
            self.ctl.append({'i': i, 'c': c, 'series': series, 'truth': truth,
                             'prio': c['priority'] if c.get('priority') is not None else 3,
                             'tank': c['node'] in self.tanks})

    # ------------------------------------------------------------------ the statement's exceptions
    def shutoff_head(self, pump):
        if pump['type'] != 'HEAD':
            return None
        pts = self.case['curves'][pump['curve']]['pts']
        if len(pts) == 1:
            return 4.0 / 3.0 * pts[0][1]
        if len(pts) == 3 and pts[0][0] == 0.0:
            return pts[0][1]
        return None

    def supply_head(self, node, k):
        """reported head; a junction cut off from every source is reported with head 0 and pressure 0 and cannot supply
        water to a neighbour: it ranks below every real head (all real heads of the generated networks are > 20 m)"""
        if node in self.junctions and self.head[node][k] == 0.0 and self.pres[node][k] == 0.0:
            return -float('inf')
        return self.head[node][k]

    def held_closed(self, lname, k):
        """reason why link `lname`, reported closed in row k, may be held closed although commanded open"""
        kind, l = self.links[lname]
        ha, hb = self.supply_head(l['a'], k), self.supply_head(l['b'], k)
        no_supply = ha == -float('inf')          # the upstream node is cut off from every source: nothing can flow forward
        if kind == 'pipe' and l['cv'] and (no_supply or ha - hb <= G.HTOL + 1e-6):
            return 'cv'
        if kind == 'pump':
            hmax = self.shutoff_head(l)
            if no_supply or (hmax is not None and hb - ha > hmax - 1e-3):
                return 'pump_shutoff'
        directed = kind == 'pump' or (kind == 'pipe' and l['cv'])
        for end, other in ((l['a'], l['b']), (l['b'], l['a'])):
            t = self.tanks.get(end)
            if t is None:
                continue
            lev = self.pres[end][k]
            ht, ho = self.head[end][k], self.supply_head(other, k)
            at_min = lev <= t['min'] + G.HTOL + 1e-9
            at_max = lev >= t['max'] - G.HTOL - 1e-9
            if directed:
                if at_min and end == l['a']:
                    return 'tank_min'
                if at_max and end == l['b']:
                    return 'tank_max'
            else:
                if at_min and ho < ht + G.HTOL:
                    return 'tank_min'
                if at_max and ho > ht - G.HTOL:
                    return 'tank_max'
        return None

    def conflicts(self, a, b):
        ca, cb = a['c'], b['c']
        if ca['link'] != cb['link'] or a is b:
            return False
        if ca['attr'] == cb['attr']:
            return ca['value'] != cb['value']
        return ca['attr'] == 'status' and cb['attr'] == 'setting'

    def state_is(self, c, k):
        """does row k show the state commanded by control c"""
        if c['attr'] == 'setting':
            return abs(self.setting[c['link']][k] - c['value']) <= 1e-9
        return int(round(self.status[c['link']][k])) == STATUS_CODE[c['value']]


def control_checks(case, run, tags):
    R = Ref(case, run)
    n = len(R.times)
    hyd = case['opts']['hyd']
    first_true = {}
    for a in R.ctl:
        c = a['c']
        kind, l = R.links[c['link']]
        tkind = 'valve' if kind == 'valve' else ('cv' if kind == 'pipe' and l['cv'] else kind)
        what = 'setting' if c['attr'] == 'setting' else c['value'].lower()
        tags.append('ctl:%s' % ('tank_' + c['nattr'] if a['tank'] else 'junction_pressure'))
        tags.append('cmd:%s/%s' % (what, tkind))
        if c.get('priority') is not None:
            tags.append('explicit_priority')
        seen = [x for x in a['truth'] if x is not None]
        if any(x != seen[0] for x in seen):
            tags.append('truth_changes')
        for k in range(n):
            if a['truth'][k] is not True:
                continue
            tags.append('true:%s' % ('tank' if a['tank'] else 'pressure'))
            if k > 0 and a['truth'][k - 1] is False:
                first_true.setdefault((k, a['tank']), []).append(a['i'])
            rivals = [b for b in R.ctl if R.conflicts(a, b) and b['truth'][k] is not False and b['prio'] >= a['prio']]
            if rivals:
                tags.append('conflict_excused')
                continue
            if any(R.conflicts(a, b) and b['truth'][k] is True for b in R.ctl):
                tags.append('conflict_won_by_priority')
            ok = R.state_is(c, k)
            where = 'control %d (%s %s %s %s -> %s %s=%s, prio %d) true at t=%d (value %.9g)' % (
                a['i'], c['node'], c['nattr'], c['op'], c['thr'], c['link'], c['attr'], c['value'], a['prio'],
                R.times[k], a['series'][k])
            if c['attr'] == 'setting':
                if not ok:
                    return ('setting_not_commanded/%s' % ('tank' if a['tank'] else 'pressure'),
                            '%s but reported setting is %.9g' % (where, R.setting[c['link']][k]))
                tags.append('checked:setting')
            elif c['value'] == 'CLOSED':
                if not ok:
                    return ('closed_not_closed/%s/%s' % (tkind, 'tank' if a['tank'] else 'pressure'),
                            '%s but reported status is %d' % (where, R.status[c['link']][k]))
                flow = run.link['flowrate'][c['link']][k]
                if not abs(flow) <= G.QTOL:
                    return ('closed_but_flowing/%s/%s' % (tkind, 'tank' if a['tank'] else 'pressure'),
                            '%s and the link is reported closed, but its reported flow is %.6g (the command has not taken '
                            'effect in the hydraulics of this step)' % (where, flow))
                tags.append('checked:closed')
            else:
                if not ok:
                    why = None if kind == 'valve' else R.held_closed(c['link'], k)
                    if why is None:
                        return ('open_not_open/%s/%s' % (tkind, 'tank' if a['tank'] else 'pressure'),
                                '%s but reported status is %d and none of the exceptions holds: heads %s=%.6g %s=%.6g, '
                                'adjacent tank levels %s' % (where, R.status[c['link']][k], l['a'], R.head[l['a']][k],
                                                            l['b'], R.head[l['b']][k],
                                                            [(e, round(R.pres[e][k], 6), R.tanks[e]['min'], R.tanks[e]['max'])
                                                             for e in (l['a'], l['b']) if e in R.tanks]))
                    tags.append('exception:' + why)
                else:
                    tags.append('checked:open')
            # ---- partial-step clause (tank-level conditions)
            if not a['tank'] or k == 0 or a['truth'][k - 1] is not False or not ok:
                continue
            if R.state_is(c, k - 1):
                continue                      # nothing had to change
            if c['attr'] == 'status' and c['value'] == 'OPEN' and kind != 'valve' and R.held_closed(c['link'], k - 1):
                tags.append('partial_skipped_possibly_held_closed')
                continue
            tk = R.tanks[c['node']]
            thr_level = c['thr'] - (tk['elev'] if c['nattr'] == 'head' else 0.0)
            qprev = run.node['demand'][c['node']][k - 1]
            over = abs(G.tank_volume(case, tk, R.pres[c['node']][k]) - G.tank_volume(case, tk, thr_level))
            area = G.mean_area(case, tk, thr_level, R.pres[c['node']][k])
            tags.append('crossing_checked')
            tags.append('crossing_checked:%s' % what)
            if k == 1:
                tags.append('crossing_in_first_step')
            if int(R.times[k]) % hyd:
                tags.append('crossing_at_partial_step')
            if not over <= 2.0 * abs(qprev) + 1e-9 * area:
                late = over / abs(qprev) if qprev else float('inf')
                return ('threshold_overshot/%s%s' % ('curve' if tk.get('vol_curve') else 'cyl', '/first_step' if k == 1 else ''),
                        '%s; previous row t=%d had level %.9g and net inflow %.9g, so the threshold was reached %.1f s before '
                        'the reported row (allowed 2 s); target %s changed only in this row' % (
                            where, R.times[k - 1], R.pres[c['node']][k - 1], qprev, late, c['link']))
    for (k, is_tank), lst in first_true.items():
        if is_tank and len(lst) >= 2:
            tags.append('two_thresholds_same_row')
    steps = {}
    for (k, is_tank), lst in first_true.items():
        if is_tank:
            steps.setdefault(int(R.times[k - 1]) // hyd, set()).update(lst)
    if any(len(v) >= 2 for v in steps.values()):
        tags.append('two_thresholds_one_hyd_step')
    return None


def check(case):
    tags = G.spec_tags(case)
    run, bad = G.simulate(case)
    if bad:
        if bad[0] == 'fail':
            return fail(bad[1], bad[2], tags)
        return inconclusive(bad[1], tags)
    if any(int(t) % case['opts']['hyd'] for t in run.times):
        tags.append('partial_step')
    res = control_checks(case, run, tags)
    if res:
        return fail(res[0], res[1], tags)
    return passed('truth_changes' in tags, tags)
