"""C17 - EPANET unit conversions are exact inverses with the right physical constants."""
import math

from hypothesis import strategies as st

from ..outcome import fail, passed, exc_bucket

ID = 'C17'
LEVEL = 'exploration'
CASES = {'quick': 6000, 'thorough': 120000}
CASE_TIMEOUT = 20
RULE = ('Enumerated part: every FlowUnits x HydParam x darcy flag and FlowUnits x QualParam x MassUnits x '
        'reaction order {0,1,2} x container {float,int,list,ndarray,dict,DataFrame} with fixed probe values; '
        'factor to_si(1) compared with an independent table built from physical definitions. Generated part: '
        'random (units, param, mass, order, darcy, container, finite values |x|<=1e12, scalar a); oracles: '
        'from_si(to_si(x))=x, to_si(from_si(x))=x, homogeneity, additivity, container type/keys/shape kept. '
        'Non-trivial = some value is non-zero and (conversion factor != 1 or container is not a bare scalar); '
        'distinct = SHA-1 of the canonical case.')
ASSUMPTIONS = [
    'reference constants: gal=3.785411784 L, Imp gal=4.54609 L, ft=0.3048 m, in=0.0254 m, acre-ft=43560 ft3, '
    'psi=0.3048/0.4333 m, hp=745.699872 W, kWh=3.6e6 J, day=86400 s',
    'FlowUnits.SI is checked for inverse/linearity/containers only, plus Flow/Demand factor 1 (the statement '
    'defines US vs metric for the ten EPANET units)',
    'bulk reaction coefficients of order != 1 are documented as unconverted (docstring example); order 2 wall '
    'coefficients are checked for inverse/linearity only',
]
TOLERANCES = {'roundtrip_rel': 1e-12, 'linearity_rel': 1e-12, 'table_rel': 1e-8,
              'table_rel_wall_order0_US': '1e-6 (code documents ft2 as 0.092903, 4.3e-7 off 0.3048^2)'}
EXHAUSTIVE = {'quick': True, 'thorough': True,
              'what': 'the finite table units x params x mass x order x darcy x container is enumerated completely; '
                      'values are sampled'}

FLOWS = ['CFS', 'GPM', 'MGD', 'IMGD', 'AFD', 'LPS', 'LPM', 'MLD', 'CMH', 'CMD', 'SI']
US = {'CFS', 'GPM', 'MGD', 'IMGD', 'AFD'}
HYD = ['Elevation', 'Demand', 'HydraulicHead', 'Pressure', 'Length', 'PipeDiameter', 'Flow', 'Velocity',
       'HeadLoss', 'Power', 'Volume', 'EmitterCoeff', 'RoughnessCoeff', 'TankDiameter', 'Energy']
QUAL = ['Quality', 'LinkQuality', 'ReactionRate', 'Concentration', 'BulkReactionCoeff', 'WallReactionCoeff',
        'SourceMassInject', 'WaterAge']
MASS = ['mg', 'ug', 'g', 'kg']
CONTAINERS = ['float', 'int', 'list', 'ndarray', 'dict', 'dataframe']
DICT_KEYS = ['2', '10', '1', 'TANK-A', 'J-7', 'b', 'a', 'Z9', 'k3', 'k12', 'k0', 'R', '33', '4', 'n_8', 'n_08']

FT = 0.3048
GAL = 3.785411784e-3
IGAL = 4.54609e-3
DAY = 86400.0
FLOW_FACTOR = {
    'CFS': FT ** 3, 'GPM': GAL / 60.0, 'MGD': 1e6 * GAL / DAY, 'IMGD': 1e6 * IGAL / DAY,
    'AFD': 43560.0 * FT ** 3 / DAY, 'LPS': 1e-3, 'LPM': 1e-3 / 60.0, 'MLD': 1e3 / DAY,
    'CMH': 1.0 / 3600.0, 'CMD': 1.0 / DAY, 'SI': 1.0,
}
MASS_KG = {'mg': 1e-6, 'ug': 1e-9, 'g': 1e-3, 'kg': 1.0}


def ref_factor(case):
    """Independent factor to SI, or None where the statement does not define one."""
    fu, p = case['flow'], case['param']
    us = fu in US
    if fu == 'SI':
        return 1.0 if p in ('Flow', 'Demand') else None
    if case['kind'] == 'hyd':
        if p in ('Flow', 'Demand'):
            return FLOW_FACTOR[fu]
        if p == 'EmitterCoeff':   # flow / psi^0.5  ->  flow / m^0.5
            return FLOW_FACTOR[fu] * (math.sqrt(0.4333 / FT) if us else 1.0)
        if p == 'PipeDiameter':
            return 0.0254 if us else 1e-3
        if p in ('Elevation', 'HydraulicHead', 'Length', 'TankDiameter', 'Velocity'):
            return FT if us else 1.0
        if p == 'HeadLoss':
            return 1e-3
        if p == 'Energy':
            return 3.6e6
        if p == 'Power':
            return 745.699872 if us else 1000.0
        if p == 'Pressure':
            return FT / 0.4333 if us else 1.0
        if p == 'Volume':
            return FT ** 3 if us else 1.0
        if p == 'RoughnessCoeff':
            if case['darcy']:
                return 1e-3 * FT if us else 1e-3
            return 1.0
        return None
    m = MASS_KG[case['mass']]
    o = case['order']
    if p in ('Quality', 'LinkQuality', 'Concentration'):
        return m / 1e-3
    if p == 'ReactionRate':
        return m / 1e-3 / DAY
    if p == 'SourceMassInject':
        return m / 60.0
    if p == 'WaterAge':
        return 3600.0
    if p == 'BulkReactionCoeff':
        return 1.0 / DAY if o == 1 else (1.0 if o == 0 else None)
    if p == 'WallReactionCoeff':
        if o == 0:
            return m * (FT * FT if us else 1.0) / DAY
        if o == 1:
            return (FT if us else 1.0) / DAY
        return None
    return None


def _wrap(container, vals):
    import numpy as np
    import pandas as pd
    if container == 'float':
        return float(vals[0])
    if container == 'int':
        return int(max(-10 ** 9, min(10 ** 9, round(vals[0]))))
    if container == 'list':
        return [float(v) for v in vals]
    if container == 'ndarray':
        return np.array(vals, dtype=float)
    if container == 'dict':
        # element names as they occur in models: inserted in an order that is not their sorted order
        return {DICT_KEYS[i]: float(v) for i, v in enumerate(vals)}
    if container == 'dataframe':
        return pd.DataFrame({'a': [float(v) for v in vals], 'b': [2.0 * float(v) for v in vals]},
                            index=[10 * i for i in range(len(vals))])
    raise ValueError(container)


def _flat(container, obj):
    """-> (list of floats, structural description)"""
    import numpy as np
    import pandas as pd
    if container in ('float', 'int'):
        if isinstance(obj, (np.ndarray, list, dict, pd.DataFrame)):
            return None, 'scalar became %s' % type(obj).__name__
        return [float(obj)], 'scalar'
    if container == 'list':
        if not isinstance(obj, list):
            return None, 'list became %s' % type(obj).__name__
        return [float(v) for v in obj], 'list%d' % len(obj)
    if container == 'ndarray':
        if not isinstance(obj, np.ndarray):
            return None, 'ndarray became %s' % type(obj).__name__
        return [float(v) for v in obj.ravel()], 'nd%s' % (obj.shape,)
    if container == 'dict':
        if not isinstance(obj, dict):
            return None, 'dict became %s' % type(obj).__name__
        # values are looked up by key (the order of a dictionary carries no meaning, its key -> value relation does)
        ks = [k for k in DICT_KEYS if k in obj]
        if len(ks) != len(obj):
            return None, 'dict came back with other keys %r' % (list(obj.keys()),)
        return [float(obj[k]) for k in ks], 'dict%s' % (sorted(obj.keys()),)
    if container == 'dataframe':
        if not isinstance(obj, pd.DataFrame):
            return None, 'DataFrame became %s' % type(obj).__name__
        return [float(v) for v in obj.values.ravel()], 'df%s%s' % (list(obj.index), list(obj.columns))
    raise ValueError(container)


def _close(a, b, rel, scale=None):
    for x, y in zip(a, b):
        s = max(abs(x), abs(y)) if scale is None else scale
        if not (abs(x - y) <= rel * s + 1e-300):
            return False
    return len(a) == len(b)


def check(case):
    from wntr.epanet.util import FlowUnits, HydParam, MassUnits, QualParam, from_si, to_si
    fu = FlowUnits[case['flow']]
    kind = case['kind']
    par = (HydParam if kind == 'hyd' else QualParam)[case['param']]
    kw = {}
    if kind == 'hyd':
        kw['darcy_weisbach'] = bool(case['darcy'])
    else:
        kw['mass_units'] = MassUnits[case['mass']]
        kw['reaction_order'] = int(case['order'])
    cont = case['container']
    vals = case['values']
    tags = ['flow:' + case['flow'], 'kind:' + kind, 'container:' + cont, 'param:' + case['param']]
    x = _wrap(cont, vals)
    x0, shape0 = _flat(cont, x)

    def call(fn, data):
        return fn(fu, data, par, **kw)

    try:
        s = call(to_si, _wrap(cont, vals))
        back = call(from_si, s)
        e = call(from_si, _wrap(cont, vals))
        fwd = call(to_si, e)
    except Exception as ex:  # the statement: "accept and return scalars, lists, arrays and dictionaries"
        return fail('raises/%s/%s/%s' % (kind, cont, type(ex).__name__),
                    '%s(%s) on %s raised %r' % (case['param'], case['flow'], cont, ex), tags)
    for name, obj in (('to_si', s), ('from_si(to_si)', back), ('from_si', e), ('to_si(from_si)', fwd)):
        fl, shp = _flat(cont, obj)
        if fl is None or shp != shape0:
            return fail('container/%s/%s' % (kind, cont), '%s: %s (expected %s)' % (name, shp, shape0), tags)
        if not all(math.isfinite(v) for v in fl):
            return fail('nonfinite/%s' % kind, '%s gave non-finite values for %r' % (name, case), tags)
    sf = _flat(cont, s)[0]
    if not _close(_flat(cont, back)[0], x0, 1e-12):
        return fail('roundtrip/from_si(to_si)/%s/%s' % (kind, case['param']),
                    'x=%r to_si=%r back=%r case=%r' % (x0, sf, _flat(cont, back)[0], case), tags)
    if not _close(_flat(cont, fwd)[0], x0, 1e-12):
        return fail('roundtrip/to_si(from_si)/%s/%s' % (kind, case['param']),
                    'x=%r from_si=%r back=%r case=%r' % (x0, _flat(cont, e)[0], _flat(cont, fwd)[0], case), tags)
    # from_si is the inverse map: the two factors multiply to one
    ef = _flat(cont, e)[0]
    for xv, sv, ev in zip(x0, sf, ef):
        if xv != 0 and not (abs(sv * ev - xv * xv) <= 1e-12 * xv * xv):
            return fail('inverse_factors/%s/%s' % (kind, case['param']),
                        'to_si(x)*from_si(x) != x^2: x=%r to=%r from=%r case=%r' % (xv, sv, ev, case), tags)
    # homogeneity and additivity (float containers only; ints cannot be scaled exactly)
    if cont != 'int':
        a = case['a']
        sa = _flat(cont, call(to_si, _wrap(cont, [a * v for v in vals])))[0]
        if not _close(sa, [a * v for v in sf], 1e-12):
            return fail('homogeneity/%s/%s' % (kind, case['param']),
                        'to_si(a x) != a to_si(x): a=%r x=%r %r vs %r' % (a, x0, sa, [a * v for v in sf]), tags)
        ea = _flat(cont, call(from_si, _wrap(cont, [a * v for v in vals])))[0]
        if not _close(ea, [a * v for v in ef], 1e-12):
            return fail('homogeneity_from/%s/%s' % (kind, case['param']),
                        'from_si(a x) != a from_si(x): a=%r x=%r' % (a, x0), tags)
        ys = case['y'][:len(vals)] + [0.0] * max(0, len(vals) - len(case['y']))
        sy = _flat(cont, call(to_si, _wrap(cont, ys)))[0]
        sxy = _flat(cont, call(to_si, _wrap(cont, [u + v for u, v in zip(vals, ys)])))[0]
        for i in range(len(sf)):
            if cont == 'dataframe':
                break
            scale = abs(sf[i]) + abs(sy[i])
            if not (abs(sxy[i] - (sf[i] + sy[i])) <= 1e-12 * scale + 1e-300):
                return fail('additivity/%s/%s' % (kind, case['param']),
                            'to_si(x+y) != to_si(x)+to_si(y): x=%r y=%r' % (vals[i], ys[i]), tags)
    # the factor itself
    ref = ref_factor(case)
    unit = 1 if cont == 'int' else 1.0
    one = _flat(cont, call(to_si, _wrap(cont, [unit] * len(vals))))[0][0]
    if ref is not None:
        tol = 1e-8
        if case['param'] == 'WallReactionCoeff' and case.get('order') == 0 and case['flow'] in US:
            tol = 1e-6
        if not (abs(one - ref) <= tol * abs(ref)):
            return fail('factor/%s/%s/%s' % (kind, case['param'], 'US' if case['flow'] in US else case['flow']),
                        'to_si(1)=%r, definition gives %r (rel %.3g) for %r'
                        % (one, ref, abs(one - ref) / abs(ref), case), tags)
    if fu.is_traditional != (case['flow'] in US) or fu.is_metric != (case['flow'] not in US and case['flow'] != 'SI'):
        return fail('unit_family/%s' % case['flow'], 'is_traditional/is_metric wrong for %s' % case['flow'], tags)
    nontrivial = any(v != 0 for v in x0) and (one != 1.0 or cont not in ('float', 'int'))
    return passed(nontrivial, tags)


def _mk(flow, kind, param, mass='mg', order=0, darcy=False, container='float', values=(1.0,), a=2.5, y=(3.0,)):
    return {'flow': flow, 'kind': kind, 'param': param, 'mass': mass, 'order': order, 'darcy': darcy,
            'container': container, 'values': list(values), 'a': a, 'y': list(y)}


def enumerate_cases(tier):
    probe = (1.0, -2.75, 0.0, 123456.789)
    for fl in FLOWS:
        for c in CONTAINERS:
            for p in HYD:
                for d in ((False, True) if p == 'RoughnessCoeff' else (False,)):
                    yield _mk(fl, 'hyd', p, darcy=d, container=c, values=probe, y=(0.5, 1e3, -7.0, 2.0))
            if c == 'dataframe':
                continue    # DataFrames are documented for HydParam only
            for p in QUAL:
                for m in MASS:
                    for o in (0, 1, 2):
                        yield _mk(fl, 'qual', p, mass=m, order=o, container=c, values=probe, y=(0.5, 1e3, -7.0, 2.0))


_val = st.one_of(
    st.floats(min_value=-1e12, max_value=1e12, allow_nan=False, allow_infinity=False, allow_subnormal=False),
    st.sampled_from([0.0, 1.0, -1.0, 1e-9, 1e12, -1e12, 0.1, 1e-300]),
)


@st.composite
def strategy(draw, tier='quick'):
    kind = draw(st.sampled_from(['hyd', 'qual']))
    cont = draw(st.sampled_from(CONTAINERS if kind == 'hyd' else CONTAINERS[:-1]))
    n = 1 if cont in ('float', 'int') else draw(st.integers(1, 6))
    vals = draw(st.lists(_val, min_size=n, max_size=n))
    ys = draw(st.lists(_val, min_size=n, max_size=n))
    a = draw(st.one_of(st.floats(min_value=-1e3, max_value=1e3, allow_nan=False, allow_subnormal=False),
                       st.sampled_from([0.0, 1.0, -1.0, 3.0])))
    return _mk(draw(st.sampled_from(FLOWS)), kind, draw(st.sampled_from(HYD if kind == 'hyd' else QUAL)),
               mass=draw(st.sampled_from(MASS)), order=draw(st.sampled_from([0, 1, 2])),
               darcy=draw(st.booleans()), container=cont, values=vals, a=a, y=ys)


def summarize(case):
    return case
