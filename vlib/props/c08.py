"""C08 - leaks discharge Cd*A*sqrt(2*g*p) only while active and only at positive pressure.

A case is a network spec of `netgen` (plain data, leaks stored as ``node['leak']``) plus an optional key
``'c08': {'ops': [[op, args...], ...], 'template': name}``.  Without that key the history is ``[['run']]`` so that a
C01 replay file (e.g. findings/C08_tank_leak_keyerror.json) is a valid C08 case.

ops (nodes are addressed by an index modulo the number of junctions + tanks):
  ['run']                               one WNTRSimulator(wn).run_sim() (continues from wn.sim_time if no reset)
  ['reset']                             wn.reset_initial_values()
  ['remove', i]                         node.remove_leak(wn)
  ['add', i, area, cd, start, end]      node.add_leak(wn, ...)   (skipped if the node has a leak or the model is paused)
  ['extend', k]                         wn.options.time.duration += k * hydraulic step

The reference model is the dict ``ref`` {node: leak definition} plus the pause clock; the expected leak of every
reported row is computed from the spec, the reported pressure (junction) / head - elevation (tank) and the
window [start, end) only.
"""
import copy
import math

from hypothesis import strategies as st

from .. import netgen, spec as S
from ..outcome import CaseTimeout, exc_bucket, fail, inconclusive, passed
from .c01 import balance_check

ID = 'C08'
LEVEL = 'exploration'
CASES = {'quick': 960, 'thorough': 12000}
CASE_TIMEOUT = 15
TECHNIQUE = ('property-based testing (Hypothesis): generated networks with 1-3+ leaks and short add/run/remove/reset '
             'histories simulated with WNTRSimulator; every reported row compared with a closed-form orifice '
             'reference evaluated from the generated spec and the reported pressure, window membership decided from '
             'the spec, node balance re-evaluated from the spec (C01 conservation oracle)')
RULE = ('netgen networks (2-8 junctions, thorough to 16; loops, parallel links, tanks incl. volume curves, pumps, valves, '
        'DD or PDD, report step k*hyd or ALL) post-processed so that 1-3 (or more) junctions/tanks carry a leak with '
        'area 1e-6..1e-2 m2 (log-uniform), Cd 0.1..1, start in {None, 0, on-grid, off-grid, 1 s, last grid instant, '
        'beyond the duration} and end in {None, start+1 s, start+on/off-grid spans, beyond the duration}; some leak '
        'junctions are lifted to or above the hydraulic grade (p <= 0) and some leaking tanks start empty or with a '
        'level inside the 0.1 mm band. about 60 % of the cases run once; the others follow a history template '
        '(remove+reset+rerun+add again, remove before the first run, pause/remove/continue, pause/continue, reset+rerun). '
        'Enumerated part: 52 hand-built three-node networks (junction/tank/both leaks x window kind x DD/PDD x report). '
        'Non-trivial = all runs converged and at least one reported row with an active leak and at least one of '
        '{window boundary off the hydraulic grid inside the run, active tank leak, active leak at p <= 0 or inside '
        'the band, >= 2 leaks active in one row, executed remove_leak}; distinct = SHA-1 of the case.')
ASSUMPTIONS = [
    'leak active at reported instant t iff start is not None and start <= t and (end is None or t < end): the start '
    'control is applied before the solve of the instant start, the end control before the solve of the instant end '
    '(SimTimeCondition "at": prev_time < T <= cur_time, Control._time_control in add_leak); end <= start is not generated',
    'p is the reported pressure of a junction and head - spec elevation (= level) of a tank (Tank.add_leak docstring: '
    'gauge head at the bottom of the tank); an isolated junction is reported with pressure 0 and must not leak',
    'g = 9.81 as in the code and in the statement; between p = 0 and the 0.1 mm band edge only 0 <= leak <= value at the '
    'band edge is demanded; for p <= 0 the documented linear slope 1e-11 m2/s is allowed',
    'a start/end row is demanded only for report_timestep ALL, only if the instant is not after the last reported row '
    'of a run, and for end only if the leak had started (a control that changes nothing creates no step)',
    'runs that WNTR reports as not converged are inconclusive (their reported prefix is still checked); an exception '
    'from run_sim counts as a violation only if the same network without leaks runs without that exception',
    'after a pause (no reset) leaks are not added and the window is read in absolute simulation time; a leak removed '
    'during a pause must be silent in the continuation ("remove_leak removes it completely")',
    'tank storage: with report ALL a cylindrical leaking tank must satisfy level[k+1]-level[k] = '
    '(inflow - outflow - leak)[k]*dt/area (explicit Euler step of WNTR, wntr/sim/hydraulics.py update_tank_heads)',
]
TOLERANCES = {'leak_rate_abs': '1.05e-6 m3/s (NewtonSolver TOL 1e-6 on the residual inf-norm; leak_con residual is '
                               'leak_rate - f(p)) + 1e-9*f(p)',
              'outside_window': 'exactly 0.0',
              'p<=0': '1e-11*|p| (constants.leak_slope) + 1.05e-6',
              'band': '[ -1.05e-6, Cd*A*sqrt(2g*1e-4) + 1.05e-6 ] for 0 < p < 1e-4 (constants.leak_delta)',
              'junction_balance_abs': '1.05e-6 + 1e-9*sum|q| (as C01)', 'tank_balance': '1e-9*(1+sum|q|) (as C01)',
              'tank_storage': '1e-9*(1 + |level|) m + 1e-9*|dV|/area'}
LEVEL_TEXT = ('exploration: a few hundred (quick) to ~8000 (thorough) generated networks/histories per seed plus 52 '
              'enumerated ones; no exhaustiveness claim')
LEVEL_NOTE = ('trusted base: the window rule and orifice formula in this file (~40 lines), netgen/spec builders, the C01 '
              'balance evaluator; pressures are taken from the reported results')

G = 9.81
BAND = 1.0e-4
SLOPE = 1.0e-11
NTOL = 1.05e-6
MAXITER = None      # solver defaults of the code under test; slow non-converging cases end at CASE_TIMEOUT
SHRINK_BUDGET = {'quick': 40, 'thorough': 240}

FEAT = {'nj': (2, 8), 'tanks': (0, 2), 'extra_res': (0, 1), 'pumps': True, 'valves': True, 'cvs': True,
        'closed': True, 'leaks': True, 'tank_leaks': True, 'vol_curves': True, 'tank_links_special': True,
        'booster': True, 'wild': 0.06,
        'durations': [3600, 7200, 4 * 3600, 4 * 3600, 8 * 3600, 12 * 3600, 0]}

TEMPLATES = ['single', 'remove_reset_readd', 'remove_before_run', 'pause_remove_continue', 'pause_continue', 'reset_rerun',
             'pause_remove_readd_continue']


# ------------------------------------------------------------------------------------------------ generator
def _r3(x):
    """3 significant digits"""
    if x == 0:
        return 0.0
    return float('%.3g' % x)


@st.composite
def _leak(draw, o):
    hyd = o['hyd']
    dur = o['duration']
    tend = (dur // hyd) * hyd
    span = max(tend, hyd)
    kind = draw(st.sampled_from(['zero', 'zero', 'grid', 'offgrid', 'offgrid', 'offgrid', 'one', 'last', 'beyond', 'none']))
    if kind == 'zero':
        start = 0
    elif kind == 'grid':
        start = hyd * draw(st.integers(1, max(1, span // hyd)))
    elif kind == 'offgrid':
        start = draw(st.integers(1, span + hyd // 2))
    elif kind == 'one':
        start = 1
    elif kind == 'last':
        start = max(tend - draw(st.sampled_from([0, 1, 7])), 0)
    elif kind == 'beyond':
        start = dur + draw(st.sampled_from([1, hyd, 3600 + 11]))
    else:
        start = None
    ek = draw(st.sampled_from(['none', 'none', 'plus1', 'span_grid', 'span_off', 'span_off', 'abs_off', 'beyond']))
    base = 0 if start is None else start
    if ek == 'none':
        end = None
    elif ek == 'plus1':
        end = base + 1
    elif ek == 'span_grid':
        end = base + hyd * draw(st.integers(1, 3))
    elif ek == 'span_off':
        end = base + draw(st.integers(2, 2 * hyd + 13))
    elif ek == 'abs_off':
        end = base + 1 + draw(st.integers(0, span))
    else:
        end = max(dur, base) + draw(st.sampled_from([1, hyd, 3600]))
    area = _r3(10.0 ** draw(st.floats(-6.0, -2.0)))
    cd = round(draw(st.floats(0.1, 1.0)), 3)
    return {'area': area, 'cd': cd, 'start': start, 'end': end}


def _top_head(spec):
    h = [r_['head'] for r_ in spec['reservoirs']]
    h += [t['elev'] + t['max'] for t in spec['tanks']]
    lift = 0.0
    for c in spec['curves'].values():
        if c['type'] == 'HEAD':
            lift = max(lift, max(p[1] for p in c['pts']))
    return max(h) + lift


@st.composite
def strategy(draw, tier='quick'):
    f = dict(FEAT)
    if tier == 'thorough':
        f['nj'] = (2, 16)
        f['max_extra_links'] = 5
        f['durations'] = f['durations'] + [24 * 3600]
    # pumps at the source and valves are not what this property is about and are the main source of runs that do
    # not converge: keep them, but in a minority of the cases
    f['pump_feed'] = draw(st.integers(0, 5)) == 0
    f['valves'] = draw(st.integers(0, 2)) == 0
    spec = draw(netgen.network(f))
    o = spec['opts']
    nodes = spec['junctions'] + spec['tanks']
    # richer leak parameters than netgen's for the leaks it placed
    for nd in nodes:
        if 'leak' in nd and draw(st.integers(0, 3)) != 0:
            nd['leak'] = draw(_leak(o))
    target = draw(st.sampled_from([1, 1, 2, 2, 3]))
    have = [nd for nd in nodes if 'leak' in nd]
    free = [nd for nd in nodes if 'leak' not in nd]
    while len(have) < target and free:
        tanks_free = [nd for nd in free if 'diam' in nd]
        if tanks_free and draw(st.integers(0, 2)) == 0:
            nd = tanks_free[draw(st.integers(0, len(tanks_free) - 1))]
        else:
            nd = free[draw(st.integers(0, len(free) - 1))]
        nd['leak'] = draw(_leak(o))
        free.remove(nd)
        have.append(nd)
    # lift some leaking junctions to / above the grade line; empty or nearly empty leaking tanks
    top = _top_head(spec)
    for nd in have:
        if 'diam' in nd:
            z = draw(st.integers(0, 7))
            if z == 0 and nd['min'] == 0.0:
                nd['init'] = 0.0
            elif z == 1 and nd['min'] == 0.0:
                nd['init'] = draw(st.sampled_from([5e-5, 2e-5, 9.9e-5, 1e-4]))
            if z in (0, 1) and nd['min'] == 0.0 and draw(st.booleans()):
                nd['leak']['start'] = 0       # the first row sees the empty / nearly empty tank with the leak on
        elif draw(st.integers(0, 4)) == 0:
            nd['elev'] = round(top + draw(st.floats(-6.0, 15.0)), 2)
    tmpl = draw(st.sampled_from(['single'] * 14 + ['remove_reset_readd'] * 3 + ['remove_before_run'] +
                                ['pause_remove_continue'] * 2 + ['pause_continue'] + ['reset_rerun'] * 2 +
                                ['pause_remove_readd_continue'] * 2))
    n = len(nodes)
    leak_idx = [i for i, nd in enumerate(nodes) if 'leak' in nd]
    ops = [['run']]
    mult = 1 if o['rep'] == 'ALL' else o['rep'] // o['hyd']     # continuations reach at least one reported row
    if tmpl == 'reset_rerun':
        ops = [['run'], ['reset'], ['run']]
    elif tmpl != 'single':
        k = draw(st.integers(1, len(leak_idx)))
        first = draw(st.integers(0, len(leak_idx) - 1))
        chosen = [leak_idx[(first + i) % len(leak_idx)] for i in range(k)]
        if draw(st.integers(0, 5)) == 0:
            chosen.append(draw(st.integers(0, n - 1)))      # remove_leak on a node that may have no leak
        if tmpl == 'remove_reset_readd':
            ops = [['run']] + [['remove', i] for i in chosen] + [['reset'], ['run'], ['reset']]
            for i in chosen[:k]:
                lk = draw(_leak(o))
                ops.append(['add', i, lk['area'], lk['cd'], lk['start'], lk['end']])
            ops += [['run']]
        elif tmpl == 'remove_before_run':
            ops = [['remove', i] for i in chosen] + [['run']]
        elif tmpl == 'pause_remove_continue':
            ops = [['run']] + [['remove', i] for i in chosen] + [['extend', mult * draw(st.integers(1, 3))], ['run']]
        elif tmpl == 'pause_remove_readd_continue':
            # the leak is repaired during the pause and a new leak is scheduled at the same node for later: it must
            # start at its own start_time, not at the restart
            ext = mult * draw(st.integers(2, 4))
            ops = [['run']] + [['remove', i] for i in chosen]
            for i in chosen[:k]:
                lk = draw(_leak(o))
                start = o['duration'] + o['hyd'] * draw(st.integers(1, max(1, ext - 1))) + draw(st.sampled_from([0, 0, 7, 600]))
                ops.append(['add', i, lk['area'], lk['cd'], start, None])
            ops += [['extend', ext], ['run']]
        else:
            ops = [['run'], ['extend', mult * draw(st.integers(1, 3))], ['run']]
    spec['c08'] = {'template': tmpl, 'ops': ops}
    return spec


def _mini(leaks, dm, rep, hyd=3600, dur=4 * 3600, j2_elev=12.0, t_init=3.0):
    """hand-built network: R1 - J1 - J2, tank T1 at J1"""
    sp = {'opts': {'duration': dur, 'hyd': hyd, 'pat': 3600, 'rep': rep, 'rule': 3600, 'pattern_start': 0,
                   'start_clocktime': 0, 'dm': 1.0, 'demand_model': dm, 'pmin': 0.0, 'preq': 15.0 if dm == 'PDD' else 0.07,
                   'pexp': 0.5, 'hw_approx': 'default'},
          'patterns': {'P1': [1.0, 0.5, 1.5]}, 'curves': {},
          'junctions': [{'name': 'J1', 'elev': 10.0, 'demands': [[0.002, 'P1', None]]},
                        {'name': 'J2', 'elev': j2_elev, 'demands': [[0.001, None, None]]}],
          'tanks': [{'name': 'T1', 'elev': 35.0, 'init': t_init, 'min': 0.0, 'max': 8.0, 'diam': 6.0, 'min_vol': 0.0,
                     'vol_curve': None}],
          'reservoirs': [{'name': 'R1', 'head': 45.0, 'pat': None}],
          'pipes': [{'name': 'L1', 'a': 'R1', 'b': 'J1', 'len': 300.0, 'diam': 0.3, 'C': 110.0, 'minor': 0.0,
                     'status': 'OPEN', 'cv': False},
                    {'name': 'L2', 'a': 'J1', 'b': 'J2', 'len': 200.0, 'diam': 0.2, 'C': 100.0, 'minor': 0.0,
                     'status': 'OPEN', 'cv': False},
                    {'name': 'L3', 'a': 'T1', 'b': 'J1', 'len': 150.0, 'diam': 0.25, 'C': 120.0, 'minor': 0.0,
                     'status': 'OPEN', 'cv': False}],
          'pumps': [], 'valves': [], 'controls': [], 'profile': 'sane'}
    by = {n['name']: n for n in sp['junctions'] + sp['tanks']}
    for name, lk in leaks.items():
        by[name]['leak'] = dict(lk)
    return sp


def enumerate_cases(tier='quick'):
    for dm in ('DD', 'PDD'):          # leaking tank that is empty / inside the 0.1 mm band at the first row
        for lvl in (0.0, 2e-5, 5e-5, 9.9e-5, 1e-4, 1.1e-4, 2e-4, 4e-4, 5e-4, 8e-4, 1e-3, 2e-3):   # ... or just above it
            yield _mini({'T1': {'area': 2e-3, 'cd': 0.6, 'start': 0, 'end': None},
                         'J2': {'area': 1e-4, 'cd': 0.75, 'start': 0, 'end': 5000}}, dm, 'ALL', t_init=lvl, j2_elev=45.0)
    for dm in ('DD', 'PDD'):          # leaks still running when the simulation is paused and they are removed
        for rm in ([0], [2], [0, 2]):
            sp = _mini({'J1': {'area': 1e-4, 'cd': 0.75, 'start': 0, 'end': None},
                        'T1': {'area': 2e-3, 'cd': 0.6, 'start': 1800, 'end': 6 * 3600}}, dm, 'ALL')
            sp['c08'] = {'template': 'pause_remove_continue',
                         'ops': [['run']] + [['remove', i] for i in rm] + [['extend', 3], ['run']]}
            yield sp
    windows = [(0, None), (1234, 2 * 3600 + 11), (3600, 10800), (None, 7200), (5 * 3600, None), (7100, 7101)]
    for wi, (s, e) in enumerate(windows):
        for dm in ('DD', 'PDD'):
            rep = 'ALL' if (wi + (dm == 'PDD')) % 3 != 2 else 3600
            lk = {'area': 1e-4, 'cd': 0.75, 'start': s, 'end': e}
            lt = {'area': 2e-3, 'cd': 0.6, 'start': s, 'end': e}
            yield _mini({'J1': lk}, dm, rep)
            sp = _mini({'T1': lt}, dm, rep, t_init=[3.0, 0.0, 5e-5][wi % 3])
            if wi % 2 == 1:
                sp['c08'] = {'template': 'reset_rerun', 'ops': [['run'], ['reset'], ['run']]}
            yield sp
            sp = _mini({'J2': lk, 'T1': lt, 'J1': {'area': 5e-6, 'cd': 0.1, 'start': 1800, 'end': 9000}}, dm, rep,
                       j2_elev=[12.0, 60.0, 45.0][wi % 3])
            if wi % 2 == 0:
                sp['c08'] = {'template': 'remove_reset_readd',
                             'ops': [['run'], ['remove', 1], ['remove', 2], ['reset'], ['run'], ['reset'],
                                     ['add', 2, 1e-3, 0.5, 900, 4000], ['run']]}
            else:
                sp['c08'] = {'template': 'pause_remove_continue',
                             'ops': [['run'], ['remove', 2], ['extend', 2], ['run']]}
            yield sp


def summarize(case):
    return {'opts': case['opts'], 'ops': (case.get('c08') or {}).get('ops', [['run']]),
            'leaks': {n['name']: n['leak'] for n in case['junctions'] + case['tanks'] if 'leak' in n},
            'n_junctions': len(case['junctions']), 'tanks': [t['name'] for t in case['tanks']],
            'links': [[l[0], l[1], l[2], l[3]] for l in S.links_of(case)]}


# ------------------------------------------------------------------------------------------------ reference
def leak_active(lk, t):
    """window rule of the statement: active exactly from start_time until end_time"""
    if lk is None or lk['start'] is None:
        return False
    if t < lk['start']:
        return False
    return lk['end'] is None or t < lk['end']


def orifice(lk, p):
    return lk['cd'] * lk['area'] * math.sqrt(2.0 * G * p)


def _why_inactive(lk, t, removed):
    if lk is None:
        return 'removed' if removed else 'no_leak'
    if lk['start'] is None:
        return 'never_started'
    if t < lk['start']:
        return 'before_start'
    return 'after_end'


class Obs(object):
    """what the rows of all runs of a case exercised (for the non-trivial rule and the tallies)"""
    def __init__(self):
        self.tags = set()
        self.active_rows = 0


def check_rows(case, ref, removed, run, clock, obs, phase):
    """compare every reported row of one run with the reference; returns None or (bucket, detail)"""
    o = case['opts']
    hyd = o['hyd']
    times = run.times
    leak = run.node['leak_demand']
    pres = run.node['pressure']
    head = run.node['head']
    kinds = [('junction', j) for j in case['junctions']] + [('tank', t) for t in case['tanks']]
    for k, t in enumerate(times):
        nact = 0
        for kind, nd in kinds:
            n = nd['name']
            lk = ref.get(n)
            got = leak[n][k]
            if not leak_active(lk, t):
                if not got == 0.0:
                    why = _why_inactive(lk, t, n in removed)
                    return ('inactive_nonzero/%s' % why,
                            '%s: t=%s %s %s leak_demand=%r but the leak is not active (%s; definition %r)'
                            % (phase, t, kind, n, got, why, lk))
                continue
            nact += 1
            obs.active_rows += 1
            p = pres[n][k] if kind == 'junction' else head[n][k] - nd['elev']
            if kind == 'tank':
                obs.tags.add('tank_leak_active')
            if p >= BAND:
                want = orifice(lk, p)
                if not abs(got - want) <= NTOL + 1e-9 * want:
                    if got == 0.0:      # not switched on at all (a different root cause than a wrong rate)
                        return ('active_zero/%s' % kind,
                                '%s: t=%s %s %s p=%.9g: leak_demand is 0 although the leak is active (definition %r), '
                                'Cd*A*sqrt(2*g*p)=%.9g' % (phase, t, kind, n, p, lk, want))
                    return ('rate/%s' % kind,
                            '%s: t=%s %s %s p=%.9g: leak_demand=%.9g, Cd*A*sqrt(2*g*p)=%.9g (Cd=%s A=%s, diff %.3g, tol %.3g)'
                            % (phase, t, kind, n, p, got, want, lk['cd'], lk['area'], got - want, NTOL + 1e-9 * want))
                if want > 20 * NTOL:
                    obs.tags.add('rate_resolved')      # the expected rate is well above the tolerance
            elif p <= 0.0:
                obs.tags.add('active_p<=0')
                if not abs(got) <= SLOPE * abs(p) + NTOL:
                    return ('nonpositive_pressure/%s' % kind,
                            '%s: t=%s %s %s p=%.9g <= 0 but leak_demand=%.9g' % (phase, t, kind, n, p, got))
            else:
                obs.tags.add('active_in_band')
                hi = orifice(lk, BAND)
                if not (-NTOL <= got <= hi + NTOL):
                    return ('band/%s' % kind,
                            '%s: t=%s %s %s p=%.9g inside the band: leak_demand=%.9g not in [0, %.9g]'
                            % (phase, t, kind, n, p, got, hi))
        for rs in case['reservoirs']:
            if not leak[rs['name']][k] == 0.0:
                return ('inactive_nonzero/reservoir', '%s: t=%s reservoir %s leak_demand=%r'
                        % (phase, t, rs['name'], leak[rs['name']][k]))
        if nact >= 2:
            obs.tags.add('multi_active')
    # window instants must be reported rows (partial steps), report ALL only
    if o['rep'] == 'ALL' and len(times):
        tset = set(int(x) for x in times)
        last = times[-1]
        lo = -1 if clock is None else clock
        for n in sorted(ref):
            lk = ref[n]
            s, e = lk['start'], lk['end']
            if s is None:
                continue
            if lo < s <= last:
                if s % hyd:
                    obs.tags.add('offgrid_start_in_run')
                if s not in tset:
                    return ('no_row/start', '%s: leak at %s starts at t=%s (hydraulic step %s) but no row is reported at '
                            'that instant; rows: %s' % (phase, n, s, hyd, [int(x) for x in times][:40]))
            if e is not None and s < e and lo < e <= last:
                if e % hyd:
                    obs.tags.add('offgrid_end_in_run')
                if e not in tset:
                    return ('no_row/end', '%s: leak at %s ends at t=%s (hydraulic step %s) but no row is reported at '
                            'that instant; rows: %s' % (phase, n, e, hyd, [int(x) for x in times][:40]))
    elif len(times):
        last = times[-1]
        for lk in ref.values():
            for x in (lk['start'], lk['end']):
                if x is not None and x % hyd and 0 < x <= last and lk['start'] is not None:
                    obs.tags.add('offgrid_boundary_hidden')
    return None


def leak_node_balance(case, ref, run, tags, phase):
    """node balance of the nodes that carry a leak definition (C01 evaluator on a reduced node list)"""
    sub = dict(case)
    sub['junctions'] = [j for j in case['junctions'] if j['name'] in ref]
    sub['tanks'] = [t for t in case['tanks'] if t['name'] in ref]
    sub['reservoirs'] = []
    bad = balance_check(sub, run, tags)
    if bad:
        return (bad[0], '%s: %s' % (phase, bad[1]))
    return None


def tank_storage(case, ref, run, phase):
    """explicit Euler storage step of leaking cylindrical tanks between consecutive rows (report ALL only)"""
    if case['opts']['rep'] != 'ALL':
        return None
    q = run.link['flowrate']
    links = S.links_of(case)
    for tk in case['tanks']:
        n = tk['name']
        if n not in ref or tk.get('vol_curve'):
            continue
        area = S.tank_area(tk)
        for k in range(len(run.times) - 1):
            dt = run.times[k + 1] - run.times[k]
            net = 0.0
            mag = 0.0
            for name, a, b, _kd, _l in links:
                if b == n:
                    net += q[name][k]
                    mag += abs(q[name][k])
                if a == n:
                    net -= q[name][k]
                    mag += abs(q[name][k])
            lkq = run.node['leak_demand'][n][k]
            want = run.node['head'][n][k] + (net - lkq) * dt / area
            got = run.node['head'][n][k + 1]
            tol = 1e-9 * (1.0 + abs(want)) + 1e-9 * (mag + abs(lkq)) * dt / area
            if not abs(got - want) <= tol:
                return ('tank_storage', '%s: tank %s rows t=%s -> %s: head %.9g -> %.9g, but net inflow %.9g minus leak '
                        '%.9g over %s s on %.6g m2 gives %.9g (diff %.3g)'
                        % (phase, n, run.times[k], run.times[k + 1], run.node['head'][n][k], got, net, lkq, dt, area,
                           want, got - want))
    return None


# ------------------------------------------------------------------------------------------------ check
def _strip(case):
    base = copy.deepcopy(case)
    base.pop('c08', None)
    leaks = {}
    for nd in base['junctions'] + base['tanks']:
        if 'leak' in nd:
            leaks[nd['name']] = nd.pop('leak')
    return base, leaks


def _n_controls(ref, case):
    return len(case.get('controls', [])) + sum((lk['start'] is not None) + (lk['end'] is not None) for lk in ref.values())


def check(case):
    tags = [t for t in netgen.features(case) if not t.startswith(('pumpcurve', 'hw:'))]
    sc = case.get('c08') or {}
    ops = sc.get('ops') or [['run']]
    tmpl = sc.get('template', 'single')
    tags.append('hist:' + tmpl)
    base, leaks0 = _strip(case)
    tags.append('n_leaks:%d' % min(len(leaks0), 4))
    names = [n['name'] for n in case['junctions'] + case['tanks']]
    hyd = case['opts']['hyd']
    try:
        wn = S.build_wn(base)
    except Exception as e:
        return inconclusive('building the leak-free model raised %s' % type(e).__name__, tags)
    ref = {}
    removed = set()
    obs = Obs()
    for n in names:
        if n in leaks0:
            lk = leaks0[n]
            try:
                wn.get_node(n).add_leak(wn, area=lk['area'], discharge_coeff=lk['cd'], start_time=lk['start'],
                                        end_time=lk['end'])
            except Exception as e:
                return fail(exc_bucket(e, 'add_leak'), 'add_leak(%r) on %s raised %r' % (lk, n, e), tags)
            ref[n] = lk
    if len(wn.control_name_list) != _n_controls(ref, case):
        return fail('add_leak/control_count', 'after add_leak of %r the model has controls %r' % (ref, wn.control_name_list), tags)
    clock = None           # None: fresh / reset; otherwise time of the last solved row of the previous run
    nruns = 0
    all_ok = True
    did_remove = False
    for step, op in enumerate(ops):
        kind = op[0]
        phase = 'op %d %s' % (step, kind)
        if kind == 'remove':
            n = names[op[1] % len(names)]
            try:
                wn.get_node(n).remove_leak(wn)
            except Exception as e:
                return fail(exc_bucket(e, 'remove_leak'), '%s: remove_leak on %s raised %r' % (phase, n, e), tags)
            if n in ref:
                del ref[n]
                removed.add(n)
                did_remove = True
                tags.append('remove:paused' if clock is not None else 'remove:fresh')
            else:
                tags.append('remove:no_leak')
            if len(wn.control_name_list) != _n_controls(ref, case):
                return fail('remove_leak/controls_left', '%s: after remove_leak on %s the model still has controls %r; '
                            'remaining leak definitions %r' % (phase, n, wn.control_name_list, ref), tags)
        elif kind == 'add':
            n = names[op[1] % len(names)]
            if n in ref or (clock is not None and not (op[4] is not None and op[4] > clock)):
                # (during a pause only a leak whose start time lies in the future is specified)
                tags.append('add:skipped')
                continue
            if clock is not None:
                tags.append('add:while_paused')
            lk = {'area': op[2], 'cd': op[3], 'start': op[4], 'end': op[5]}
            try:
                wn.get_node(n).add_leak(wn, area=lk['area'], discharge_coeff=lk['cd'], start_time=lk['start'],
                                        end_time=lk['end'])
            except Exception as e:
                return fail(exc_bucket(e, 'add_leak_again' if n in removed else 'add_leak'),
                            '%s: add_leak(%r) on %s raised %r' % (phase, lk, n, e), tags)
            ref[n] = lk
            tags.append('add:after_remove' if n in removed else 'add:new')
            removed.discard(n)
            if len(wn.control_name_list) != _n_controls(ref, case):
                return fail('add_leak/control_count', '%s: after add_leak(%r) on %s the model has controls %r'
                            % (phase, lk, n, wn.control_name_list), tags)
        elif kind == 'reset':
            wn.reset_initial_values()
            clock = None
        elif kind == 'extend':
            wn.options.time.duration = wn.options.time.duration + int(op[1]) * hyd
        elif kind == 'run':
            nruns += 1
            phase = 'op %d run#%d%s' % (step, nruns, '' if clock is None else ' (continued after t=%s)' % clock)
            run = S.run_wntr(wn, hw_approx=case['opts']['hw_approx'], maxiter=MAXITER)
            if isinstance(run.exception, CaseTimeout):      # the wall-limit alarm fired inside run_sim
                raise run.exception
            if run.exception is not None:
                b = exc_bucket(run.exception, 'run_sim')
                if clock is None:
                    try:
                        run0 = S.run_wntr(S.build_wn(base), hw_approx=case['opts']['hw_approx'], maxiter=MAXITER)
                    except CaseTimeout:
                        raise
                    except Exception:
                        return inconclusive('the leak-free model cannot be run', tags)
                    if isinstance(run0.exception, CaseTimeout):
                        raise run0.exception
                    if run0.exception is not None and exc_bucket(run0.exception, 'run_sim') == b:
                        return inconclusive('run_sim raises %s also without leaks' % type(run.exception).__name__, tags)
                else:
                    return inconclusive('run_sim raised %s in a continued run' % type(run.exception).__name__, tags)
                return fail(b, '%s: run_sim raised %r with leaks %r (the same network without leaks runs)'
                            % (phase, run.exception, ref), tags)
            if len(run.times) == 0:
                if run.ok:      # e.g. a continuation that does not reach the next multiple of the report step
                    tags.append('run_without_rows')
                    continue
                return inconclusive('no step converged', tags)
            if clock is not None and not run.times[0] > clock:
                return inconclusive('continued run does not continue after the pause', tags)
            bad = check_rows(case, ref, removed, run, clock, obs, phase)
            if bad is None:
                bad = leak_node_balance(case, ref, run, tags, phase)
            if bad is None:
                bad = tank_storage(case, ref, run, phase)
            if bad:
                bucket = bad[0]
                if clock is not None:
                    bucket = 'paused/' + bucket
                return fail(bucket, bad[1], tags + sorted(obs.tags))
            if not run.ok:
                all_ok = False
                break
            clock = float(run.times[-1])
        else:
            raise ValueError('unknown op %r' % (op,))
    tags += sorted(obs.tags)
    if not all_ok:
        return inconclusive('not converged (reported prefix satisfied the oracle)', tags)
    if nruns == 0:
        return passed(False, tags)
    interesting = obs.tags & {'offgrid_start_in_run', 'offgrid_end_in_run', 'tank_leak_active', 'active_p<=0',
                              'active_in_band', 'multi_active'}
    return passed(obs.active_rows > 0 and (bool(interesting) or did_remove), tags)
