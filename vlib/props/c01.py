"""C01 - mass is conserved at every node at every reported step; DD demand = sum base*pattern*multiplier."""
from hypothesis import strategies as st

from .. import netgen, spec as S
from ..outcome import exc_bucket, fail, inconclusive, passed

ID = 'C01'
LEVEL = 'exploration'
CASES = {'quick': 640, 'thorough': 8000}
CASE_TIMEOUT = 40
TECHNIQUE = 'property-based testing (Hypothesis): generated networks simulated with WNTRSimulator, node balances ' \
            're-evaluated from the generated spec (conservation oracle) and an independent demand-pattern evaluator'
RULE = ('Generated network specs (2-8 junctions, thorough to 20; spanning tree + extra links giving loops and parallel '
        'links, 1-3 sources, tanks with links in either direction, pumps/valves/CV pipes, multi-category demands, '
        'pattern_start, demand multiplier, leaks on junctions and tanks, DD or PDD, report step = k*hyd or ALL, both '
        'H-W approximations; one active valve in three gets a closed bypass pipe next to it; one case in four has a further demand entry whose pattern does not repeat, as a fire flow). One WNTRSimulator run per case. Non-trivial = converged run with >= 2 reported steps and '
        'at least one of {loop, parallel pair, >= 2 sources, multi-demand junction, pattern_start != 0, active leak, '
        'link ending at a tank}; a quarter of the cases are judged on the rows of a history of the same model (run/reset/run again, '
        'or pause/continue with a new simulator object); distinct = SHA-1 of the spec.')
ASSUMPTIONS = ['Runs that WNTR reports as not converged are inconclusive (the statement is about reported steps of runs; '
               'steps reported before the failure are still checked)',
               'pattern interpolation off (WNTR-only option, not part of the statement)']
TOLERANCES = {'junction_balance_abs': '1e-6 m3/s (NewtonSolver TOL on the residual inf-norm) + 1e-9*sum|q|',
              'tank_reservoir_balance': '1e-9*(1+sum|q|)', 'dd_demand_rel': 1e-12}

FEAT = {'nj': (2, 8), 'tanks': (0, 2), 'extra_res': (0, 1), 'pumps': True, 'valves': True, 'cvs': True,
        'closed': True, 'leaks': True, 'tank_leaks': True, 'vol_curves': True, 'tank_links_special': True,
        'booster': True, 'wild': 0.15,
        'durations': [3600, 7200, 4 * 3600, 8 * 3600, 12 * 3600, 24 * 3600, 0]}


@st.composite
def strategy(draw, tier='quick'):
    f = dict(FEAT)
    if tier == 'thorough':
        f['nj'] = (2, 20)
        f['max_extra_links'] = 6
        f['durations'] = f['durations'] + [48 * 3600]
    spec = draw(netgen.network(f))
    # valve station: a regulating valve with a closed bypass pipe next to it (either orientation); the zone behind it is
    # connected through the valve only
    for k, v in enumerate(spec['valves']):
        if v['status'] == 'ACTIVE' and draw(st.integers(0, 2)) == 0:
            a, b = (v['a'], v['b']) if draw(st.booleans()) else (v['b'], v['a'])
            spec['pipes'].append({'name': 'LB%d' % (k + 1), 'a': a, 'b': b, 'len': 50.0, 'diam': v['diam'], 'C': 100.0,
                                  'minor': 0.0, 'status': 'CLOSED', 'cv': False})
    # a fire-flow-like demand: a further demand entry on one junction whose pattern does not repeat (wrap=False)
    if draw(st.integers(0, 3)) == 0:
        o = spec['opts']
        n = draw(st.integers(2, 6))
        k0 = draw(st.integers(0, n - 1))
        spec['patterns']['FIRE'] = [1.0 if k0 <= k < k0 + 2 else 0.0 for k in range(n)]
        spec['nowrap'] = ['FIRE']
        j = spec['junctions'][draw(st.integers(0, len(spec['junctions']) - 1))]
        j['demands'].append([draw(st.sampled_from([0.002, 0.01, 0.03])), 'FIRE', 'Fire_Flow'])
    # a quarter of the cases are judged on the rows of a small history of the same model: run / reset / run again (new or
    # same simulator object), or run to a pause point and continue with a new simulator object
    h = S.draw_history(draw, st, spec['opts'])
    if h:
        spec['history'] = h
    return spec


def summarize(case):
    return {'opts': case['opts'], 'n_junctions': len(case['junctions']), 'tanks': [t['name'] for t in case['tanks']],
            'links': [[l[0], l[1], l[2], l[3]] for l in S.links_of(case)],
            'demands_J1': case['junctions'][0]['demands'], 'patterns': case['patterns']}


def balance_check(case, run, tags):
    """shared with C08/C09: returns None or (bucket, detail)"""
    links = S.links_of(case)
    q = run.link['flowrate']
    dem = run.node['demand']
    leak = run.node['leak_demand']
    nt = len(run.times)
    inl = {}
    outl = {}
    for name, a, b, kind, _l in links:
        outl.setdefault(a, []).append(name)
        inl.setdefault(b, []).append(name)
    for k in range(nt):
        for grp in ('junctions', 'tanks', 'reservoirs'):
            for nd in case[grp]:
                n = nd['name']
                qin = sum(q[l][k] for l in inl.get(n, ()))
                qout = sum(q[l][k] for l in outl.get(n, ()))
                mag = sum(abs(q[l][k]) for l in inl.get(n, ())) + sum(abs(q[l][k]) for l in outl.get(n, ()))
                if grp == 'junctions':
                    res = qin - qout - dem[n][k] - leak[n][k]
                    tol = 1.0e-6 * 1.05 + 1e-9 * mag
                else:
                    res = dem[n][k] + leak[n][k] - (qin - qout)
                    tol = 1e-9 * (1.0 + mag)
                if not abs(res) <= tol:
                    kinds = sorted(set(kd for (nm, a, b, kd, _l) in links if a == n or b == n))
                    return ('balance/%s' % grp[:-1],
                            't=%s node %s: in=%.9g out=%.9g demand=%.9g leak=%.9g residual=%.3g tol=%.3g (adjacent: %s)'
                            % (run.times[k], n, qin, qout, dem[n][k], leak[n][k], res, tol, kinds))
    return None


def check(case):
    tags = netgen.features(case)
    try:
        wn = S.build_wn(case)
    except Exception as e:
        return fail(exc_bucket(e, 'build'), 'building the model raised %r' % e, tags)
    if case.get('history'):
        tags = tags + ['history:' + case['history'][0]]
    run = S.run_wntr_history(wn, case.get('history'), hw_approx=case['opts']['hw_approx'])
    if run.exception is not None:   # no step is reported: nothing for this property to judge (C16/C08 own this)
        return inconclusive('run_sim raised %s' % type(run.exception).__name__, tags)
    if len(run.times) == 0:
        return inconclusive('no step converged', tags)
    bad = balance_check(case, run, tags)
    if bad:
        return fail(bad[0], bad[1], tags)
    # demand-driven demand = sum base*pattern*multiplier for connected junctions
    if case['opts']['demand_model'] == 'DD':
        st_ = run.link['status']
        for k, t in enumerate(run.times):
            closed = set(n for n in st_ if st_[n][k] == 0)
            reach = S.reachable_from_sources(case, closed)
            for j in case['junctions']:
                if j['name'] not in reach:
                    continue
                want = S.expected_demand(case, j, t)
                got = run.node['demand'][j['name']][k]
                if not abs(got - want) <= 1e-12 * max(1.0, abs(want)) + 1e-15:
                    return fail('dd_demand', 't=%s junction %s: reported demand %.12g, sum base*pattern*multiplier = %.12g '
                                '(demands %r, pattern_start %s, pat step %s, dm %s)'
                                % (t, j['name'], got, want, j['demands'], case['opts']['pattern_start'],
                                   case['opts']['pat'], case['opts']['dm']), tags)
    if not run.ok:
        return inconclusive('not converged (reported prefix satisfied the oracle)', tags)
    interesting = set(tags) & {'loops', 'parallel_links', 'multi_source', 'multi_demand', 'pattern_start',
                               'junction_leak', 'tank_leak', 'link_into_tank'}
    return passed(len(run.times) >= 2 and bool(interesting), tags)
