"""C02 - every link obeys the head-flow law of its type and reported status.

Two layers, selected by case['mode']:
  'model' : one generated link; the residual of its constraint is read through the compiled evaluator while the
            flow is swept over +-[1e-9, 2] m3/s; the zero set of the residual must be the reference law.
  'net'   : a generated network is simulated; every link at every reported step must satisfy the law of its
            type for its *reported* status within the Newton tolerance.
The reference laws live in vlib/refs/c02_laws.py (no wntr code).
"""
import math

from hypothesis import strategies as st

from .. import netgen, spec as S
from ..outcome import exc_bucket, fail, inconclusive, passed
from ..refs import c02_laws as L

ID = 'C02'
LEVEL = 'exploration'
CASES = {'quick': 2400, 'thorough': 32000}
CASE_TIMEOUT = 30
MAXITER = 1000     # Newton iterations per solve (WNTR default 3000): a slower solve only turns a case inconclusive
TECHNIQUE = ('property-based testing (Hypothesis): (a) flow sweep of one generated link, the zero set of its '
             'constraint residual (read through the compiled evaluator) compared with an independent head-flow '
             'law; (b) generated networks simulated with WNTRSimulator, every link at every reported step '
             're-evaluated against the same law for its reported status')
RULE = ('mode=model (about half of the cases): one link between two nodes (junction/reservoir/tank ends; pipe with '
        'length 1-5000 m, diameter 0.02-2 m, C 40-160, minor loss 0-20, both H-W approximations; head pump with a '
        '1-, 2-, 3- (first flow 0 or > 0) or 4-6-point curve; power pump 10 W-1 MW; PRV/PSV/FCV/TCV x '
        'OPEN/ACTIVE/CLOSED with drawn setting, minor loss and diameter).  The model is built with '
        'create_hydraulic_model and for ~190 flows (log grid 1e-9..2 both signs, 0, the break points 2e-4, 4e-4, '
        '1e-8, q_bar, the curve points, drawn extra flows) the head difference that zeroes the residual is located '
        'and compared with the law.  Non-trivial = link not closed.  mode=net: netgen network (2-8 junctions, '
        'thorough to 16; loops, parallel links, tanks, pump-fed or gravity-fed, boosters, CV pipes, closed pipes, '
        'valves of every type and initial status, DD/PDD, both H-W approximations) plus up to two extra valves / CV '
        'pipes / 2-point boosters placed by this module, fixed-status OPEN valves turned against the flow in a third '
        'of the cases, networks with a power pump run demand-driven for a single period (a quarter of those with a '
        'second source get a suction head above the zone: "downhill"); a fifth of the net cases is a two-zone template '
        '(source - pipe - J1 - valve - J2 - pipe - lower source/tank) with PSV/FCV/PRV settings placed between the '
        'two source heads so that the valve is reported Active; one WNTRSimulator run (Newton MAXITER 1000).  '
        'Non-trivial = at least one pump, '
        'valve or CV pipe was judged at a reported step in a non-closed, non-isolated state.  '
        'Distinct = SHA-1 of the case.')
ASSUMPTIONS = [
    'initial statuses are applied with wn.reset_initial_values() before simulating (add_valve/add_pump only store '
    'initial_status); the law is always judged against the status that the results report',
    'a link with an end junction that has no path to a tank/reservoir through links reported non-closed (own BFS on '
    'the spec) is isolated: only zero flow is demanded, its end heads are not judged',
    'runs that WNTR reports as not converged are inconclusive; the steps reported before the failure are still judged',
    'inside smoothing bands (piecewise H-W |q| < 4e-4; head pump 0 <= q < 1e-8 for C <= 1) only sign consistency and '
    'the monotone bound are demanded',
    'the default H-W approximation term 1e-5*sqrt(K)*q is treated as an allowed deviation, not as part of the law',
    'head pump curves with more than 3 points are a regression in WNTR: only a non-increasing head gain is demanded',
    'power pumps: the law P = rho g q dH is demanded for q > 0 only; reverse flow is judged separately',
    'a RuntimeError of get_head_curve_coefficients (documented: poor regression / negative coefficient) for curves '
    'with 3 or more points is inconclusive',
]
TOLERANCES = {
    'newton': '1e-6 on each constraint residual in its own unit (NewtonSolver TOL on the inf-norm): m for head-loss '
              'constraints and PRV/PSV settings, m3/s for closed links and FCV settings, W for power pumps',
    'hw_resistance_rel': '5e-5 on the friction term (10.667 documented; 10.66683 from EPANET 4.727 by unit conversion)',
    'hw_default_approx': '1e-5*sqrt(K)*|q| (eps term of the default approximation)',
    'Qtol': '2.83168e-6 m3/s (0.0001 cfs) for reverse flow in pumps / CV pipes',
    'pump_fit_rel': '1e-9 for closed-form 1-/2-point curves, 1e-6 of the shut-off head for 3-point curves (scipy '
                    'curve_fit terminates at xtol/ftol 1e-8; measured on the unchanged code: 4e-15)',
    'float_rel': '1e-10..1e-12 relative for residual arithmetic at model level',
    'pump_slope': '1e-11 m per m3/s: line replacing the pump curve below the smoothing point',
}
LEVEL_TEXT = ('exploration: sampled links and networks; every reported step of every sampled run is judged, the '
              'model-level sweep covers both signs, zero and all break points of every sampled link')
LEVEL_NOTE = ('trusted base: the reference laws in vlib/refs/c02_laws.py, Hypothesis, numpy; WNTR is used only to '
              'build/simulate the model and to read residuals, results and statuses')

FEAT = {'nj': (2, 8), 'tanks': (0, 2), 'extra_res': (0, 1), 'pumps': True, 'valves': True, 'cvs': True,
        'closed': True, 'leaks': False, 'vol_curves': False, 'tank_links_special': True, 'booster': True,
        'wild': 0.06, 'durations': [0, 0, 0, 3600, 7200, 4 * 3600, 12 * 3600], 'report_all': None}

CON_DICT = {'headpump': 'head_pump_headloss', 'powerpump': 'power_pump_headloss', 'PRV': 'prv_headloss',
            'PSV': 'psv_headloss', 'FCV': 'fcv_headloss', 'TCV': 'tcv_headloss'}


def r_(x, n=4):
    return round(float(x), n)


# =============================================================================================== strategies
@st.composite
def _pump_points(draw):
    kind = draw(st.sampled_from(['1', '1', '2', '2', '2', '3z', '3z', '3z', '3g', 'n']))
    if kind == '1':
        return [[r_(draw(st.floats(1e-3, 1.0)), 5), r_(draw(st.floats(1.0, 150.0)), 3)]]
    if kind == '2':
        q0 = draw(st.sampled_from([0.0, 0.0, None]))
        if q0 is None:
            q0 = r_(draw(st.floats(1e-3, 0.3)), 5)
        q1 = r_(q0 + draw(st.floats(1e-3, 1.0)), 5)
        h0 = r_(draw(st.floats(2.0, 150.0)), 3)
        h1 = r_(h0 * draw(st.floats(0.0, 0.95)), 3)
        return [[q0, h0], [q1, h1]]
    if kind == '3z':
        q1 = r_(draw(st.floats(1e-3, 0.5)), 5)
        q2 = r_(q1 * draw(st.floats(1.2, 3.0)), 5)
        h0 = r_(draw(st.floats(2.0, 150.0)), 3)
        h1 = r_(h0 * draw(st.floats(0.4, 0.95)), 3)
        h2 = r_(h1 * draw(st.floats(0.0, 0.85)), 3)
        return [[0.0, h0], [q1, h1], [q2, h2]]
    # points of a true curve H = A - B Q^C
    a = draw(st.floats(5.0, 150.0))
    c = draw(st.floats(1.2, 3.0))
    qmax = draw(st.floats(0.01, 1.0))
    b = a * draw(st.floats(0.5, 0.98)) / qmax ** c
    if kind == '3g':
        fr = [draw(st.floats(0.05, 0.3)), draw(st.floats(0.45, 0.65)), 1.0]
    else:
        n = draw(st.integers(4, 6))
        fr = [i / (n - 1.0) for i in range(n)]
    return [[r_(f * qmax, 6), r_(a - b * (f * qmax) ** c, 6)] for f in fr]


@st.composite
def model_case(draw, tier='quick'):
    kind = draw(st.sampled_from(['pipe', 'pipe', 'headpump', 'headpump', 'powerpump', 'valve', 'valve', 'valve']))
    case = {'mode': 'model', 'kind': kind,
            'hbase': r_(draw(st.floats(0.0, 300.0)), 2),
            'elev': [r_(draw(st.floats(-5.0, 60.0)), 2), r_(draw(st.floats(-5.0, 60.0)), 2)],
            'extra_q': [float('%.4g' % draw(st.floats(1e-7, 2.0))) for _ in range(draw(st.integers(0, 4)))],
            'status': 'OPEN'}
    ends = draw(st.sampled_from(['JJ', 'JJ', 'JJ', 'RJ', 'JR', 'TJ', 'JT']))
    if kind == 'pipe':
        case.update(len=r_(draw(st.floats(1.0, 5000.0)), 1), diam=r_(draw(st.floats(0.02, 2.0)), 3),
                    C=r_(draw(st.floats(40.0, 160.0)), 1),
                    minor=draw(st.sampled_from([0.0, 0.0, 0.5, 2.0, 10.0, 20.0])),
                    approx=draw(st.sampled_from(['default', 'piecewise'])),
                    status=draw(st.sampled_from(['OPEN', 'OPEN', 'OPEN', 'OPEN', 'CLOSED'])))
    elif kind == 'headpump':
        case.update(pts=draw(_pump_points()), status=draw(st.sampled_from(['OPEN'] * 6 + ['CLOSED'])))
    elif kind == 'powerpump':
        case.update(power=float('%.4g' % draw(st.floats(10.0, 1e6))),
                    status=draw(st.sampled_from(['OPEN'] * 4 + ['CLOSED'])))
    else:
        vt = draw(st.sampled_from(['PRV', 'PSV', 'FCV', 'TCV']))
        if vt in ('PRV', 'PSV'):
            setting = r_(draw(st.floats(0.0, 80.0)), 2)
        elif vt == 'FCV':
            setting = float('%.4g' % draw(st.floats(1e-4, 0.5)))
        else:
            setting = draw(st.sampled_from([0.0, 0.5, 5.0, 50.0, 1000.0]))
        if vt != 'TCV':
            ends = 'JJ'
        case.update(vtype=vt, setting=setting, minor=draw(st.sampled_from([0.0, 0.5, 2.0, 10.0, 20.0])),
                    diam=r_(draw(st.floats(0.05, 1.0)), 3),
                    status=draw(st.sampled_from(['OPEN', 'OPEN', 'ACTIVE', 'ACTIVE', 'CLOSED'])))
    case['ends'] = ends
    return case


@st.composite
def _zone_spec(draw):
    """two pressure zones joined by one valve: source R1 - pipe - JA - [valve] - JB - pipe - lower source.
    The flow through the valve is free (a source on either side), so PSV/FCV/PRV settings between the two
    source heads are feasible and the valve is reported Active (in a tree with fixed demands they cannot be)."""
    o = draw(netgen.options({'durations': [0, 0, 3600, 4 * 3600], 'report_all': None}))
    h1 = r_(draw(st.floats(70, 100)), 1)
    drop = draw(st.sampled_from([15.0, 25.0, 40.0]))
    h2 = r_(h1 - drop, 1)
    za, zb = r_(draw(st.floats(0, 15)), 2), r_(draw(st.floats(0, 15)), 2)
    vt = draw(st.sampled_from(['PSV', 'PSV', 'PSV', 'FCV', 'FCV', 'PRV', 'TCV']))
    stt = draw(st.sampled_from(['ACTIVE', 'ACTIVE', 'ACTIVE', 'ACTIVE', 'OPEN']))
    tight_up = vt == 'PSV' or (vt != 'PRV' and draw(st.booleans()))     # which side carries the resistance
    tight = {'len': r_(draw(st.floats(300, 2000)), 1), 'diam': draw(st.sampled_from([0.1, 0.15, 0.2]))}
    wide = {'len': r_(draw(st.floats(20, 200)), 1), 'diam': draw(st.sampled_from([0.3, 0.4, 0.5]))}
    frac = draw(st.sampled_from([0.3, 0.5, 0.7, 0.9]))
    target = h2 + drop * frac
    if vt == 'PSV':
        setting = r_(target - za, 2)
    elif vt == 'PRV':
        setting = r_(target - zb, 2)
    elif vt == 'FCV':
        setting = draw(st.sampled_from([0.0005, 0.002, 0.005, 0.02]))
    else:
        setting = draw(st.sampled_from([5.0, 50.0, 500.0, 5000.0]))

    def pipe(name, a, b, geo):
        return {'name': name, 'a': a, 'b': b, 'len': geo['len'], 'diam': geo['diam'], 'C': r_(draw(st.floats(70, 140)), 1),
                'minor': draw(st.sampled_from([0.0, 0.0, 2.0])), 'status': 'OPEN', 'cv': False}
    dem = [0.0, 0.0005, 0.002]
    spec = {'opts': o, 'patterns': {'P1': [1.0, 0.6, 1.4]}, 'curves': {}, 'controls': [], 'profile': 'zones', 'tanks': [],
            'junctions': [{'name': 'J1', 'elev': za, 'demands': [[draw(st.sampled_from(dem)), None, None]]},
                          {'name': 'J2', 'elev': zb, 'demands': [[draw(st.sampled_from(dem)), draw(st.sampled_from([None, 'P1'])), None]]}],
            'reservoirs': [{'name': 'R1', 'head': h1, 'pat': None}],
            'pipes': [pipe('L1', 'R1', 'J1', tight if tight_up else wide)], 'pumps': [], 'valves': []}
    if draw(st.booleans()):
        spec['reservoirs'].append({'name': 'R2', 'head': h2, 'pat': None})
        low = 'R2'
    else:
        spec['tanks'].append({'name': 'T1', 'elev': r_(h2 - 5.0, 1), 'init': 5.0, 'min': 0.0, 'max': 10.0, 'diam': 20.0,
                              'min_vol': 0.0, 'vol_curve': None})
        low = 'T1'
    spec['pipes'].append(pipe('L2', 'J2', low, wide if tight_up else tight))
    # an ACTIVE PRV/PSV installed against the pressure gradient does not converge in WNTR: only the other
    # valves are also placed against the flow
    flip = draw(st.integers(0, 5)) == 0 and (stt == 'OPEN' or vt in ('FCV', 'TCV'))
    a, b = ('J2', 'J1') if flip else ('J1', 'J2')
    spec['valves'].append({'name': 'V3', 'a': a, 'b': b, 'type': vt, 'diam': draw(st.sampled_from([0.1, 0.2, 0.3])),
                           'minor': draw(st.sampled_from([0.0, 1.0, 5.0])), 'setting': setting, 'status': stt})
    return spec


@st.composite
def _prv_window_spec(draw):
    """R1 - pipe - J1 - [PRV with a large minor loss] - J2 (fixed demand D).  The flow is known (demand-driven), so
    the head upstream of the valve is H - K D^1.852 by my own H-W law and the setting can be placed a chosen fraction of
    the open-valve loss r D^2 below it: for fractions < 1 the valve cannot hold the setting and must be reported Open,
    for fractions > 1 it throttles (Active).  Targets the narrow window between 'open' and 'active'."""
    o = draw(netgen.options({'durations': [0, 0, 3600], 'report_all': None}))
    o['demand_model'] = 'DD'
    o['dm'] = 1.0
    H = r_(draw(st.floats(50, 90)), 1)
    D = draw(st.sampled_from([0.004, 0.008, 0.015, 0.03]))
    plen, pd, pc = r_(draw(st.floats(100, 800)), 1), draw(st.sampled_from([0.25, 0.3, 0.4])), r_(draw(st.floats(90, 140)), 1)
    dv = draw(st.sampled_from([0.08, 0.1, 0.15, 0.2]))
    kv = draw(st.sampled_from([10.0, 40.0, 100.0, 250.0]))
    z1, z2 = r_(draw(st.floats(0, 10)), 2), r_(draw(st.floats(0, 10)), 2)
    h_up = H - L.pipe_loss(D, L.pipe_K(plen, pd, pc), 0.0)
    loss_open = L.quad_loss(D, L.minor_r(kv, dv))
    frac = draw(st.sampled_from([0.2, 0.5, 0.8, 0.95, 1.05, 1.5, 4.0]))
    setting = r_(h_up - z2 - frac * loss_open, 4)
    if setting <= 1.0:
        setting = 1.0
    return {'opts': o, 'patterns': {}, 'curves': {}, 'controls': [], 'profile': 'prv_window', 'tanks': [], 'pumps': [],
            'junctions': [{'name': 'J1', 'elev': z1, 'demands': [[0.0, None, None]]},
                          {'name': 'J2', 'elev': z2, 'demands': [[D, None, None]]}],
            'reservoirs': [{'name': 'R1', 'head': H, 'pat': None}],
            'pipes': [{'name': 'L1', 'a': 'R1', 'b': 'J1', 'len': plen, 'diam': pd, 'C': pc, 'minor': 0.0, 'status': 'OPEN',
                       'cv': False}],
            'valves': [{'name': 'V2', 'a': 'J1', 'b': 'J2', 'type': 'PRV', 'diam': dv, 'minor': kv, 'setting': setting,
                        'status': 'ACTIVE'}]}


@st.composite
def net_case(draw, tier='quick'):
    z = draw(st.integers(0, 9))
    if z == 9:
        return {'mode': 'net', 'spec': draw(_prv_window_spec())}
    if z in (0, 1):
        return {'mode': 'net', 'spec': draw(_zone_spec())}
    f = dict(FEAT)
    if tier == 'thorough':
        f['nj'] = (2, 16)
        f['max_extra_links'] = 5
        f['durations'] = f['durations'] + [24 * 3600]
    spec = draw(netgen.network(f))
    _augment(draw, spec)
    for v in spec['valves']:
        # an ACTIVE PSV in a tree with fixed demands has no feasible throttling position (WNTR then rarely
        # converges); active PSVs are exercised by the two-zone template instead
        if v['type'] == 'PSV' and v['status'] == 'ACTIVE' and draw(st.integers(0, 3)) > 0:
            v['status'] = draw(st.sampled_from(['OPEN', 'CLOSED']))
    for v in spec['valves']:
        # an OPEN (fixed status) valve is a plain minor-loss element: exercise it in both flow directions
        if v['status'] == 'OPEN' and draw(st.integers(0, 2)) == 0:
            v['a'], v['b'] = v['b'], v['a']
    power = [p for p in spec['pumps'] if p['type'] == 'POWER']
    if power and len(spec['reservoirs']) + len(spec['tanks']) >= 2 and draw(st.integers(0, 3)) == 0:
        # constant-power pump whose suction head is not below the zone it delivers to ("downhill")
        for rs in spec['reservoirs']:
            if rs['name'] == power[0]['a']:
                rs['head'] = r_(rs['head'] + draw(st.sampled_from([30.0, 60.0, 100.0])), 1)
                spec['downhill_power_pump'] = True
    if any(p['type'] == 'POWER' for p in spec['pumps']):
        # WNTR's Newton iteration rarely survives a demand change with a constant-power pump and no storage, nor
        # pressure-dependent demand next to such a pump: single period / demand-driven keeps the inconclusive share low
        spec['opts']['demand_model'] = 'DD'
        spec['opts']['duration'] = 0
    case = {'mode': 'net', 'spec': spec}
    if any(p['type'] == 'HEAD' for p in spec['pumps']) and draw(st.integers(0, 2)) == 0:
        case['edit_curves'] = draw(st.sampled_from([0.8, 1.25, 0.6]))
    o = spec['opts']
    nsteps = o['duration'] // o['hyd']
    plain = [p for p in spec['pipes'] if not p['cv']]
    if nsteps >= 3 and plain and 'edit_curves' not in case and draw(st.integers(0, 2)) == 0:
        # history inside one run: controls change a physical attribute of a pipe (WNTR rebuilds the coefficient through its
        # ModelUpdater), the same attribute more than once; the law is judged with the value in effect at each row
        ac = []
        for _ in range(draw(st.integers(1, 2))):
            p = plain[draw(st.integers(0, len(plain) - 1))]
            attr = draw(st.sampled_from(['roughness', 'roughness', 'minor_loss', 'diameter']))
            vals = {'roughness': [70.0, 100.0, 130.0, 150.0], 'minor_loss': [0.0, 2.0, 8.0, 25.0],
                    'diameter': [0.15, 0.2, 0.3, 0.4]}[attr]
            for _k in range(draw(st.integers(2, 3))):
                ac.append({'link': p['name'], 'attr': attr, 'value': draw(st.sampled_from(vals)),
                           'at': o['hyd'] * draw(st.integers(1, nsteps))})
        # one command per (link, attribute, instant)
        seen = {}
        for c in ac:
            seen[(c['link'], c['attr'], c['at'])] = c
        spec['attr_controls'] = sorted(seen.values(), key=lambda c: (c['at'], c['link'], c['attr']))
    return case


def _augment(draw, spec):
    """raise the share of valves in each status, CV pipes and 2-point boosters (on junction-junction pipes)"""
    jset = set(j['name'] for j in spec['junctions'])
    used = set()
    for v in spec['valves']:
        used.update((v['a'], v['b']))
    cands = [p for p in spec['pipes'] if p['a'] in jset and p['b'] in jset and not p['cv'] and p['status'] == 'OPEN']
    for _ in range(draw(st.integers(0, 2))):
        if not cands:
            break
        p = cands.pop(draw(st.integers(0, len(cands) - 1)))
        what = draw(st.sampled_from(['valve', 'valve', 'valve', 'cv', 'pump2', 'flip']))
        if what == 'flip':
            p['a'], p['b'] = p['b'], p['a']
            p['cv'] = True
        elif what == 'cv':
            p['cv'] = True
        elif what == 'pump2':
            spec['pipes'].remove(p)
            cname = 'HC%d' % (len(spec['curves']) + 1)
            qd = draw(st.sampled_from([0.002, 0.005, 0.01, 0.03]))
            hd = draw(st.sampled_from([5.0, 12.0, 30.0]))
            q0 = draw(st.sampled_from([0.0, 0.4 * qd]))
            spec['curves'][cname] = {'type': 'HEAD', 'pts': [[r_(q0, 5), r_(hd * 1.3, 3)], [r_(qd * 2.0, 5), r_(hd * 0.3, 3)]]}
            spec['pumps'].append({'name': p['name'].replace('L', 'PU'), 'a': p['a'], 'b': p['b'], 'type': 'HEAD',
                                  'power': None, 'curve': cname, 'status': 'OPEN'})
        else:
            if spec.get('profile') != 'wild' and (p['a'] in used or p['b'] in used):
                continue
            used.update((p['a'], p['b']))
            spec['pipes'].remove(p)
            vt = draw(st.sampled_from(['PRV', 'PSV', 'FCV', 'TCV']))
            if vt in ('PRV', 'PSV'):
                setting = r_(draw(st.floats(5, 40)), 2)
            elif vt == 'FCV':
                setting = draw(st.sampled_from([0.0002, 0.0005, 0.001, 0.003, 0.01]))
            else:
                setting = draw(st.sampled_from([0.0, 1.0, 5.0, 50.0, 500.0]))
            spec['valves'].append({'name': p['name'].replace('L', 'V'), 'a': p['a'], 'b': p['b'], 'type': vt,
                                   'diam': p['diam'], 'minor': draw(st.sampled_from([0.0, 1.0, 5.0, 20.0])),
                                   'setting': setting,
                                   'status': draw(st.sampled_from(['ACTIVE', 'ACTIVE', 'OPEN', 'OPEN', 'CLOSED']))})


@st.composite
def strategy(draw, tier='quick'):
    if draw(st.integers(0, 9)) < 5:
        return draw(model_case(tier))
    return draw(net_case(tier))


def enumerate_cases(tier):
    base = {'mode': 'model', 'hbase': 37.5, 'elev': [3.0, 11.0], 'extra_q': [0.0123], 'ends': 'JJ'}
    for approx in ('default', 'piecewise'):
        for ends in ('JJ', 'RJ', 'JT'):
            yield dict(base, kind='pipe', len=350.0, diam=0.2, C=110.0, minor=2.0, approx=approx, status='OPEN',
                       ends=ends)
    yield dict(base, kind='pipe', len=350.0, diam=0.2, C=110.0, minor=2.0, approx='default', status='CLOSED')
    for pts in ([[0.05, 20.0]], [[0.0, 10.0], [0.1, 0.0]], [[0.02, 30.0], [0.08, 12.0]],
                [[0.0, 35.0], [0.01, 20.0], [0.018, 2.0]], [[0.0, 40.0], [0.02, 36.0], [0.05, 10.0]],
                [[0.0, 30.0], [0.01, 28.5], [0.02, 25.0], [0.03, 19.0], [0.04, 10.0]]):
        for ends in ('JJ', 'RJ'):
            yield dict(base, kind='headpump', pts=pts, status='OPEN', ends=ends)
    yield dict(base, kind='headpump', pts=[[0.05, 20.0]], status='CLOSED')
    yield dict(base, kind='powerpump', power=5000.0, status='OPEN', ends='RJ')
    yield dict(base, kind='powerpump', power=5000.0, status='CLOSED')
    for vt, setting in (('PRV', 25.0), ('PSV', 25.0), ('FCV', 0.004), ('TCV', 30.0)):
        for stt in ('OPEN', 'ACTIVE', 'CLOSED'):
            yield dict(base, kind='valve', vtype=vt, setting=setting, minor=4.0, diam=0.15, status=stt)


def summarize(case):
    if case['mode'] == 'model':
        return case
    sp = case['spec']
    return {'mode': 'net', 'opts': sp['opts'], 'n_junctions': len(sp['junctions']),
            'links': [[l[0], l[1], l[2], l[3]] for l in S.links_of(sp)],
            'pumps': sp['pumps'], 'valves': sp['valves'], 'curves': sp['curves']}


# ============================================================================================ model level
class _Sweep(object):
    """one link X between N0 and N1; residual of its constraint through the compiled evaluator"""

    def __init__(self, case):
        import wntr
        from wntr.sim.hydraulics import create_hydraulic_model
        wn = wntr.network.WaterNetworkModel()
        self.ends = case['ends']
        for i, k in enumerate(self.ends):
            nm = 'N%d' % i
            if k == 'J':
                wn.add_junction(nm, base_demand=0.0, elevation=case['elev'][i])
            elif k == 'R':
                wn.add_reservoir(nm, base_head=case['hbase'])
            else:
                wn.add_tank(nm, elevation=case['elev'][i], init_level=1.0, min_level=0.0, max_level=5.0, diameter=5.0)
        kind = case['kind']
        approx = 'default'
        if kind == 'pipe':
            approx = case['approx']
            wn.add_pipe('X', 'N0', 'N1', length=case['len'], diameter=case['diam'], roughness=case['C'],
                        minor_loss=case['minor'], initial_status=case['status'])
            cd = 'approx_hazen_williams_headloss' if approx == 'default' else 'piecewise_hazen_williams_headloss'
        elif kind == 'headpump':
            wn.add_curve('HC', 'HEAD', [tuple(p) for p in case['pts']])
            wn.add_pump('X', 'N0', 'N1', 'HEAD', 'HC', initial_status=case['status'])
            cd = CON_DICT['headpump']
        elif kind == 'powerpump':
            wn.add_pump('X', 'N0', 'N1', 'POWER', case['power'], initial_status=case['status'])
            cd = CON_DICT['powerpump']
        else:
            wn.add_valve('X', 'N0', 'N1', diameter=case['diam'], valve_type=case['vtype'], minor_loss=case['minor'],
                         initial_setting=case['setting'], initial_status=case['status'])
            cd = CON_DICT[case['vtype']]
        wn.reset_initial_values()
        self.wn = wn
        self.m, self.updater = create_hydraulic_model(wn, HW_approx=approx)
        self.m.set_structure()
        self.idx = getattr(self.m, cd)['X'].index
        self.status = int(wn.get_link('X').status)
        self.hvar = [(self.m.head if k == 'J' else self.m.source_head)['N%d' % i] for i, k in enumerate(self.ends)]
        self.fvar = self.m.flow['X']

    def res(self, q, hs, he):
        self.fvar.value = q
        self.hvar[0].value = hs
        self.hvar[1].value = he
        return float(self.m.evaluate_residuals()[self.idx])

    @staticmethod
    def _secant(f, x0, stages=3):
        """root of an (affine) function by repeated two-point interpolation around the running estimate"""
        x = x0
        for _ in range(stages):
            step = max(1.0, abs(x) * 1e-3)
            xa = x
            fa = f(xa)
            while True:
                xb = x + step
                fb = f(xb)
                if fb != fa or step > 1e290:
                    break
                step *= 1e4         # |f| so large that the step is lost in rounding: widen it
            if fb == fa or not (math.isfinite(fa) and math.isfinite(fb)):
                return None
            x = xa - fa * (xb - xa) / (fb - fa)
            if not math.isfinite(x):
                return None
        return x

    def root_dh(self, q, base=0.0, guess=0.0):
        """head loss start-end that zeroes the residual at flow q (end head = base)"""
        if base == 0.0:
            return self._secant(lambda d: self.res(q, d, 0.0), guess)
        out = self._secant(lambda d: self.res(q, base + d, base), guess)
        return out

    def root_hs(self, q, he, guess=0.0):
        return self._secant(lambda h: self.res(q, h, he), guess)

    def root_he(self, q, hs, guess=0.0):
        return self._secant(lambda h: self.res(q, hs, h), guess)

    def root_q(self, hs, he, guess=0.0):
        return self._secant(lambda q: self.res(q, hs, he), guess, stages=3)


def _grid(case, extra=()):
    qs = set()
    x = 1e-9
    while x <= 2.0:
        qs.add(float('%.6g' % x))
        x *= 1.3
    qs.add(2.0)
    for b in (L.HW_Q1, L.HW_Q2, L.PUMP_Q2):
        for f in (1 - 1e-6, 1.0, 1 + 1e-6):
            qs.add(b * f)
    qs.add(0.5 * (L.HW_Q1 + L.HW_Q2))
    for e in list(case.get('extra_q', ())) + list(extra):
        if e and math.isfinite(e) and 0 < abs(e) <= 50.0:
            qs.add(abs(e))
    return sorted(qs)


def _close(a, b, rel, absol=0.0):
    return abs(a - b) <= rel * max(abs(a), abs(b)) + absol


def model_check(case):
    kind = case['kind']
    sub = case.get('vtype', kind)
    tags = ['mode:model', 'kind:%s' % sub, 'status:%s/%s' % (sub, case['status']), 'ends:' + case['ends']]
    fit = None
    if kind == 'headpump':
        fit = L.fit_curve(case['pts'])
        tags.append('pumpcurve:%s' % ('%dpt' % fit['n'] if fit['n'] <= 3 else 'multi'))
        if fit['n'] == 3:
            tags.append('pumpcurve:3pt/%s' % ('q0=0' if case['pts'][0][0] == 0 else 'q0>0'))
        if fit['n'] == 2:
            tags.append('pumpcurve:2pt/%s' % ('q0=0' if case['pts'][0][0] == 0 else 'q0>0'))
        if fit['n'] == 3 and not fit['exact']:
            return inconclusive('3-point curve has no interpolating H=A-BQ^C', tags)
    if kind == 'pipe':
        tags.append('hw:' + case['approx'])
    try:
        sw = _Sweep(case)
    except RuntimeError as e:
        if kind == 'headpump' and len(case['pts']) >= 3 and 'Head pump' in str(e):
            return inconclusive('get_head_curve_coefficients refused the curve (documented RuntimeError)', tags)
        return fail(exc_bucket(e, 'model_build'), 'building the hydraulic model raised %r for %r' % (e, case), tags)
    except Exception as e:
        return fail(exc_bucket(e, 'model_build'), 'building the hydraulic model raised %r for %r' % (e, case), tags)
    # the law is selected by the status the link actually has (what a simulation would report)
    want_status = sw.status
    if want_status != {'OPEN': 1, 'CLOSED': 0, 'ACTIVE': 2}[case['status']]:
        tags.append('status_differs_from_initial_status')
    if want_status == 2 and kind != 'valve':
        want_status = 1
    hb = case['hbase']
    combos = [(0.0, 0.0), (hb, hb + 3.0), (hb + 41.0, hb), (5.0, 250.0)]

    # ---------------------------------------------------------------- closed: residual zero iff q = 0
    if want_status == 0:
        for hs, he in combos:
            rt = sw.root_q(hs, he)
            if rt is None or abs(rt) > 1e-15:
                return fail('closed_flow/%s' % sub, 'closed %s: residual vanishes at q=%r (heads %s,%s), expected q=0; case %r'
                            % (sub, rt, hs, he, case), tags)
        return passed(False, tags)

    extra = []
    if fit is not None:
        extra += [p[0] for p in case['pts']]
        if fit['n'] == 1:
            extra.append(2.0 * case['pts'][0][0])
        if fit['exact'] and fit['C'] > 1.0:
            qb = L.pump_band(fit)
            extra += [qb * (1 - 1e-3), qb * (1 + 1e-3)]
    qs = _grid(case, extra)
    signed = [-q for q in reversed(qs)] + [0.0] + qs

    # ---------------------------------------------------------------- setting-type constraints
    if kind == 'valve' and want_status == 2 and case['vtype'] in ('PRV', 'PSV', 'FCV'):
        vt = case['vtype']
        for q in (0.0, 0.0123, -0.0123, 1.5, 3e-4):
            for hs, he in combos:
                if vt == 'PRV':
                    got = sw.root_he(q, hs, guess=he)
                    want = case['setting'] + case['elev'][1]
                    other = sw.res(q, hs + 7.0, he) - sw.res(q, hs, he)
                elif vt == 'PSV':
                    got = sw.root_hs(q, he, guess=hs)
                    want = case['setting'] + case['elev'][0]
                    other = sw.res(q, hs, he + 7.0) - sw.res(q, hs, he)
                else:
                    got = sw.root_q(hs, he)
                    want = case['setting']
                    other = 0.0
                if got is None or not _close(got, want, 1e-11, 1e-12) or other != 0.0:
                    return fail('valve_active/%s' % vt,
                                'active %s (setting %r, elevations %r): residual vanishes at %r, the setting demands %r '
                                '(q=%r, heads %r/%r, dependence on the other head %r); case %r'
                                % (vt, case['setting'], case['elev'], got, want, q, hs, he, other, case), tags)
        return passed(True, tags)

    # ---------------------------------------------------------------- head-loss type constraints: dh*(q)
    d = {}
    for q in signed:
        if kind == 'powerpump' and q <= 0.0:
            continue
        d[q] = sw.root_dh(q)
        if d[q] is None:
            return fail('degenerate/%s' % sub, 'residual of open %s does not depend on the head difference at q=%r; case %r'
                        % (sub, q, case), tags)
    # independence of the absolute head level
    for q in (qs[len(qs) // 2], qs[-3], -qs[len(qs) // 3]):
        if q in d:
            d2 = sw.root_dh(q, base=hb, guess=d[q])
            if d2 is None or not _close(d2, d[q], 1e-10, 1e-11 * (1.0 + hb)):
                return fail('base_dependence/%s' % sub, 'q=%r: head loss %r with end head 0 but %r with end head %r; case %r'
                            % (q, d[q], d2, hb, case), tags)

    if kind == 'pipe':
        K = L.pipe_K(case['len'], case['diam'], case['C'])
        mr = L.minor_r(case['minor'], case['diam'])
        ap = case['approx']
        fq2 = L.pipe_loss(L.HW_Q2, K, mr)
        for q in signed:
            ref = L.pipe_loss(q, K, mr)
            if ap == 'piecewise' and abs(q) < L.HW_Q2:
                ok = (L.sign(d[q]) == L.sign(q)) and abs(d[q]) <= fq2 * (1 + L.HW_K_REL)
                if not ok:
                    return fail('pipe_band/piecewise', 'q=%r inside the smoothing band: head loss %r (sign / bound %r violated); '
                                'case %r' % (q, d[q], fq2, case), tags)
            elif not abs(d[q] - ref) <= L.pipe_tolerance(q, K, mr, ap):
                return fail('pipe_law/%s' % ap, 'q=%r: residual vanishes at head loss %r, H-W + minor loss gives %r '
                            '(K=%r, m=%r, allowed %r); case %r' % (q, d[q], ref, K, mr, L.pipe_tolerance(q, K, mr, ap), case), tags)
        for q in qs:
            if not _close(d[q], -d[-q], 1e-10):
                return fail('pipe_odd/%s' % ap, 'head loss %r at q=%r but %r at q=%r; case %r' % (d[q], q, d[-q], -q, case), tags)
        for a, b in zip(signed[:-1], signed[1:]):
            if not d[a] < d[b]:
                return fail('pipe_monotone/%s' % ap, 'head loss not increasing: %r at q=%r, %r at q=%r; case %r'
                            % (d[a], a, d[b], b, case), tags)
        return passed(True, tags)

    if kind == 'headpump':
        g = dict((q, -v) for q, v in d.items())
        nb = '%dpt' % fit['n'] if fit['n'] <= 3 else 'multi'
        for a, b in zip(signed[:-1], signed[1:]):
            if not g[a] >= g[b] - 1e-12 * (1.0 + abs(g[a])):
                return fail('pump_monotone/%s' % nb, 'head gain increases with flow: %r at q=%r, %r at q=%r; case %r'
                            % (g[a], a, g[b], b, case), tags)
        if not fit['exact']:
            if not g[0.0] > 0:
                return fail('pump_curve/multi', 'shut-off head %r is not positive; case %r' % (g[0.0], case), tags)
            return passed(True, tags)
        rel = 1e-9 if fit['n'] < 3 else 1e-6
        pts = [list(p) for p in case['pts']]
        if fit['n'] == 1:
            pts += [[0.0, 4.0 * pts[0][1] / 3.0], [2.0 * pts[0][0], 0.0]]
        hmax = fit['A']
        for qp, hp in pts:
            if not abs(g[abs(qp)] - hp) <= rel * hmax + 2e-11:
                return fail('pump_curve/%s' % nb, 'the curve of the model gives head %r at the supplied point (Q=%r, H=%r)%s; '
                            'case %r' % (g[abs(qp)], qp, hp, ' [EPANET single-point rule]' if [qp, hp] not in case['pts'] else '',
                                         case), tags)
        band = L.pump_band(fit)
        for q in qs:
            ref = L.pump_gain(q, fit)
            scale = fit['A'] + fit['B'] * q ** fit['C']
            if fit['C'] <= 1.0 and q < band * (1 + 1e-9):
                lo = L.pump_gain(band, fit)
                if not (lo - rel * scale - 1e-11 <= g[q] <= fit['A'] + rel * scale + 1e-11):
                    return fail('pump_curve/%s' % nb, 'q=%r inside the smoothing band: gain %r outside [%r, %r]; case %r'
                                % (q, g[q], lo, fit['A'], case), tags)
            elif not abs(g[q] - ref) <= rel * scale + 1e-11:
                return fail('pump_curve/%s' % nb, 'q=%r: head gain %r, H = A - B Q^C through the points gives %r '
                            '(A=%r B=%r C=%r); case %r' % (q, g[q], ref, fit['A'], fit['B'], fit['C'], case), tags)
        return passed(True, tags)

    if kind == 'powerpump':
        for q in qs:
            gain = -d[q]
            if not _close(gain * q * L.RHO * L.G, case['power'], 1e-10):
                return fail('power_pump_law', 'q=%r: head gain %r delivers %r W, the pump power is %r W; case %r'
                            % (q, gain, gain * q * L.RHO * L.G, case['power'], case), tags)
        return passed(True, tags)

    # open valve of any type / active TCV: quadratic loss
    vt = case['vtype']
    if want_status == 2:
        rr = L.minor_r(case['setting'], case['diam'])
        key = 'valve_active/TCV'
    else:
        rr = L.minor_r(case['minor'], case['diam'])
        key = 'valve_open/%s' % vt
    bad_pos = [q for q in signed if q >= 0 and not _close(d[q], L.quad_loss(q, rr), 1e-10, 1e-300)]
    bad_neg = [q for q in signed if q < 0 and not _close(d[q], L.quad_loss(q, rr), 1e-10, 1e-300)]
    if bad_pos or bad_neg:
        q = (bad_pos or bad_neg)[len(bad_pos or bad_neg) // 2]
        if not bad_pos:
            key += '/reverse'
        return fail(key, 'q=%r: residual vanishes at head loss %r, the loss coefficient demands sign(q) r q^2 = %r (r=%r); '
                    '%d of %d sampled flows disagree; case %r' % (q, d[q], L.quad_loss(q, rr), rr, len(bad_pos) + len(bad_neg),
                                                                 len(signed), case), tags)
    return passed(True, tags)


# ========================================================================================== solution level
def _judge_link(spec, kind, l, st, q, hs, he, setting, approx, fits):
    """-> None | (bucket, text).  hs/he reported heads of start/end node, st reported status"""
    T = L.TOL
    name = l['name']
    dh = hs - he
    fl = 1e-12 * (abs(hs) + abs(he))
    if kind == 'pipe':
        sub = 'CVPipe' if l['cv'] else 'Pipe'
    elif kind == 'pump':
        sub = 'HeadPump' if l['type'] == 'HEAD' else 'PowerPump'
    else:
        sub = l['type']
    if st == 0:
        if abs(q) > T:
            return ('closed_flow/%s' % sub, 'closed %s %s carries %r m3/s' % (sub, name, q))
        return None
    if kind == 'pump' or (kind == 'pipe' and l['cv']):
        if q < -L.QTOL:
            return ('reverse_flow/%s' % sub, '%s %s reports status %s with flow %r < -Qtol (heads %r -> %r)'
                    % (sub, name, st, q, hs, he))
    if kind == 'pipe':
        K = L.pipe_K(l['len'], l['diam'], l['C'])
        mr = L.minor_r(l['minor'], l['diam'])
        if approx == 'piecewise' and abs(q) < L.HW_Q2:
            bound = L.pipe_loss(L.HW_Q2, K, mr) * (1 + L.HW_K_REL)
            lo, hi = (-T - fl, bound + T + fl) if q > 0 else ((-bound - T - fl, T + fl) if q < 0 else (-T - fl, T + fl))
            if not lo <= dh <= hi:
                return ('pipe_band/piecewise', 'pipe %s q=%r inside the smoothing band: head loss %r outside [%r, %r]'
                        % (name, q, dh, lo, hi))
            return None
        ref = L.pipe_loss(q, K, mr)
        tol = T + L.pipe_tolerance(q, K, mr, approx) + fl
        if not abs(dh - ref) <= tol:
            return ('pipe_law/%s' % approx, 'pipe %s q=%r: head loss %r, H-W + minor loss gives %r (K=%r m=%r, allowed %r)'
                    % (name, q, dh, ref, K, mr, tol))
        return None
    if kind == 'pump' and l['type'] == 'POWER':
        if q > 0:
            p = -dh * q * L.RHO * L.G
            if not abs(p - l['power']) <= T + 1e-11 * abs(l['power']):
                return ('power_pump_law', 'power pump %s q=%r gain %r delivers %r W, its power is %r W' % (name, q, -dh, p, l['power']))
        return None
    if kind == 'pump':
        fit = fits[name]
        gain = -dh
        nb = '%dpt' % fit['n'] if fit['n'] <= 3 else 'multi'
        if not fit['exact']:
            return None
        rel = 1e-9 if fit['n'] < 3 else 1e-6
        qq = max(q, 0.0)
        band = L.pump_band(fit)
        scale = fit['A'] + fit['B'] * qq ** fit['C']
        if fit['C'] <= 1.0 and qq < band:
            lo, hi = L.pump_gain(band, fit) - T - rel * scale - fl, fit['A'] + T + rel * scale + fl + L.PUMP_SLOPE * abs(q)
            if not lo <= gain <= hi:
                return ('pump_curve/%s' % nb, 'pump %s q=%r inside the smoothing band: gain %r outside [%r, %r]' % (name, q, gain, lo, hi))
            return None
        ref = L.pump_gain(qq, fit)
        if not abs(gain - ref) <= T + rel * scale + fl + 1e-11:
            return ('pump_curve/%s' % nb, 'head pump %s (curve %r) q=%r: reported head gain %r, H = A - B Q^C through the '
                    'points gives %r (A=%r B=%r C=%r)' % (name, spec['curves'][l['curve']]['pts'], q, gain, ref, fit['A'], fit['B'], fit['C']))
        return None
    # valves
    vt = l['type']
    if st == 2 and vt in ('PRV', 'PSV', 'FCV'):
        if vt == 'FCV':
            if not abs(q - setting) <= T:
                return ('valve_active/FCV', 'active FCV %s: flow %r, setting %r' % (name, q, setting))
            return None
        nd = l['b'] if vt == 'PRV' else l['a']
        elev = [j['elev'] for j in spec['junctions'] + spec['tanks'] if j['name'] == nd]
        h = he if vt == 'PRV' else hs
        if not elev:
            return None
        if not abs(h - elev[0] - setting) <= T + fl:
            return ('valve_active/%s' % vt, 'active %s %s: %s pressure %r (head %r, elevation %r), setting %r'
                    % (vt, name, 'downstream' if vt == 'PRV' else 'upstream', h - elev[0], h, elev[0], setting))
        # a throttling valve dissipates at least what it dissipates fully open (EPANET's prvstatus/psvstatus and
        # WNTR's own _OpenPRVCondition/_OpenPSVCondition open the valve otherwise): holding the setting with less head
        # loss than the open valve has is not a state of a pressure regulating valve
        rr = L.minor_r(l['minor'], l['diam'])
        if q > T and not dh >= L.quad_loss(q, rr) - (L.HTOL + T + 1e-9 * abs(dh)):
            return ('valve_active/%s/less_loss_than_open' % vt,
                    'active %s %s q=%r: head loss %r is below the loss of the fully open valve r q^2 = %r (minor loss %r)'
                    % (vt, name, q, dh, L.quad_loss(q, rr), l['minor']))
        return None
    if st == 2 and vt == 'TCV':
        rr = L.minor_r(setting, l['diam'])
        key = 'valve_active/TCV'
    elif st == 1:
        rr = L.minor_r(l['minor'], l['diam'])
        key = 'valve_open/%s' % vt
    else:
        return ('status_value/%s' % sub, '%s %s reports status %r' % (sub, name, st))
    ref = L.quad_loss(q, rr)
    if not abs(dh - ref) <= T + 1e-10 * abs(ref) + fl:
        if q < 0 and abs(dh + ref) <= T + 1e-10 * abs(ref) + fl:
            key += '/reverse'
        return (key, '%s %s status %s q=%r: head loss %r, loss coefficient demands sign(q) r q^2 = %r (r=%r)'
                % (vt, name, st, q, dh, ref, rr))
    return None


def net_check(spec, edit=None):
    tags = netgen.features(spec) + ['mode:net']
    if spec.get('downhill_power_pump'):
        tags.append('downhill_power_pump')
    try:
        wn = S.build_wn(spec)
        wn.reset_initial_values()
        if spec.get('attr_controls'):
            from wntr.network.controls import Control, ControlAction
            tags.append('history:attribute_controls')
            for i, c in enumerate(spec['attr_controls']):
                act = ControlAction(wn.get_link(c['link']), c['attr'], c['value'])
                wn.add_control('attr%d' % i, Control._time_control(wn, int(c['at']), 'SIM_TIME', False, act))
    except Exception as e:
        return fail(exc_bucket(e, 'build'), 'building the model raised %r' % e, tags)
    out = _net_pass(spec, wn, tags)
    if edit is None or out['status'] != 'pass' or not any(p['type'] == 'HEAD' for p in spec['pumps']):
        return out
    # history: the points of the pump curves are edited in place (same curve object, same name), the model is reset
    # and simulated again; the pumps must then lie on the curve fitted to the *current* points
    import copy
    spec2 = copy.deepcopy(spec)
    for p in spec2['pumps']:
        if p['type'] == 'HEAD':
            c = spec2['curves'][p['curve']]
            if not c.get('edited'):
                c['pts'] = [[q, round(h * edit, 4)] for q, h in c['pts']]
                c['edited'] = True
                wn.get_curve(p['curve']).points = [tuple(pt) for pt in c['pts']]
    wn.reset_initial_values()
    tags2 = list(out['tags']) + ['history:curve_points_edited_in_place']
    out2 = _net_pass(spec2, wn, tags2)
    if out2['status'] == 'fail':
        return fail('after_curve_edit/' + out2['bucket'], 'second run after editing the pump curve points in place (x%s): %s'
                    % (edit, out2['detail']), out2['tags'])
    if out2['status'] == 'inconclusive':
        return passed(out['nontrivial'], tags2 + ['second_run_inconclusive'])
    return passed(out['nontrivial'] or out2['nontrivial'], out2['tags'])


def _net_pass(spec, wn, tags):
    approx = spec['opts']['hw_approx']
    run = S.run_wntr(wn, hw_approx=approx, maxiter=MAXITER)
    if run.exception is not None:
        e = run.exception
        if isinstance(e, RuntimeError) and 'Head pump' in str(e):
            return inconclusive('get_head_curve_coefficients refused a curve', tags)
        return inconclusive('run_sim raised %s' % type(e).__name__, tags)
    if len(run.times) == 0:
        return inconclusive('no step converged', tags)
    links = S.links_of(spec)
    fits = dict((p['name'], L.fit_curve(spec['curves'][p['curve']]['pts'])) for p in spec['pumps'] if p['type'] == 'HEAD')
    head = run.node['head']
    flow = run.link['flowrate']
    stat = run.link['status']
    sett = run.link['setting']
    sources = set(n['name'] for n in spec['tanks'] + spec['reservoirs'])
    special = 0
    multi = {}
    bads = {}
    for k, t in enumerate(run.times):
        closed = set(n for n, _a, _b, _k, _l in links if stat[n][k] == 0)
        reach = S.reachable_from_sources(spec, closed)
        for name, a, b, kind, l in links:
            st_ = int(stat[name][k])
            q = float(flow[name][k])
            isolated = (a not in reach and a not in sources) or (b not in reach and b not in sources)
            cls = ('cv' if l['cv'] else 'pipe') if kind == 'pipe' else (l['type'] if kind == 'valve' else 'pump:' + l['type'])
            tags.append('rep:%s/%s%s' % (cls, {0: 'closed', 1: 'open', 2: 'active'}.get(st_, st_), '/isolated' if isolated else ''))
            if isolated:
                if abs(q) > L.TOL:
                    bads.setdefault('isolated_flow/%s' % kind, 't=%s isolated %s %s carries %r' % (t, kind, name, q))
                continue
            if kind == 'pipe' and st_ != 0:
                if q < 0:
                    tags.append('rep:pipe_negative_flow')
                if abs(q) < L.HW_Q2:
                    tags.append('rep:pipe_in_band/' + approx)
            if kind == 'valve' and st_ == 1 and q < -L.TOL:
                tags.append('rep:%s/open/negative_flow' % l['type'])
            l_eff = l
            if kind == 'pipe' and spec.get('attr_controls'):
                key = {'roughness': 'C', 'minor_loss': 'minor', 'diameter': 'diam'}
                for c in spec['attr_controls']:       # sorted by time: the last command at or before this row wins
                    if c['link'] == name and c['at'] <= t:
                        if l_eff is l:
                            l_eff = dict(l)
                        l_eff[key[c['attr']]] = c['value']
            bad = _judge_link(spec, kind, l_eff, st_, q, float(head[a][k]), float(head[b][k]), float(sett[name][k]), approx, fits)
            if bad:
                bads.setdefault(bad[0], 't=%s %s' % (t, bad[1]))
            if st_ != 0 and (kind != 'pipe' or l['cv']):
                special += 1
            if kind == 'pump' and l['type'] == 'HEAD' and st_ == 1 and not fits[name]['exact'] and q > 1e-6:
                multi.setdefault(name, []).append((q, float(head[b][k]) - float(head[a][k])))
    for name, pts in sorted(multi.items()):
        pts.sort()
        for (q1, g1), (q2, g2) in zip(pts[:-1], pts[1:]):
            if g2 > g1 + 2 * L.TOL + 1e-12 * (abs(g1) + abs(g2)):
                bads.setdefault('pump_monotone/multi', 'pump %s: head gain %r at q=%r but %r at q=%r' % (name, g1, q1, g2, q2))
                break
    if bads:
        # one bucket per case: the reverse-flow bucket of power pumps (a recorded open finding) is reported only
        # when nothing else is wrong, so that it cannot hide another root cause
        order = sorted(bads, key=lambda b_: (b_ == 'reverse_flow/PowerPump', b_))
        return fail(order[0], bads[order[0]] + ' | hw=%s%s' % (approx, (' | also: %s' % order[1:]) if order[1:] else ''), tags)
    if not run.ok:
        return inconclusive('not converged (reported prefix satisfied the oracle)', tags)
    return passed(special > 0, tags)


def check(case):
    if case['mode'] == 'model':
        return model_check(case)
    return net_check(case['spec'], case.get('edit_curves'))
