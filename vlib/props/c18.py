"""C18 - valve segmentation is exactly the partition induced by the valve layer."""
import itertools
import math

from hypothesis import strategies as st

from ..outcome import fail, passed, exc_bucket

ID = 'C18'
LEVEL = 'exploration'
CASES = {'quick': 6000, 'thorough': 40000}
CASE_TIMEOUT = 60
RULE = ('Generated part: a multigraph of 1-8 nodes (thorough 1-10; junctions with demands 0 .. 10 scaled by 1 .. 1e-9, some negative; reservoirs, tanks) and '
        '0-10 links (thorough 0-14; pipes with length, pumps, valves; no self loops; parallel links in both '
        'orientations, dead ends and isolated nodes arise by construction), four naming schemes (disjoint, node '
        'names == link names, names that already carry the N_/L_ prefixes the implementation adds), built as a real '
        'WaterNetworkModel and passed as wn.to_graph(); a valve layer = each (link, end node) incidence kept with '
        'probability 15/50/85 %, plus 0-3 duplicated rows, rows shuffled, column order link,node or node,link, '
        'RangeIndex; demand / length Series passed or omitted.  mode "subsets": instead of one layer, every one of '
        'the 2^k subsets of the k = 2*links incidences is checked (generated: links <= 3 quick / <= 5 thorough; '
        'enumerated: every labelled multigraph on 4 nodes with <= 3 links (quick) resp. 4 nodes <= 5 links and '
        '5 nodes 4 links (thorough)).  Non-trivial = at least one valve separates two different reference '
        'segments; distinct = SHA-1 of the canonical case.')
ASSUMPTIONS = [
    'a valve is a (link, end node of that link) pair; pairs whose node is not an end of the link and self-loop '
    'links are outside the statement and never generated',
    'the valve layer is indexed 0..n-1 (docstring: "indexed by valve number") with exactly the columns link, node',
    'duplicated rows denote one physical valve (the implementation warns "duplicates are ignored"): the partition '
    'oracle uses the set of valved incidences; for num_surround on a layer that still contains duplicated rows '
    'both counts (distinct other valves / other rows) are accepted',
    'num_surround counts the other valves whose link or whose node lies in one of the two segments (a valve '
    'inside a loop of the segment counts); relative gain = smaller/larger of the two segment totals, 0 when both '
    'totals are 0',
    'demands are given for junctions only (as average_expected_demand does; one case in six has negative entries = '
    'inflow junctions, and a valve with a negative segment total is not judged on demand_increase), lengths for pipes '
    'only (as query_link_attribute("length") does); missing entries count as 0',
    'the documented work flow passes the same valve_layer object first to valve_segments and then to '
    'valve_segment_attributes; that second call must succeed and describe the valves of the layer as it then is',
]
TOLERANCES = {'ratio_abs': '1e-12 (values lie in [0,1]; (a+b)/max(a,b)-1 in IEEE doubles is within ~4 ulp of 2 '
                           '= 1e-15 of min/max for sums of <= 14 terms; 1e-12 leaves three orders of margin)'}
TECHNIQUE = 'reference model (union-find over nodes and links) + exhaustive valve-subset enumeration on small graphs'
LEVEL_TEXT = ('randomised search plus exhaustive enumeration of all valve subsets on all labelled multigraphs up to '
              'the stated size; no proof for larger graphs')
LEVEL_NOTE = ('trusted base: the 15-line union-find in this module, pandas/networkx, '
              'WaterNetworkModel.add_*/to_graph for building the graph')
EXHAUSTIVE = {'quick': False, 'thorough': False,
              'what': 'for the enumerated small multigraphs all 2^k valve subsets are checked; the graph family '
                      'itself is bounded (<= 5 nodes, <= 5 links)'}
SHRINK_BUDGET = {'quick': 30, 'thorough': 240}

RATIO_TOL = 1e-12


# --------------------------------------------------------------------------- names
def node_name(scheme, i):
    if scheme == 0:
        return 'n%d' % i
    if scheme == 1:
        return '%d' % i
    if scheme == 2:   # '0', 'N_0', '1', 'N_1' ...: prefixing one name gives another node's name
        return ('N_' if i % 2 else '') + '%d' % (i // 2)
    return 'L_%d' % i


def link_name(scheme, j):
    if scheme == 0:
        return 'l%d' % j
    if scheme == 1:
        return '%d' % j
    if scheme == 2:
        return ('L_' if j % 2 else '') + '%d' % (j // 2)
    return 'N_%d' % j


# --------------------------------------------------------------------------- reference model
def ref_roots(n_nodes, ends, valved):
    """Union-find over nodes 0..n-1 and links n..n+m-1; an incidence (link j, end e) joins unless valved."""
    parent = list(range(n_nodes + len(ends)))

    def find(x):
        while parent[x] != x:
            parent[x] = parent[parent[x]]
            x = parent[x]
        return x

    for j, (a, b) in enumerate(ends):
        for e, nd in ((0, a), (1, b)):
            if (j, e) not in valved:
                ra, rb = find(n_nodes + j), find(nd)
                if ra != rb:
                    parent[max(ra, rb)] = min(ra, rb)
    return [find(x) for x in range(len(parent))]


def ref_attributes(rows, roots, n_nodes, ends, node_dem, link_len):
    """rows: list of (link j, end e).  -> list of dicts per row."""
    seg_d, seg_l = {}, {}
    for i in range(n_nodes):
        seg_d.setdefault(roots[i], []).append(node_dem[i])
    for j in range(len(ends)):
        seg_l.setdefault(roots[n_nodes + j], []).append(link_len[j])

    def total(tab, r):
        return math.fsum(tab.get(r, []))

    def ratio(x, y):
        if x == 0 and y == 0:
            return 0.0
        if x < 0 or y < 0:
            return None         # negative segment total (net inflow): 'relative gain' is not defined by the statement
        return min(x, y) / max(x, y)

    def slack(tab, ra, rb):
        # cancellation among members of opposite sign: rounding of the sums relative to the larger total
        big = max(total(tab, ra), total(tab, rb))
        if big <= 0:
            return 0.0
        return 4e-16 * len(tab.get(ra, []) + tab.get(rb, [])) * math.fsum(abs(v) for v in tab.get(ra, []) + tab.get(rb, [])) / big

    out = []
    for i, (j, e) in enumerate(rows):
        rl, rn = roots[n_nodes + j], roots[ends[j][e]]
        if rl == rn:
            out.append({'same': True, 'rows': 0, 'distinct': 0, 'dem': 0.0, 'len': 0.0, 'dem_slack': 0.0, 'len_slack': 0.0})
            continue
        both = (rl, rn)
        n_rows, pairs = 0, set()
        for i2, (j2, e2) in enumerate(rows):
            if i2 == i:
                continue
            if roots[n_nodes + j2] in both or roots[ends[j2][e2]] in both:
                n_rows += 1
                if (j2, e2) != (j, e):
                    pairs.add((j2, e2))
        out.append({'same': False, 'rows': n_rows, 'distinct': len(pairs),
                    'dem': ratio(total(seg_d, rl), total(seg_d, rn)), 'dem_slack': slack(seg_d, rl, rn),
                    'len': ratio(total(seg_l, rl), total(seg_l, rn)), 'len_slack': 0.0})
    return out


# --------------------------------------------------------------------------- building
class _Ctx(object):
    pass


def _build(case):
    import pandas as pd
    import wntr
    c = _Ctx()
    sc = case['names']
    c.nodes = case['nodes']
    c.links = case['links']
    c.n = len(c.nodes)
    c.m = len(c.links)
    c.nn = [node_name(sc, i) for i in range(c.n)]
    c.ln = [link_name(sc, j) for j in range(c.m)]
    c.ends = [(l[0], l[1]) for l in c.links]
    wn = wntr.network.WaterNetworkModel()
    for i, (kind, dem) in enumerate(c.nodes):
        if kind == 'J':
            wn.add_junction(c.nn[i], base_demand=float(dem), elevation=0.0)
        elif kind == 'R':
            wn.add_reservoir(c.nn[i], base_head=10.0)
        else:
            wn.add_tank(c.nn[i], elevation=0.0, init_level=1.0, min_level=0.0, max_level=2.0, diameter=1.0)
    for j, (a, b, kind, length) in enumerate(c.links):
        if kind == 'P':
            wn.add_pipe(c.ln[j], c.nn[a], c.nn[b], length=float(length), diameter=0.3, roughness=100.0)
        elif kind == 'U':
            wn.add_pump(c.ln[j], c.nn[a], c.nn[b], 'POWER', 1.0)
        else:
            wn.add_valve(c.ln[j], c.nn[a], c.nn[b], 0.3, 'TCV', 0.0, 0.0)
    c.wn = wn
    c.node_dem = [float(d) if k == 'J' else 0.0 for k, d in c.nodes]
    c.link_len = [float(l[3]) if l[2] == 'P' else 0.0 for l in c.links]
    c.demand = None
    c.length = None
    if case.get('use_demand'):
        c.demand = pd.Series({c.nn[i]: float(d) for i, (k, d) in enumerate(c.nodes) if k == 'J'}, dtype=float)
    if case.get('use_length'):
        c.length = pd.Series({c.ln[j]: float(l[3]) for j, l in enumerate(c.links) if l[2] == 'P'}, dtype=float)
    c.cols = ['link', 'node'] if case.get('cols', 'ln') == 'ln' else ['node', 'link']
    c.row_order = int(case.get('row_order', 0) or 0)
    return c


def _frame(c, rows):
    import pandas as pd
    data = {'link': [c.ln[j] for j, e in rows], 'node': [c.nn[c.ends[j][e]] for j, e in rows]}
    return pd.DataFrame(data, columns=c.cols, index=range(len(rows)), dtype=object)


def _graph_tags(c):
    tags = set()
    deg = [0] * c.n
    seen = set()
    for a, b in c.ends:
        deg[a] += 1
        deg[b] += 1
        key = (min(a, b), max(a, b))
        if key in seen:
            tags.add('parallel_links')
        seen.add(key)
    if any(d == 0 for d in deg):
        tags.add('isolated_node')
    if any(d == 1 for d in deg):
        tags.add('dead_end')
    if c.m == 0:
        tags.add('no_links')
    if c.m >= c.n and c.m > 0:
        tags.add('has_cycle')
    if any(k != 'J' for k, _ in c.nodes):
        tags.add('tank_or_reservoir')
    if any(l[2] != 'P' for l in c.links):
        tags.add('pump_or_valve_link')
    if set(c.nn) & set(c.ln):
        tags.add('name_overlap')
    return tags, deg


# --------------------------------------------------------------------------- comparing one layer
def _check_partition(c, rows, ns, ls, sizes, valved):
    """-> (failure tuple or None, roots)"""
    roots = ref_roots(c.n, c.ends, valved)
    try:
        nidx, lidx = [str(x) for x in ns.index], [str(x) for x in ls.index]
    except Exception as ex:
        return ('result/not_series', 'valve_segments returned %r' % (ex,)), roots
    if sorted(nidx) != sorted(c.nn):
        return ('index/node_segments', 'node_segments index %r, nodes %r' % (nidx, c.nn)), roots
    if sorted(lidx) != sorted(c.ln):
        return ('index/link_segments', 'link_segments index %r, links %r' % (lidx, c.ln)), roots
    nd = dict(zip(nidx, ns.values.tolist()))
    ld = dict(zip(lidx, ls.values.tolist()))
    labels = [nd[x] for x in c.nn] + [ld[x] for x in c.ln]
    names = ['node ' + x for x in c.nn] + ['link ' + x for x in c.ln]
    nvalves = [None] * c.n + [sum(1 for e in (0, 1) if (j, e) in valved) for j in range(c.m)]

    def cls(k):
        return 'node' if k < c.n else 'link_%dvalved' % nvalves[k]

    for k, lab in enumerate(labels):
        if not (isinstance(lab, (int, float)) and not isinstance(lab, bool) and lab > 0):
            return ('label/not_positive/%s' % cls(k),
                    '%s has segment number %r; layer %r' % (names[k], lab, _rows_txt(c, rows))), roots
    root2lab, lab2root = {}, {}
    for k, lab in enumerate(labels):
        r = roots[k]
        if r in root2lab and root2lab[r][0] != lab:
            k0 = root2lab[r][1]
            return ('partition/split/%s' % cls(k),
                    '%s (segment %d) and %s (segment %d) are joined without passing a valve; layer %r; links %r'
                    % (names[k0], labels[k0], names[k], lab, _rows_txt(c, rows), _links_txt(c))), roots
        if lab in lab2root and lab2root[lab][0] != r:
            k0 = lab2root[lab][1]
            return ('partition/merged/%s' % cls(k),
                    '%s and %s share segment %d but every path between them passes a valve; layer %r; links %r'
                    % (names[k0], names[k], lab, _rows_txt(c, rows), _links_txt(c))), roots
        root2lab.setdefault(r, (lab, k))
        lab2root.setdefault(lab, (r, k))
    # segment sizes
    cnt = {}
    for k, lab in enumerate(labels):
        ent = cnt.setdefault(lab, [0, 0])
        ent[0 if k < c.n else 1] += 1
    try:
        sidx = [int(x) for x in sizes.index]
        snode = dict(zip(sidx, [int(v) for v in sizes['node'].values.tolist()]))
        slink = dict(zip(sidx, [int(v) for v in sizes['link'].values.tolist()]))
    except Exception as ex:
        return ('seg_sizes/malformed', 'segment size table unusable: %r' % (ex,)), roots
    if len(set(sidx)) != len(sidx):
        return ('seg_sizes/duplicate_rows', 'segment size index %r' % (sidx,)), roots
    for lab in sorted(set(sidx) | set(cnt)):
        exp = cnt.get(lab, [0, 0])
        got = [snode.get(lab), slink.get(lab)]
        if lab not in snode:
            return ('seg_sizes/missing_segment', 'segment %d has no row in the size table %r' % (lab, sidx)), roots
        if got != exp:
            return ('seg_sizes/count', 'segment %d: table says node=%r link=%r, members node=%d link=%d; layer %r'
                    % (lab, got[0], got[1], exp[0], exp[1], _rows_txt(c, rows))), roots
    return None, roots


def _check_attrs(c, rows, roots, attr, strict):
    exp = ref_attributes(rows, roots, c.n, c.ends, c.node_dem, c.link_len)
    try:
        idx = [int(x) for x in attr.index]
        cols = list(attr.columns)
    except Exception as ex:
        return ('attributes/malformed', 'valve_segment_attributes returned %r' % (ex,))
    want = ['num_surround'] + (['demand_increase'] if c.demand is not None else []) + \
           (['length_increase'] if c.length is not None else [])
    for w in want:
        if w not in cols:
            return ('attributes/missing_column/%s' % w, 'columns %r' % (cols,))
    if idx != list(range(len(rows))):
        return ('attributes/index', 'attributes indexed %r for %d valves' % (idx, len(rows)))
    surround = attr['num_surround'].values.tolist()
    dem = attr['demand_increase'].values.tolist() if c.demand is not None else None
    leng = attr['length_increase'].values.tolist() if c.length is not None else None
    for i, e in enumerate(exp):
        where = 'valve %d %r; layer %r; links %r' % (i, _rows_txt(c, [rows[i]])[0], _rows_txt(c, rows), _links_txt(c))
        ok = (e['distinct'], e['rows']) if not strict else (e['distinct'],)
        got = surround[i]
        if not (got == got and float(got) == int(got) and int(got) in ok):
            kind = 'same_segment' if e['same'] else 'count'
            return ('num_surround/%s' % kind, 'num_surround=%r, reference %r; %s' % (got, sorted(set(ok)), where))
        for name, vals, key in (('demand_increase', dem, 'dem'), ('length_increase', leng, 'len')):
            if vals is None:
                continue
            g = vals[i]
            if e[key] is None:
                continue
            if not (isinstance(g, (int, float)) and abs(float(g) - e[key]) <= RATIO_TOL + e[key + '_slack']):
                kind = 'same_segment' if e['same'] else 'ratio'
                return ('%s/%s' % (name, kind), '%s=%r, reference %r; %s' % (name, g, e[key], where))
    return None


def _rows_txt(c, rows):
    return [(c.ln[j], c.nn[c.ends[j][e]]) for j, e in rows]


def _links_txt(c):
    return [(c.ln[j], c.nn[a], c.nn[b]) for j, (a, b) in enumerate(c.ends)]


def _frame_rows(c, vl):
    """rows (j, e) of a DataFrame in its present state; None if it no longer is a layer of this network."""
    inc = {}
    for j, (a, b) in enumerate(c.ends):
        inc[(c.ln[j], c.nn[a])] = (j, 0)
        inc[(c.ln[j], c.nn[b])] = (j, 1)
    try:
        pairs = list(zip([str(x) for x in vl['link'].values.tolist()], [str(x) for x in vl['node'].values.tolist()]))
        return [inc[p] for p in pairs]
    except Exception:
        return None


def _one_layer(c, rows, tags):
    """Full check of one valve layer. -> (failure tuple | None, separating valve present?)"""
    from wntr.metrics.topographic import valve_segments, valve_segment_attributes
    valved = set(rows)
    dups = len(valved) != len(rows)
    vl = _frame(c, rows)
    try:
        ns, ls, sizes = valve_segments(c.wn.to_graph(), vl)
    except Exception as ex:
        return (exc_bucket(ex, 'valve_segments_raises'),
                '%r for layer %r; links %r' % (ex, _rows_txt(c, rows), _links_txt(c))), False
    bad, roots = _check_partition(c, rows, ns, ls, sizes, valved)
    separating = any(roots[c.n + j] != roots[c.ends[j][e]] for j, e in valved)
    if bad:
        return bad, separating
    # strict attribute check on a duplicate-free layer
    first = []
    for r in rows:
        if r not in first:
            first.append(r)
    untouched = (not dups) and _frame_rows(c, vl) == rows and list(vl.index) == list(range(len(rows)))
    clean = vl if untouched else _frame(c, first)
    try:
        attr = valve_segment_attributes(clean, ns, ls, c.demand, c.length)
    except Exception as ex:
        return (exc_bucket(ex, 'valve_segment_attributes_raises'),
                '%r for duplicate-free layer %r; links %r' % (ex, _rows_txt(c, first), _links_txt(c))), separating
    bad = _check_attrs(c, first, roots, attr, strict=True)
    if bad:
        return bad, separating
    ro = getattr(c, 'row_order', 0)
    if ro and len(first) >= 2:
        # the same layer with its rows re-ordered (valve numbers = index labels stay attached to their valves, as after
        # layer.sort_values(...) or layer.sample(frac=1)): every valve must get the same attributes under its own number
        n_ = len(first)
        perm = list(range(n_))[::-1] if ro < 0 else [(k + ro) % n_ for k in range(n_)]
        if perm != list(range(n_)):
            tags.add('layer_rows_reordered')
            pf = _frame(c, first).iloc[perm]
            try:
                ns2, ls2, sizes2 = valve_segments(c.wn.to_graph(), pf)
                bad2, roots2 = _check_partition(c, first, ns2, ls2, sizes2, set(first))
                if bad2:
                    return ('reordered_layer/' + bad2[0], bad2[1]), separating
                attr2 = valve_segment_attributes(pf, ns2, ls2, c.demand, c.length)
                attr2 = attr2.sort_index()
            except Exception as ex:
                return (exc_bucket(ex, 'reordered_layer_raises'), '%r for the layer %r with rows re-ordered as %r'
                        % (ex, _rows_txt(c, first), perm)), separating
            bad = _check_attrs(c, first, roots2, attr2, strict=True)
            if bad:
                return ('reordered_layer/' + bad[0], bad[1] + ' | rows of the layer in order %r (labels kept)' % (perm,)), separating
    if untouched:
        return None, separating
    # documented work flow: the caller's own frame goes on to valve_segment_attributes
    after = _frame_rows(c, vl)
    if after is None or set(after) != valved:
        return ('caller_layer/valves_changed', 'valve_segments turned the caller\'s layer %r into\n%r'
                % (_rows_txt(c, rows), vl)), separating
    if after != rows:
        tags.add('caller_layer_mutated')
    try:
        attr = valve_segment_attributes(vl, ns, ls, c.demand, c.length)
    except Exception as ex:
        return (exc_bucket(ex, 'attributes_after_segments_raises'),
                'valve_segments(G, layer) left the caller\'s layer as index=%r rows=%r (was %r); '
                'valve_segment_attributes(layer, ...) then raised %r'
                % (list(vl.index), _rows_txt(c, after), _rows_txt(c, rows), ex)), separating
    bad = _check_attrs(c, after, roots, attr, strict=(len(set(after)) == len(after)))
    if bad:
        return ('after_segments/' + bad[0], bad[1]), separating
    return None, separating


# --------------------------------------------------------------------------- check
def check(case):
    try:
        c = _build(case)
    except Exception as ex:   # the generator only produces models the API accepts
        raise RuntimeError('case cannot be built: %r' % (ex,))
    gtags, deg = _graph_tags(c)
    tags = set(gtags)
    tags.add('mode:' + case.get('mode', 'layer'))
    tags.add('names:%d' % case['names'])
    tags.add('cols:' + case.get('cols', 'ln'))
    if c.demand is not None:
        tags.add('attr:demand')
        mx = max([d for k, d in c.nodes if k == 'J'] or [0.0])
        if 0.0 < mx < 1e-4:
            tags.add('attr:demand_all_below_1e-4')
        if any(d < 0 for k, d in c.nodes if k == 'J'):
            tags.add('attr:negative_demand_entries')
    if c.length is not None:
        tags.add('attr:length')
    incid = [(j, e) for j in range(c.m) for e in (0, 1)]

    if case.get('mode', 'layer') == 'subsets':
        k = len(incid)
        tags.add('subsets:2^%d' % k)
        nontrivial = False
        for bits in range(1 << k):
            rows = [incid[i] for i in range(k) if bits >> i & 1]
            bad, sep = _one_layer(c, rows, tags)
            nontrivial = nontrivial or sep
            if bad:
                return fail(bad[0], bad[1] + ' [subset %d of 2^%d]' % (bits, k), tags)
        return passed(nontrivial, tags)

    rows = [(int(j), int(e)) for j, e in case['valves']]
    valved = set(rows)
    if not rows:
        tags.add('empty_layer')
    if len(valved) != len(rows):
        tags.add('duplicates')
    if len(valved) == len(incid) and incid:
        tags.add('every_incidence_valved')
    if any((j, 0) in valved and (j, 1) in valved for j in range(c.m)):
        tags.add('link_closed_off')
    for i in range(c.n):
        mine = [(j, e) for (j, e) in incid if c.ends[j][e] == i]
        if mine and all(x in valved for x in mine):
            tags.add('node_closed_off')
            break
    roots = ref_roots(c.n, c.ends, valved)
    if any(roots[c.n + j] == roots[c.ends[j][e]] for j, e in valved):
        tags.add('nonseparating_valve')
    bad, sep = _one_layer(c, rows, tags)
    if sep:
        tags.add('separating_valve')
    if bad:
        return fail(bad[0], bad[1], tags)
    return passed(sep, tags)


# --------------------------------------------------------------------------- generation
_dem = st.one_of(st.sampled_from([0.0, 0.0, 1.0, 0.5, 2.0]),
                 st.floats(min_value=0.0, max_value=10.0, allow_nan=False, allow_subnormal=False))
_len = st.one_of(st.sampled_from([1.0, 10.0, 100.0]),
                 st.floats(min_value=0.1, max_value=1000.0, allow_nan=False, allow_subnormal=False))


@st.composite
def strategy(draw, tier='quick'):
    big = tier == 'thorough'
    n = draw(st.integers(2, 10 if big else 8))
    if draw(st.integers(0, 29)) == 29:
        n = 1
    nodes = []
    for _ in range(n):
        kind = draw(st.sampled_from(['J', 'J', 'J', 'J', 'R', 'T']))
        nodes.append([kind, draw(_dem) if kind == 'J' else 0.0])
    # demands of real models are 1e-2 .. 1e-7 m3/s: one case in two scales all of them down
    dscale = draw(st.sampled_from([1.0, 1.0, 1.0, 1e-3, 1e-5, 1e-7, 1e-9]))
    for nd in nodes:
        nd[1] *= dscale
    if draw(st.integers(0, 5)) == 0:
        # junctions modelling an inflow (negative base demand) appear in average_expected_demand with their sign
        for nd in nodes:
            if nd[0] == 'J' and draw(st.integers(0, 2)) == 0:
                nd[1] = -0.3 * nd[1]
    links = []
    if n >= 2:
        m = draw(st.integers(1, 14 if big else 10))
        if draw(st.integers(0, 29)) == 29:
            m = 0
        for _ in range(m):
            if links and draw(st.integers(0, 4)) == 0:       # parallel to an earlier link, either orientation
                a, b = links[draw(st.integers(0, len(links) - 1))][:2]
                if draw(st.booleans()):
                    a, b = b, a
            else:
                a = draw(st.integers(0, n - 1))
                b = (a + 1 + draw(st.integers(0, n - 2))) % n
            kinds = ['P', 'P', 'P', 'U']
            if nodes[a][0] == 'J' and nodes[b][0] == 'J':
                kinds.append('V')
            kind = draw(st.sampled_from(kinds))
            links.append([a, b, kind, draw(_len) if kind == 'P' else 0.0])
    case = {'names': draw(st.integers(0, 3)), 'nodes': nodes, 'links': links,
            'cols': draw(st.sampled_from(['ln', 'ln', 'nl'])),
            'use_demand': draw(st.integers(0, 3)) > 0, 'use_length': draw(st.integers(0, 3)) > 0,
            'mode': 'layer', 'valves': []}
    incid = [[j, e] for j in range(len(links)) for e in (0, 1)]
    small = len(links) <= (5 if big else 3)
    if small and len(links) >= 2 and draw(st.integers(0, 39 if not big else 19)) == 13:
        case['mode'] = 'subsets'
        return case
    if incid:
        thr = draw(st.sampled_from([15, 50, 85, 100]))
        rows = [x for x in incid if draw(st.integers(0, 99)) < thr]
        if not rows and draw(st.integers(0, 9)) > 0:
            rows = [incid[draw(st.integers(0, len(incid) - 1))]]
        if rows:
            for _ in range(draw(st.sampled_from([0, 0, 1, 1, 2, 3]))):
                rows.append(rows[draw(st.integers(0, len(rows) - 1))])
            rows = draw(st.permutations(rows))
        case['valves'] = [list(r) for r in rows]
        case['row_order'] = draw(st.sampled_from([0, 0, 0, 1, 2, -1]))
    return case


def _multigraph_cases(n, m, start):
    pairs = [(a, b) for a in range(n) for b in range(a + 1, n)]
    for num, combo in enumerate(itertools.combinations_with_replacement(range(len(pairs)), m)):
        links = []
        for j, p in enumerate(combo):
            a, b = pairs[p]
            if (j + num) % 2:
                a, b = b, a
            links.append([a, b, 'P' if (j + num) % 3 else 'U', 10.0 * (j + 1) if (j + num) % 3 else 0.0])
        yield {'names': (start + num) % 4, 'nodes': [['J', float(i % 3)] for i in range(n)], 'links': links,
               'cols': 'ln' if num % 3 else 'nl', 'use_demand': True, 'use_length': True,
               'mode': 'subsets', 'valves': []}


def enumerate_cases(tier):
    plan = [(4, 1), (4, 2), (4, 3)]
    if tier == 'thorough':
        plan += [(4, 4), (4, 5), (5, 4)]
    start = 0
    for n, m in plan:
        for case in _multigraph_cases(n, m, start):
            yield case
        start += 1


def summarize(case):
    sc = case['names']
    return {'nodes': [[node_name(sc, i)] + list(x) for i, x in enumerate(case['nodes'])],
            'links': [[link_name(sc, j), node_name(sc, l[0]), node_name(sc, l[1]), l[2], l[3]]
                      for j, l in enumerate(case['links'])],
            'valves': [[link_name(sc, j), node_name(sc, case['links'][j][e])] for j, e in case['valves']],
            'mode': case['mode'], 'cols': case['cols'],
            'use_demand': case['use_demand'], 'use_length': case['use_length']}
