"""C03 - WNTRSimulator, EpanetSimulator and EPANET itself agree on models both engines support, in every unit system.

One generated model (plain-data spec + controls/rules) is executed up to five ways

  T  : refs/c03_inp_text (own INP text in units UT) -> libepanet 2.2 stepped through the toolkit, own unit constants
  E1 : wntr model built from the spec -> EpanetSimulator, inpfile_units = U1      (WNTR writer + BinFile reader)
  E2 : same model                     -> EpanetSimulator, inpfile_units = U2 != U1
  R  : wntr.network.read_inpfile(text of T) -> EpanetSimulator                  (WNTR INP reader)
  W  : same model                     -> WNTRSimulator

and three relations are decided on the report grid:
  1. E1 ~ E2 (unit invariance), E1 ~ T, R ~ T: one engine solving what must be one model;
  2. W ~ E1 while both engines are in the same status configuration;
  3. a status difference on a link that is driven by nothing but the clock is a violation; any other status
     divergence splits the trajectories and the rest of the case is inconclusive (counted).
"""
import math
import os

import numpy as np
from hypothesis import strategies as st

from .. import netgen, spec as S
from ..outcome import exc_bucket, fail, inconclusive, passed
from ..refs import c03_epanet_direct as D
from ..refs import c03_inp_text as U

ID = 'C03'
LEVEL = 'exploration'
CASES = {'quick': 400, 'thorough': 5000}
SHRINK_BUDGET = {'quick': 25, 'thorough': 240}
CASE_TIMEOUT = 40
TECHNIQUE = ('property-based differential testing (Hypothesis): one generated model run by EPANET 2.2 on an independently '
             'written INP text, by EpanetSimulator in two unit systems, by EpanetSimulator on WNTR\'s reading of that '
             'text, and by WNTRSimulator; results compared on the report grid relative to the scale of each step')
RULE = ('Generated network specs of vlib.netgen restricted to the common feature set (2-8 junctions, thorough to 16; '
        'loops, parallel links, 1-3 sources, cylindrical and volume-curve tanks, H-W pipes, CV pipes, initially closed '
        'pipes, 1-/2-/3-point head pumps, power pumps, PRV/PSV/FCV/TCV in every initial status, a TCV directly at a tank in one case in four with a tank, a second active TCV parallel to an active TCV in one case in three with one, multi-category demands, '
        'demand and reservoir-head patterns, pattern start, start clock time, demand multiplier, DD and PDD) plus 0-3 '
        'controlled links, each driven by exactly one of: simple time controls, simple clock-time controls, a pair of '
        'tank-level controls, rules on SYSTEM TIME / CLOCKTIME, rules on TANK LEVEL (with ELSE, AND/OR, priorities). '
        'Units U1, U2 != U1, UT are drawn from the ten EPANET flow units and tallied (PDD: all from one pressure family '
        'with Pmin/Preq on the 0.01 grid of that unit); ten enumerated cases put a fixed network with every element type, '
        'a cycling level control, a clock-time valve setting and a timed pipe through every unit as U1. Four cases in '
        'five keep every pattern period on the hydraulic grid, three in four have report step = hydraulic step, one '
        'in four keeps 2-point pump curves. WNTRSimulator runs on 80 % (quick) / all (thorough) of the cases. '
        'One case in four with a head pump has a past: the model was simulated for one step with other pump-curve '
        'points, the curves were re-assigned to the spec and the model reset before the engines are compared. '
        'Non-trivial = at least 3 report steps compared in every executed relation, at least one non-pipe element or '
        'tank, and relation 1 decided on all three pairs; distinct = SHA-1 of the case.')
ASSUMPTIONS = [
    'common feature set only; excluded by construction (counted as excl:* tags): per-junction PDD overrides, head curves '
    'with more than 3 points (WNTR documents a regression fit where EPANET interpolates), control of CV pipes (EPANET '
    'error 207), pump speed settings, status and setting controls on one valve, closed or one-way links and control '
    'targets that would cut junctions off from every source, tanks starting within 20 % of a limit, rules where a '
    'pattern period begins inside a hydraulic step',
    'never generated because the engines legitimately differ: two commands for one link at one instant, "=" on time in '
    'rules, control instants off the 900 s grid (EPANET truncates hh:mm:ss read through floating-point hours) or off '
    'the rule grid, rule step not dividing the hydraulic step, rules together with tank-level simple controls, '
    'control instants at t = 0, thresholds within 0.05 m of a tank\'s initial level',
    'EPANET states that are no reference end the comparison from that report step on (cut:* tags, counted): a junction '
    'cut off from every source (heads of -1e6), a tank level that zig-zags without any status change (explicit Euler '
    'overshoot amplifies every difference), a tank on one of its limits (WNTR vs EPANET only: EPANET shuts the links and '
    'clamps, ignores a time-to-drain that rounds to 0 s), an event between hydraulic instants when report step > '
    'hydraulic step (EPANET then steps from the event, WNTR returns to the grid), a state off EPANET\'s own PDA curve, '
    'heads below -1e5 m in EPANET\'s run of the independent text (infeasible model), EPANET\'s own instability warnings, an '
    'open power pump without flow, link statuses that differ for a hydraulic or level-band reason, relay chatter (an '
    'uncommanded link toggling three times within eight solved instants)',
    'a run that either engine reports as not converged / unbalanced / error 110 is inconclusive; EPANET refusing the '
    'INP file that WNTR wrote (error 200) is a violation',
    'reservoir "pressure" is not compared between WNTR (0) and EPANET (head minus base head); links next to a tank are '
    'not "driven by the clock only" (EPANET loses a CLOSED control on a link it has temporarily closed itself)',
    'WNTR results that break an element law in a way that belongs to C02 get their own buckets '
    '(w_vs_e1/pump_curve_2pt, w_vs_e1/power_pump_reverse_flow)',
]
TOLERANCES = {
    'same_engine': 'head/pressure 1e-4 m + 2e-3*(max head - min head, >= 1 m); flow/demand Qtol(2.83e-6 m3/s) + 2e-3*max|q|: '
                   'EPANET\'s own constants are short (AFDperCFS 1.9837, IMGDperCFS 0.5382; calibrated <= 5e-4 of scale), '
                   'float32 binary output',
    'same_engine_tank_term': '5e-4 of the level a tank has travelled (integrated 1.2e-4 flow differences) + 1 s of inflow per '
                             'event between hydraulic instants; propagated to flows with the pipe law (class Allow)',
    'w_vs_e_head': '5e-3 m (convergence) + 1e-5*Hscale (float32) + 5e-4*largest head change across one open link '
                   '(EPANET ACCURACY bounds the last flow change, residual 2e-4 seen in PDA) + 1e-3*power-pump head gain '
                   '(gamma 9802 vs 9810 N/m3) + 1e-3*largest minor-loss head (g 32.2 ft/s2 vs 9.81 m/s2) + tank term + '
                   'sum over open pipes inside WNTR\'s low-flow band of K*q2^1.852; junction heads additionally the sum over open pipes '
                   'and pumps of |head loss or gain(q_E) - head loss or gain(q_W)| by the spec\'s laws (the flows are judged '
                   'separately and without that term)',
    'w_vs_e_flow': '1e-5 m3/s + 1e-3*max|q| (thresholds of wntr/tests/test_sim_performance.py) + q2 = 4e-4 m3/s for a pipe '
                   'inside WNTR\'s documented H-W smoothing band + H-W sensitivity to 2*head allowance, tightened by '
                   'continuity; PDD demand: + full demand * ((w + 0.05 m)/(Preq - Pmin))^exponent (WNTR smoothing band 0.05 m)',
    'w_vs_e_tank_term': '2 s of inflow per event between hydraulic instants (event times are whole seconds, one engine '
                        'truncates, one rounds up) + time integral of the allowed net-inflow mismatch',
    'status_bands': 'level within 2 s of flow (+2 mm) of a limit or control level; CV/pump/valve flow within 10*Qtol',
    'epanet_accuracy': 'ACCURACY 1e-5 (the smallest value EPANET 2.2 honours), TRIALS 200 for E1/E2/R/T; WNTR TOL 1e-8',
}
LEVEL_TEXT = ('Exploration: a few hundred (quick) to several thousand (thorough) random models of the common feature set, '
              'each in three of the ten unit systems; no exhaustiveness claim.')
LEVEL_NOTE = ('Trusted base: libepanet 2.2 and the ctypes wrapper that reaches it, refs/c03_inp_text.py (own unit table and '
              'INP syntax), refs/c03_epanet_direct.py, the spec builder of vlib.spec. Differences inside the stated bands and '
              'everything after a cut are not judged; WNTR vs EPANET on tanks at their limits belongs to C06.')

FEAT = {'nj': (2, 8), 'tanks': (0, 2), 'extra_res': (0, 1), 'pumps': True, 'valves': True, 'cvs': True,
        'closed': True, 'leaks': False, 'vol_curves': True, 'tank_links_special': True, 'booster': True, 'wild': 0.0,
        'report_all': False, 'durations': [3600, 7200, 4 * 3600, 8 * 3600, 12 * 3600, 24 * 3600]}
W_SHARE = {'quick': 80, 'thorough': 100}     # per cent of the cases that also run WNTRSimulator (the slow part)
MAX_STEPS = {'quick': 96, 'thorough': 288}   # hydraulic steps per run
Q2 = 4.0e-4          # upper end of WNTR's H-W smoothing band (wntr/sim/models/constants.py: hw_q2)
QTOL = 2.83168e-6    # EPANET Qtol (1e-4 cfs): flow below which a CV / pump status is indeterminate


# ---------------------------------------------------------------------------------------------- generation
def supplied(net, closed):
    """set of nodes that a source can feed through links not in `closed`; CV pipes, pumps and PRV/PSV/FCV carry flow
    from their start node to their end node only (own BFS over the spec)"""
    adj = {}
    for name, a, b, kind, el in S.links_of(net):
        if name in closed:
            continue
        one_way = (kind == 'pump') or (kind == 'pipe' and el['cv']) or (kind == 'valve' and el['type'] in ('PRV', 'PSV', 'FCV'))
        adj.setdefault(a, []).append(b)
        if not one_way:
            adj.setdefault(b, []).append(a)
    seen = set(n['name'] for n in net['tanks'] + net['reservoirs'])
    todo = sorted(seen)
    while todo:
        x = todo.pop()
        for y in adj.get(x, ()):
            if y not in seen:
                seen.add(y)
                todo.append(y)
    return seen


def _all_reached(net, closed):
    reach = supplied(net, closed)
    return all(j['name'] in reach for j in net['junctions'])


def _base_closed(net):
    c = set(p['name'] for p in net['pipes'] if p['status'] == 'CLOSED')
    c |= set(v['name'] for v in net['valves'] if v['status'] == 'CLOSED')
    c |= set(p['name'] for p in net['pumps'] if p['status'] == 'CLOSED')
    return c


def prepare(net, family):
    """deterministic restriction of a netgen spec to the common feature set; returns the list of excl:* tags"""
    ex = []
    o = net['opts']
    o['rep'] = int(o['rep']) if o['rep'] != 'ALL' else int(o['hyd'])
    divs = [d for d in (60, 300, 600, 900, 1800, 3600) if o['hyd'] % d == 0]
    if o['rule'] not in divs:
        o['rule'] = divs[-1] if o['rule'] > divs[-1] else max(d for d in divs if d <= max(o['rule'], divs[0]))
    for j in net['junctions']:
        if any(j.get(k) is not None for k in ('pmin', 'preq', 'pexp')):
            ex.append('excl:junction_pdd_override')
        for k in ('pmin', 'preq', 'pexp'):
            j.pop(k, None)
    for c in net['curves'].values():
        if c['type'] == 'HEAD' and len(c['pts']) > 3:
            c['pts'] = [c['pts'][0], c['pts'][len(c['pts']) // 2], c['pts'][-1]]
            ex.append('excl:multipoint_head_curve')
    if o['demand_model'] == 'PDD':
        unit = U.PSI_M if family == 'US' else 1.0
        kmin = int(round(o['pmin'] / unit * 100.0))
        kreq = max(int(round(o['preq'] / unit * 100.0)), kmin + 50)
        o['pmin'] = kmin * 0.01 * unit
        o['preq'] = kreq * 0.01 * unit
    # a tank that starts on (or within 2 % of) a limit reaches it at once: what the engines do there is not comparable
    for t in net['tanks']:
        span = t['max'] - t['min']
        if not t['min'] + 0.2 * span <= t['init'] <= t['max'] - 0.2 * span:
            t['init'] = round(t['min'] + (0.3 if t['init'] < t['min'] + 0.5 * span else 0.7) * span, 3)
            ex.append('excl:tank_starts_at_limit')
    # closed or one-way links must not cut junctions off from every source
    closed = _base_closed(net)
    if not _all_reached(net, closed):
        ex.append('excl:closed_or_oneway_link_isolates')
        for grp in ('pipes', 'valves'):
            for l in net[grp]:
                if _all_reached(net, closed):
                    break
                before = len(supplied(net, closed))
                if l['name'] in closed:
                    closed.discard(l['name'])
                    if len(supplied(net, closed)) > before:
                        l['status'] = 'OPEN' if grp == 'pipes' else 'ACTIVE'
                    else:
                        closed.add(l['name'])
                if (grp == 'pipes' and l['cv']) or (grp == 'valves' and l['type'] in ('PRV', 'PSV', 'FCV')):
                    before = len(supplied(net, closed))
                    l['a'], l['b'] = l['b'], l['a']
                    if len(supplied(net, closed)) <= before:
                        l['a'], l['b'] = l['b'], l['a']
    net['controls'] = []
    return ex


def _lcm(a, b):
    return a * b // math.gcd(a, b)


def _new_setting(draw, v):
    if v['type'] in ('PRV', 'PSV'):
        return round(draw(st.floats(5, 35)), 2)
    if v['type'] == 'FCV':
        return draw(st.sampled_from([0.0005, 0.001, 0.003, 0.01]))
    return draw(st.sampled_from([0.0, 1.0, 5.0, 50.0]))


@st.composite
def _drivers(draw, net):
    """controls and rules for 0-3 links; every link is commanded by exactly one kind of driver"""
    o = net['opts']
    cands = [(p['name'], 'pipe', p) for p in net['pipes'] if not p['cv']]
    cands += [(p['name'], 'pump', p) for p in net['pumps']]
    cands += [(v['name'], 'valve', v) for v in net['valves']]
    n = draw(st.sampled_from([0, 1, 1, 2, 2, 3]))
    mode = draw(st.sampled_from(['controls', 'controls', 'rules']))
    ex0 = []
    if mode == 'rules' and (o['pat'] % o['hyd'] != 0 or o['pattern_start'] % o['hyd'] != 0):
        # EPANET cuts its hydraulic step at pattern changes and evaluates rules at the end of every (cut) step, also
        # off the rule grid: no rules where a pattern period begins inside a hydraulic step
        mode = 'controls'
        ex0.append('excl:rules_with_pattern_change_inside_hyd_step')
    grid = 900 if mode == 'controls' else _lcm(900, o['rule'])
    nslots = o['duration'] // grid
    closed = _base_closed(net)
    picked, ex = [], ex0
    for _ in range(min(n, len(cands))):
        c = cands[draw(st.integers(0, len(cands) - 1))]
        if c[0] in [x[0] for x in picked]:
            continue
        if not _all_reached(net, closed | {c[0]} | set(x[0] for x in picked)):
            ex.append('excl:target_would_isolate')
            continue
        picked.append(c)
    controls, rules = [], []
    tanks = net['tanks']
    prio = [1, 2, 3, 4, 5, 6]
    for name, kind, el in picked:
        init_open = el['status'] != 'CLOSED'
        use_setting = kind == 'valve' and el['status'] == 'ACTIVE' and draw(st.booleans())
        kinds = ['time', 'clock'] if mode == 'controls' else ['rule_time', 'rule_clock']
        if tanks:
            kinds += ['level', 'level'] if mode == 'controls' else ['rule_level', 'rule_mixed']
        dk = draw(st.sampled_from(kinds))
        if dk in ('time', 'clock', 'rule_time', 'rule_clock', 'rule_mixed') and nslots < 2:
            if not tanks:
                continue
            dk = 'level' if mode == 'controls' else 'rule_level'

        def values(k):
            if use_setting:
                return [_new_setting(draw, el) for _ in range(k)]
            seq = ['CLOSED', 'OPEN'] if init_open else ['OPEN', 'CLOSED']
            return [seq[i % 2] for i in range(k)]

        if dk == 'time':
            k = draw(st.integers(1, min(3, nslots)))
            slots = sorted(set(draw(st.integers(1, nslots)) for _ in range(k)))
            for at, v in zip(slots, values(len(slots))):
                controls.append({'kind': 'time', 'link': name, 'value': v, 'at': at * grid, 'clock': False})
        elif dk == 'clock':
            # daily repeating: instants (c - start) mod 86400; keep them distinct and off t = 0
            day = 86400 // grid
            k = draw(st.integers(1, 2))
            slots = sorted(set(draw(st.integers(0, day - 1)) for _ in range(k)))
            slots = [s_ for s_ in slots if (s_ * grid - o['start_clocktime']) % 86400 != 0]
            for c_, v in zip(slots, values(len(slots))):
                controls.append({'kind': 'time', 'link': name, 'value': v, 'at': c_ * grid, 'clock': True})
        elif dk == 'level':
            tk = tanks[draw(st.integers(0, len(tanks) - 1))]
            lo, hi = _thresholds(draw, tk)
            v = values(2)
            if draw(st.booleans()):
                v = v[::-1]
            controls.append({'kind': 'level', 'link': name, 'value': v[0], 'tank': tk['name'], 'op': 'below', 'thr': lo})
            controls.append({'kind': 'level', 'link': name, 'value': v[1], 'tank': tk['name'], 'op': 'above', 'thr': hi})
        else:
            v = values(2)
            p = prio.pop(draw(st.integers(0, len(prio) - 1)))
            rname = 'r%d' % (len(rules) + 1)
            if dk in ('rule_time', 'rule_clock'):
                var = 'time' if dk == 'rule_time' else 'clock'
                top = nslots if var == 'time' else 86400 // grid - 1
                a = draw(st.integers(1, max(1, top - 1)))
                b = draw(st.integers(a + 1, max(a + 1, top)))
                join = draw(st.sampled_from(['AND', 'AND', 'OR']))
                if join == 'AND':
                    cl = [[var, draw(st.sampled_from(['>=', '>'])), a * grid], [var, draw(st.sampled_from(['<', '<='])), b * grid]]
                else:
                    cl = [[var, draw(st.sampled_from(['<', '<='])), a * grid], [var, draw(st.sampled_from(['>=', '>'])), b * grid]]
                rules.append({'name': rname, 'join': join, 'if': cl, 'then': [[name, v[0]]],
                              'else': [[name, v[1]]] if draw(st.integers(0, 3)) else [], 'priority': p})
            elif dk == 'rule_level':
                tk = tanks[draw(st.integers(0, len(tanks) - 1))]
                lo, hi = _thresholds(draw, tk)
                if draw(st.booleans()):
                    v = v[::-1]
                rules.append({'name': rname, 'join': 'AND', 'if': [['level', tk['name'], draw(st.sampled_from(['<', '<='])), lo]],
                              'then': [[name, v[0]]], 'else': [], 'priority': p})
                p2 = prio.pop(draw(st.integers(0, len(prio) - 1)))
                rules.append({'name': 'r%d' % (len(rules) + 1), 'join': 'AND',
                              'if': [['level', tk['name'], draw(st.sampled_from(['>', '>='])), hi]],
                              'then': [[name, v[1]]], 'else': [], 'priority': p2})
            else:   # level AND/OR clock window, with ELSE
                tk = tanks[draw(st.integers(0, len(tanks) - 1))]
                lo, hi = _thresholds(draw, tk)
                a = draw(st.integers(1, max(1, nslots - 1)))
                cl = [['level', tk['name'], draw(st.sampled_from(['>', '<'])), draw(st.sampled_from([lo, hi]))],
                      ['time', draw(st.sampled_from(['>=', '<'])), a * grid]]
                rules.append({'name': rname, 'join': draw(st.sampled_from(['AND', 'OR'])), 'if': cl, 'then': [[name, v[0]]],
                              'else': [[name, v[1]]], 'priority': p})
    return controls, rules, ex


def _thresholds(draw, tk):
    span = tk['max'] - tk['min']
    lo = round(tk['min'] + span * draw(st.sampled_from([0.2, 0.3, 0.4])), 2)
    hi = round(tk['min'] + span * draw(st.sampled_from([0.6, 0.7, 0.8])), 2)
    # keep away from the initial level (EPANET tests <=/>= with Htol, equality is a coin toss between engines)
    if abs(lo - tk['init']) < 0.05:
        lo = round(lo + 0.1, 2)
    if abs(hi - tk['init']) < 0.05:
        hi = round(hi - 0.1, 2)
    return lo, hi


@st.composite
def _case(draw, tier):
    f = dict(FEAT)
    if tier == 'thorough':
        f['nj'] = (2, 16)
        f['max_extra_links'] = 5
        f['durations'] = f['durations'] + [48 * 3600]
    net = draw(netgen.network(f))
    if net['tanks'] and draw(st.integers(0, 3)) == 0:
        # a throttle valve directly at a tank (EPANET refuses PRV/PSV/FCV there, error 219, but accepts a TCV)
        tn = set(t['name'] for t in net['tanks'])
        cands = [p for p in net['pipes'] if (p['a'] in tn) != (p['b'] in tn) and not p['cv'] and p['status'] == 'OPEN']
        if cands:
            p = draw(st.sampled_from(cands))
            net['pipes'].remove(p)
            net['valves'].append({'name': p['name'].replace('L', 'V'), 'a': p['a'], 'b': p['b'], 'type': 'TCV',
                                  'diam': p['diam'], 'minor': draw(st.sampled_from([0.0, 0.0, 1.0])),
                                  'setting': draw(st.sampled_from([1.0, 5.0, 50.0, 500.0])),
                                  'status': draw(st.sampled_from(['ACTIVE', 'ACTIVE', 'ACTIVE', 'OPEN']))})
    tcvs = [v for v in net['valves'] if v['type'] == 'TCV' and v['status'] == 'ACTIVE']
    if tcvs and draw(st.integers(0, 2)) == 0:
        # a throttled bypass: a second active TCV between the same two nodes (either orientation); no link of the
        # pair is 'open', both regulate
        v = draw(st.sampled_from(tcvs))
        a, b = (v['a'], v['b']) if draw(st.booleans()) else (v['b'], v['a'])
        net['valves'].append({'name': v['name'] + 'B', 'a': a, 'b': b, 'type': 'TCV', 'diam': v['diam'], 'minor': 0.0,
                              'setting': draw(st.sampled_from([1.0, 5.0, 50.0])), 'status': 'ACTIVE'})
    fam = draw(st.sampled_from(['US', 'metric']))
    o = net['opts']
    ex_pre = []
    if o['duration'] // o['hyd'] > MAX_STEPS.get(tier, 96):
        o['duration'] = MAX_STEPS.get(tier, 96) * o['hyd']
    if draw(st.integers(0, 4)) != 0:
        # four cases in five: every pattern period starts on the hydraulic grid (EPANET solves at every change of
        # the pattern period; a hydraulic step that runs past one is tallied and bucketed separately)
        o['pat'] = o['hyd'] * draw(st.sampled_from([1, 1, 2, 3]))
        o['pattern_start'] -= o['pattern_start'] % o['hyd']
    else:
        # EPANET finds the next pattern change as n*Pstep - Htime with n = (Htime + Pstart)/Pstep + 1, i.e. PATTERN
        # START is left out of the subtraction: with any offset EPANET itself runs past the pattern changes, so these
        # cases keep PATTERN START 0
        if o['pattern_start']:
            ex_pre.append('excl:pattern_start_with_pattern_change_inside_hyd_step')
        o['pattern_start'] = 0
    if draw(st.integers(0, 3)) != 0:
        o['rep'] = o['hyd']
    if draw(st.integers(0, 3)) != 0:
        # 2-point head curves (EPANET: straight line) are kept in one case out of four only: EPANET often fails to
        # balance them and WNTR's fit of them is a known C02 finding that would mask everything else
        for c in net['curves'].values():
            if c['type'] == 'HEAD' and len(c['pts']) == 2:
                (q0, h0), (q1, h1) = c['pts']
                c['pts'] = [[0.0, round(h0 * 1.15, 3)], [q0 * 2.0, h0 * 0.85 if False else round(0.5 * (h0 + h1), 3)], [q1 * 1.4, round(h1 * 0.3, 3)]]
    ex = prepare(net, fam)
    if net['opts']['demand_model'] == 'PDD':
        pool = [u for u in U.UNITS if U.family(u) == fam]
    else:
        pool = list(U.UNITS)
    u1 = draw(st.sampled_from(pool))
    u2 = draw(st.sampled_from([u for u in pool if u != u1]))
    ut = draw(st.sampled_from(pool))
    controls, rules, ex2 = draw(_drivers(net))
    return {'net': net, 'u1': u1, 'u2': u2, 'ut': ut, 'style': draw(st.integers(0, 1)), 'controls': controls,
            'rules': rules, 'run_w': draw(st.integers(0, 99)) < W_SHARE.get(tier, 100), 'excluded': sorted(set(ex_pre + ex + ex2)),
            'prelude': draw(st.integers(0, 3)) == 0 and any(c['type'] == 'HEAD' for c in net['curves'].values())}


def strategy(tier='quick'):
    return _case(tier)


# a fixed network with every element type of the common feature set, put through all ten units
_FIXED = {
    'opts': {'duration': 8 * 3600, 'hyd': 1800, 'pat': 3600, 'rep': 1800, 'rule': 900, 'pattern_start': 3600,
             'start_clocktime': 6 * 3600, 'dm': 1.2, 'demand_model': 'DD', 'pmin': 0.0, 'preq': 0.07, 'pexp': 0.5,
             'hw_approx': 'default'},
    'patterns': {'P1': [1.0, 1.4, 0.6, 1.2, 0.8], 'P2': [1.0, 1.05, 0.95]},
    'curves': {'HC1': {'type': 'HEAD', 'pts': [[0.0, 66.0], [0.03, 52.0], [0.06, 12.0]]},
               'HC2': {'type': 'HEAD', 'pts': [[0.01, 12.0]]},
               'VC1': {'type': 'VOLUME', 'pts': [[0.0, 0.0], [2.0, 180.0], [4.0, 420.0], [7.0, 700.0]]}},
    'junctions': [{'name': 'J1', 'elev': 5.0, 'demands': [[0.002, 'P1', None]]},
                  {'name': 'J2', 'elev': 8.0, 'demands': [[0.003, None, 'dom'], [0.001, 'P1', 'ind']]},
                  {'name': 'J3', 'elev': 12.0, 'demands': [[0.002, 'P1', None]]},
                  {'name': 'J4', 'elev': 10.0, 'demands': [[0.004, None, None]]},
                  {'name': 'J5', 'elev': 3.0, 'demands': [[0.003, 'P1', None]]},
                  {'name': 'J6', 'elev': 15.0, 'demands': [[0.002, None, None]]},
                  {'name': 'J7', 'elev': 6.0, 'demands': [[0.002, None, None]]}],
    'tanks': [{'name': 'T1', 'elev': 50.0, 'init': 3.0, 'min': 0.5, 'max': 6.0, 'diam': 12.0, 'min_vol': 0.0, 'vol_curve': 'VC1'}],
    'reservoirs': [{'name': 'R1', 'head': 4.0, 'pat': 'P2'}],
    'pipes': [{'name': 'L1', 'a': 'J1', 'b': 'J2', 'len': 400.0, 'diam': 0.3, 'C': 120.0, 'minor': 0.5, 'status': 'OPEN', 'cv': False},
              {'name': 'L2', 'a': 'J2', 'b': 'J3', 'len': 300.0, 'diam': 0.25, 'C': 100.0, 'minor': 0.0, 'status': 'OPEN', 'cv': False},
              {'name': 'L3', 'a': 'J3', 'b': 'T1', 'len': 200.0, 'diam': 0.3, 'C': 130.0, 'minor': 2.0, 'status': 'OPEN', 'cv': False},
              {'name': 'L4', 'a': 'J2', 'b': 'J4', 'len': 500.0, 'diam': 0.2, 'C': 110.0, 'minor': 0.0, 'status': 'OPEN', 'cv': True},
              {'name': 'L5', 'a': 'J1', 'b': 'J4', 'len': 600.0, 'diam': 0.2, 'C': 90.0, 'minor': 0.0, 'status': 'OPEN', 'cv': False},
              {'name': 'L7', 'a': 'J3', 'b': 'J4', 'len': 350.0, 'diam': 0.15, 'C': 100.0, 'minor': 0.0, 'status': 'CLOSED', 'cv': False}],
    'pumps': [{'name': 'PU1', 'a': 'R1', 'b': 'J1', 'type': 'HEAD', 'power': None, 'curve': 'HC1', 'status': 'OPEN'},
              {'name': 'PU2', 'a': 'J4', 'b': 'J6', 'type': 'HEAD', 'power': None, 'curve': 'HC2', 'status': 'OPEN'}],
    'valves': [{'name': 'V1', 'a': 'J1', 'b': 'J5', 'type': 'PRV', 'diam': 0.2, 'minor': 0.0, 'setting': 25.0, 'status': 'ACTIVE'},
               {'name': 'V2', 'a': 'J2', 'b': 'J7', 'type': 'TCV', 'diam': 0.2, 'minor': 0.0, 'setting': 50.0, 'status': 'ACTIVE'}],
    'controls': [], 'profile': 'sane'}


def enumerate_cases(tier):
    import copy
    for i, u in enumerate(U.UNITS):
        net = copy.deepcopy(_FIXED)
        pdd = i % 2 == 1
        fam = U.family(u)
        if pdd:
            net['opts']['demand_model'] = 'PDD'
            net['opts']['pmin'], net['opts']['preq'] = 3.0, 28.0
        prepare(net, fam)
        pool = [x for x in U.UNITS if (not pdd or U.family(x) == fam)]
        others = [x for x in pool if x != u]
        controls = [{'kind': 'time', 'link': 'L7', 'value': 'OPEN', 'at': 2 * 3600 + 900, 'clock': False},
                    {'kind': 'time', 'link': 'V1', 'value': 20.0, 'at': 10 * 3600, 'clock': True},
                    {'kind': 'level', 'link': 'PU1', 'value': 'CLOSED', 'tank': 'T1', 'op': 'above', 'thr': 3.3},
                    {'kind': 'level', 'link': 'PU1', 'value': 'OPEN', 'tank': 'T1', 'op': 'below', 'thr': 3.1}]
        yield {'net': net, 'u1': u, 'u2': others[(i * 3) % len(others)], 'ut': others[(i * 3 + 1) % len(others)],
               'style': i % 2, 'controls': controls, 'rules': [], 'run_w': True, 'excluded': []}


def summarize(case):
    n = case['net']
    return {'opts': n['opts'], 'units': [case['u1'], case['u2'], case['ut']], 'n_junctions': len(n['junctions']),
            'links': [[l[0], l[1], l[2], l[3]] for l in S.links_of(n)], 'controls': case['controls'], 'rules': case['rules']}


# ---------------------------------------------------------------------------------------------- model under test
def build_model(case):
    import wntr
    from wntr.network import LinkStatus
    from wntr.network.controls import (AndCondition, Comparison, Control, ControlAction, ControlPriority, OrCondition,
                                       Rule, SimTimeCondition, TimeOfDayCondition, ValueCondition)
    net = case['net']
    wn = S.build_wn(net, controls=False)
    wn.options.hydraulic.accuracy = 1e-5
    wn.options.hydraulic.trials = 200
    wn.options.quality.parameter = 'NONE'

    def action(link, value):
        l = wn.get_link(link)
        if isinstance(value, str):
            return ControlAction(l, 'status', LinkStatus.Open if value == 'OPEN' else LinkStatus.Closed)
        return ControlAction(l, 'setting', float(value))

    for i, c in enumerate(case['controls']):
        act = action(c['link'], c['value'])
        if c['kind'] == 'time':
            ctl = Control._time_control(wn, int(c['at']), 'CLOCK_TIME' if c.get('clock') else 'SIM_TIME',
                                        bool(c.get('clock')), act)
        else:
            op = Comparison.lt if c['op'] == 'below' else Comparison.gt
            ctl = Control._conditional_control(wn.get_node(c['tank']), 'level', op, float(c['thr']), act)
        wn.add_control('c%d' % i, ctl)
    for r in case['rules']:
        parts = []
        for cl in r['if']:
            if cl[0] == 'time':
                parts.append(SimTimeCondition(wn, cl[1], int(cl[2])))
            elif cl[0] == 'clock':
                parts.append(TimeOfDayCondition(wn, cl[1], int(cl[2])))
            else:
                parts.append(ValueCondition(wn.get_node(cl[1]), 'level', cl[2], float(cl[3])))
        cond = parts[0]
        for p in parts[1:]:
            cond = (AndCondition if r['join'] == 'AND' else OrCondition)(cond, p)
        rule = Rule(cond, [action(l, v) for l, v in r['then']], [action(l, v) for l, v in r['else']] or None,
                    priority=ControlPriority(r['priority']), name=r['name'])
        wn.add_control(r['name'], rule)
    if case.get('prelude'):
        _prelude(case, wn)
    return wn


def _prelude(case, wn):
    """the model has a past: it was simulated once (WNTRSimulator, one hydraulic step) while its head-pump curves had
    other points, then the curves were re-assigned to the points of the spec and the model was reset.  Both engines
    are compared on the model as it is now; anything cached from the first run must not survive."""
    import wntr
    net = case['net']
    heads = [(n, c['pts']) for n, c in sorted(net['curves'].items()) if c['type'] == 'HEAD']
    dur = wn.options.time.duration
    for name, pts in heads:
        wn.get_curve(name).points = [(q, 1.3 * h) for q, h in pts]
    wn.options.time.duration = min(dur, wn.options.time.hydraulic_timestep)
    try:
        wntr.sim.WNTRSimulator(wn).run_sim()
    except Exception:
        pass
    for name, pts in heads:
        wn.get_curve(name).points = [(q, h) for q, h in pts]
    wn.options.time.duration = dur
    wn.reset_initial_values()


class Tab(object):
    __slots__ = ('times', 'node', 'link', 'ok', 'warn')


def _tab(res):
    t = Tab()
    t.times = np.array(res.node['head'].index, dtype=float)
    t.node = {k: {c: res.node[k][c].values.astype(float) for c in res.node[k].columns} for k in ('head', 'pressure', 'demand')}
    t.link = {k: {c: res.link[k][c].values.astype(float) for c in res.link[k].columns} for k in ('flowrate', 'status', 'setting')}
    t.ok = res.error_code is None
    return t


def run_epanet_sim(wn, units, prefix):
    import wntr
    if units is not None:
        wn.options.hydraulic.inpfile_units = units
    sim = wntr.sim.EpanetSimulator(wn)
    return _tab(sim.run_sim(file_prefix=prefix))


def epanet_unstable_from(rptfiles):
    """earliest simulation time (s) at which EPANET itself warns that its solution is not one ('Maximum trials exceeded
    ... System may be unstable', 'System unbalanced'), over the given report files; None if it never does"""
    import re
    best = None
    for f in rptfiles:
        try:
            lines = open(f, errors='replace').read().splitlines()
        except Exception:
            continue
        for l in lines:
            if 'WARNING' in l and ('Maximum trials exceeded' in l or 'unbalanced' in l.lower()):
                m = re.search(r'at\s+(\d+):(\d+):(\d+)\s+hrs', l)
                t = (int(m.group(1)) * 3600 + int(m.group(2)) * 60 + int(m.group(3))) if m else 0
                best = t if best is None else min(best, t)
    return best


def epanet_input_errors(inpfile):
    """the 'Error nnn: ...' lines EPANET writes when it refuses an INP file"""
    from wntr.epanet.toolkit import ENepanet
    en = ENepanet(version=2.2)
    rpt = inpfile + '.err.rpt'
    try:
        en.ENopen(inpfile, rpt, inpfile + '.err.bin')
    except Exception:
        pass
    try:
        en.ENclose()
    except Exception:
        pass
    try:
        lines = [l.strip() for l in open(rpt, errors='replace') if 'Error' in l]
    except Exception:
        lines = []
    return [l for l in lines if not l.startswith('Error 200')] or lines


def _epanet_failure(e, inpfile, what, tags):
    """outcome for an exception raised while EPANET ran a file written by WNTR"""
    msg = str(e)
    if '(Error 110)' in msg:     # EPANET itself cannot solve the hydraulic equations (ill-conditioned)
        return inconclusive('EPANET error 110 (cannot solve the hydraulic equations)', tags)
    if '(Error 200)' in msg:
        errs = epanet_input_errors(inpfile)
        code = errs[0].split(':')[0].replace('Error ', '').strip() if errs else '200'
        return fail('inp_rejected_by_epanet/error_%s' % code,
                    '%s: EPANET rejects the INP file that WNTR wrote: %s' % (what, '; '.join(errs[:3]) or msg), tags)
    return fail(exc_bucket(e, 'epanetsim'), '%s raised %r' % (what, e), tags)


# ---------------------------------------------------------------------------------------------- comparison helpers
class Ctx(object):
    """per-case constants derived from the spec"""

    def __init__(self, case):
        net = case['net']
        self.net = net
        self.links = S.links_of(net)
        self.lnames = [l[0] for l in self.links]
        self.ends = {l[0]: (l[1], l[2]) for l in self.links}
        self.lkind = {}
        for name, a, b, kind, el in self.links:
            if kind == 'pipe':
                self.lkind[name] = 'cv_pipe' if el['cv'] else 'pipe'
            elif kind == 'pump':
                self.lkind[name] = 'pump_' + el['type'].lower()
            else:
                self.lkind[name] = el['type']
        self.junctions = [j['name'] for j in net['junctions']]
        self.tanks = [t['name'] for t in net['tanks']]
        self.reservoirs = [r['name'] for r in net['reservoirs']]
        self.nnames = self.junctions + self.tanks + self.reservoirs
        self.nkind = {n: 'junction' for n in self.junctions}
        self.nkind.update({n: 'tank' for n in self.tanks})
        self.nkind.update({n: 'reservoir' for n in self.reservoirs})
        self.tank = {t['name']: t for t in net['tanks']}
        # thresholds that govern statuses, per tank: own limits + control/rule thresholds
        self.thr = {t['name']: [t['min'], t['max']] for t in net['tanks']}
        self.level_driven = set()
        self.time_driven = set()
        for c in case['controls']:
            if c['kind'] == 'level':
                self.thr[c['tank']].append(c['thr'])
                self.level_driven.add(c['link'])
            else:
                self.time_driven.add(c['link'])
        for r in case['rules']:
            has_level = False
            for cl in r['if']:
                if cl[0] == 'level':
                    self.thr[cl[1]].append(cl[3])
                    has_level = True
            for l, _v in list(r['then']) + list(r['else']):
                (self.level_driven if has_level else self.time_driven).add(l)
        self.time_driven -= self.level_driven

    def tank_area(self, name, level):
        tk = self.tank[name]
        if tk.get('vol_curve'):
            pts = self.net['curves'][tk['vol_curve']]['pts']
            a = None
            for (l0, v0), (l1, v1) in zip(pts, pts[1:]):
                if l1 > l0:
                    s = (v1 - v0) / (l1 - l0)
                    if l0 - 1e-9 <= level <= l1 + 1e-9:
                        a = s if a is None else min(a, s)
            if a is None:
                a = min((v1 - v0) / (l1 - l0) for (l0, v0), (l1, v1) in zip(pts, pts[1:]) if l1 > l0)
            return max(a, 1e-6)
        return S.tank_area(tk)


def first_isolated_step(cx, A):
    """index of the first report step at which A's statuses leave a junction without a path to a source"""
    for k in range(len(A.times)):
        closed = set(x for x in cx.lnames if A.link['status'][x][k] == 0)
        reach = supplied(cx.net, closed)
        if any(j not in reach for j in cx.junctions):
            return k
    return None


def zigzag_time(cx, T):
    """instant from which a tank level zig-zags in the stepped EPANET run: up-down-up (or down-up-down) by more than
    0.1 m over three consecutive solved instants while no link that a control or rule commands changes between open and
    closed (check valves and pumps that flip for hydraulic reasons - two tanks dumping into each other through a CV - are
    part of the oscillation).  The explicit tank
    integration of both engines overshoots its equilibrium there; every difference - EPANET's own short unit constants,
    one engine solving at an instant the other skips - is amplified from step to step and no fixed allowance is sound.
    (A pump cycling on a level control also zig-zags, but with status changes at the turning points.)"""
    best = None
    ctl = [j for j, l in enumerate(cx.lnames) if l in cx.level_driven or l in cx.time_driven]

    def commanded(i):
        return tuple(T.open_all[i][j] for j in ctl)

    for t in cx.tanks:
        h = T.tank_head[t]
        for i in range(2, len(T.all_times)):
            d1, d2 = h[i - 1] - h[i - 2], h[i] - h[i - 1]
            if d1 * d2 < 0 and min(abs(d1), abs(d2)) > 0.1 and commanded(i - 2) == commanded(i - 1) == commanded(i):
                if best is None or T.all_times[i - 1] < best:
                    best = T.all_times[i - 1]
                break
    return best


def chatter_time(cx, T):
    """first solved instant of a relay oscillation: a link that nothing commands (check valve, pump, regulating valve)
    opens and closes at least three times within eight consecutive solved instants.  Seen: one pump filling two tanks,
    one of them through a check-valve pipe; the heads stay within a millimetre of each other, the valve opens every
    third Euler step, and the flow of each opening goes with the 0.54-th power of a head difference of 0.4 .. 0.9 mm
    that already differs between two unit systems of EPANET itself (CFS 1.7 L/s, GPM 0.35 L/s, LPS 4.6 L/s for one
    model).  No fixed allowance is sound from there on, for any pair of runs."""
    n = len(T.all_times)
    best = None
    for j, l in enumerate(cx.lnames):
        if l in cx.level_driven or l in cx.time_driven:
            continue
        tog = [i for i in range(1, n) if bool(T.open_all[i][j]) != bool(T.open_all[i - 1][j])]
        for a in range(len(tog) - 2):
            if tog[a + 2] - tog[a] <= 8:
                t0 = T.all_times[tog[a]]
                if best is None or t0 < best:
                    best = t0
                break
    return best


def fast_tank_time(cx, T):
    """first solved instant at which the net inflow of a tank would carry it over more than half of what is left of its
    range (in the direction of the flow) within one hydraulic step: a limit event or an overshoot is imminent, and what
    the engines do from there on is an artefact of their time stepping, not of the model"""
    hyd = cx.net['opts']['hyd']
    for i, ts in enumerate(T.all_times):
        for t in cx.tanks:
            tk = cx.tank[t]
            lvl = T.tank_head[t][i] - tk['elev']
            q = T.tank_inflow[t][i]
            room = (tk['max'] - lvl) if q > 0 else (lvl - tk['min'])
            if abs(q) * hyd / cx.tank_area(t, lvl) > 0.5 * max(room, 0.0) and abs(q) > QTOL:
                return ts
    return None


def level_band(cx, A, k):
    """{tank: band} - two seconds of the tank's largest recent net flow, as level"""
    out = {}
    for t in cx.tanks:
        q = max(abs(A.node['demand'][t][i]) for i in range(max(0, k - 1), k + 1))
        lvl = A.node['head'][t][k] - cx.tank[t]['elev']
        out[t] = 2.0 * q / cx.tank_area(t, lvl) + 2e-3
    return out


def near_threshold(cx, A, B, k):
    """name of a tank whose level, in A or B, at step k or k-1, is within the band of a governing threshold, else None;
    also true when the level crossed a threshold between k-1 and k in one table (event inside the step)"""
    for kk in (k, k - 1):
        if kk < 0:
            continue
        for X in (A, B):
            if kk >= len(X.times):
                continue
            band = level_band(cx, X, kk)
            for t in cx.tanks:
                lvl = X.node['head'][t][kk] - cx.tank[t]['elev']
                for thr in cx.thr[t]:
                    if abs(lvl - thr) <= band[t]:
                        return t
    return None


def threshold_events(cx, T):
    """[(time, tank, 'limit'|'control')]: solved instants of the stepped EPANET run at which a tank stands within two
    seconds of flow of one of its own limits / of a control or rule level"""
    out = []
    for t in cx.tanks:
        tk = cx.tank[t]
        for i, ts in enumerate(T.all_times):
            lvl = T.tank_head[t][i] - tk['elev']
            q = max(abs(T.tank_inflow[t][j]) for j in range(max(0, i - 1), i + 1))
            band = 2.0 * q / cx.tank_area(t, lvl) + 2e-3
            for n, thr in enumerate(cx.thr[t]):
                if abs(lvl - thr) <= band:
                    out.append((ts, t, 'limit' if n < 2 else 'control'))
    return sorted(out)


def scales(cx, A, k, nodes, links):
    heads = [A.node['head'][n][k] for n in nodes]
    hs = max(1.0, max(heads) - min(heads))
    qs = max(1e-6, max([abs(A.link['flowrate'][l][k]) for l in links] + [0.0]))
    return hs, qs


def hw_k(p):
    """Hazen-Williams resistance of a pipe of the spec, SI (10.667 = 4.727 ft/cfs form of the EPANET manual converted)"""
    return 10.667 * p['len'] / (p['C'] ** 1.852 * p['diam'] ** 4.871)


def pump_gain(net, el, q):
    """head gain of a pump of the spec at flow q > 0 by the documented curve shapes (1 point: shut-off 4/3 h, 3 points
    with the first at q = 0: h0 - B q^C through the points, 2 points: straight line, power: P / (rho g q)); None if
    the flow is outside what the formula covers"""
    if q <= 1e-6:
        return None
    if el['type'] == 'POWER':
        return el['power'] / (9810.0 * q)
    pts = net['curves'][el['curve']]['pts']
    if len(pts) == 1:
        q1, h1 = pts[0]
        return 4.0 / 3.0 * h1 - h1 / 3.0 * (q / q1) ** 2
    if len(pts) == 2:
        (q0, h0), (q1, h1) = pts
        return h0 + (h1 - h0) * (q - q0) / (q1 - q0)
    if len(pts) == 3 and pts[0][0] == 0:
        (_z, h0), (q1, h1), (q2, h2) = pts
        c_ = math.log((h0 - h1) / (h0 - h2)) / math.log(q1 / q2)
        return h0 - (h0 - h1) / q1 ** c_ * q ** c_
    return None


class Allow(object):
    """Allowances of one report step for a comparison against reference table E (all derived from the spec).

    head uncertainty `w_sens` -> flows: a pipe whose end heads may each be off by w_sens can carry a flow that differs by
    what the Hazen-Williams law q = (h/K)^0.54 (minor losses only make it stiffer) gives for a head difference changed by
    2*w_sens; the bound is tightened by continuity (flow of a link = demand of an end junction + the other links there),
    which is also what bounds pumps, valves and the net inflow of tanks and reservoirs."""

    def __init__(self, cx):
        net = cx.net
        self.cx = cx
        self.pipes = {p['name']: p for p in net['pipes']}
        self.kk = {n: hw_k(p) for n, p in self.pipes.items()}
        self.at = {}
        for name, a, b, kind, el in cx.links:
            self.at.setdefault(a, []).append(name)
            self.at.setdefault(b, []).append(name)

    def flows(self, E, k, qbase, w_sens, extra, dtol):
        """-> (ltol per link, ntol per tank/reservoir).  extra: {pipe: additional flow allowance}"""
        cx, at = self.cx, self.at
        inf = float('inf')
        ltol = {}
        for name, a, b, kind, el in cx.links:
            if E.link['status'][name][k] == 0:
                ltol[name] = qbase
            elif name in self.pipes:
                sens = 0.0
                if w_sens > 0:
                    he = abs(E.node['head'][a][k] - E.node['head'][b][k])
                    qe = abs(E.link['flowrate'][name][k])
                    sens = 1.4 * (2.0 * w_sens / self.kk[name]) ** 0.54
                    if he > 2.0 * w_sens:
                        sens = min(sens, qe * (((he + 2.0 * w_sens) / (he - 2.0 * w_sens)) ** 0.54 - 1.0))
                ltol[name] = qbase + extra.get(name, 0.0) + sens
            else:
                ltol[name] = inf if w_sens > 0 else qbase
        if w_sens > 0:
            for _sweep in range(len(cx.junctions) + 1):
                changed = False
                for j in cx.junctions:
                    for x in at.get(j, ()):
                        if E.link['status'][x][k] == 0:
                            continue
                        cand = qbase + dtol[j] + sum(ltol[y] for y in at[j] if y != x)
                        if cand < ltol[x] * (1 - 1e-9):
                            ltol[x] = cand
                            changed = True
                if not changed:
                    break
            glob = sum(v for v in ltol.values() if v != inf) + sum(dtol.values())
            for x in ltol:
                if ltol[x] == inf:
                    ltol[x] = glob
        ntol = {n: qbase + sum(ltol[x] for x in at.get(n, ())) for n in cx.tanks + cx.reservoirs}
        return ltol, ntol


def off_pda_curve(cx, X, k):
    """EPANET's own PDA iteration sometimes stops at a state off its documented demand curve (seen: full demand
    delivered at 0.79 of the required pressure; two different states of a zone behind an active FCV in two unit
    systems): such a step is no reference.  -> junction name or None"""
    net = cx.net
    o = net['opts']
    for j in net['junctions']:
        full = S.expected_demand(net, j, X.times[k])
        if full <= 0:
            continue
        x = (X.node['pressure'][j['name']][k] - o['pmin']) / (o['preq'] - o['pmin'])
        lo, hi = [full * (0.0 if y <= 0 else (1.0 if y >= 1 else y ** o['pexp'])) for y in (x - 0.01, x + 0.01)]
        if not lo - 1e-3 * full - 1e-6 <= X.node['demand'][j['name']][k] <= hi + 1e-3 * full + 1e-6:
            return j['name']
    return None


def power_pump_stalled(cx, X, k):
    """an open constant-power pump with (almost) no flow: P = rho g q dH has no finite head there and EPANET reports an
    arbitrary one (seen: 150-250 m depending on the unit system, rho g q dH = 0.5 W for a 10 kW pump)"""
    for name, a, b, kind, el in cx.links:
        if kind == 'pump' and el['type'] == 'POWER' and X.link['status'][name][k] != 0 and abs(X.link['flowrate'][name][k]) < 1e-4:
            return name
    return None


def events_between(solved_times, hyd, t0, t1):
    """indices into solved_times within [t0, t1] and the number of them that are not hydraulic instants"""
    idx = [i for i, ts in enumerate(solved_times) if t0 <= ts <= t1]
    return idx, sum(1 for i in idx if solved_times[i] % hyd != 0)


def compare_same_engine(cx, A, B, nsteps, b_binary_status, solved_times, tank_inflow, thr_events=(), tol_rel=2e-3):
    """relation 1: two EPANET runs of what must be one model.  -> (kind, ...)

    heads/pressures within tol_rel*Hscale + 1e-4 m, flows/demands within tol_rel*Qscale + Qtol (2.8e-6 m3/s).  Tanks integrate the
    small flow differences that EPANET's own short unit constants cause (up to 1.2e-4 relative): a tank head may differ by
    5e-4 of the level it has travelled so far, plus 1 s of inflow per event between hydraulic instants (event times are
    whole seconds computed in file units); that head uncertainty is propagated to the flows with the pipe law.
    """
    o = cx.net['opts']
    al = Allow(cx)
    worst = 0.0
    travel = {t: 0.0 for t in cx.tanks}
    slip = {t: 0.0 for t in cx.tanks}

    def at_threshold(k):
        lo = A.times[k - 1] if k > 0 else -1
        return near_threshold(cx, A, B, k) or any(lo < ev[0] <= A.times[k] for ev in thr_events)

    for k in range(nsteps):
        for l in cx.lnames:
            sa, sb = A.link['status'][l][k], B.link['status'][l][k]
            same = ((sa == 0) == (sb == 0)) if b_binary_status else (sa == sb)
            if not same:
                if at_threshold(k):
                    return ('cut', 'status_band', k, worst)
                qa, qb = abs(A.link['flowrate'][l][k]), abs(B.link['flowrate'][l][k])
                if cx.lkind[l] not in ('pipe',) and min(qa, qb) <= 10 * QTOL:
                    return ('cut', 'status_qtol', k, worst)
                return ('fail', 'status', cx.lkind[l], 't=%d link %s (%s): status %s vs %s, flow %.6g vs %.6g'
                        % (A.times[k], l, cx.lkind[l], sa, sb, A.link['flowrate'][l][k], B.link['flowrate'][l][k]), k, worst)
        hs, qs = scales(cx, A, k, cx.nnames, cx.lnames)
        tank_term = 0.0
        for t in cx.tanks:
            if k > 0:
                travel[t] += abs(A.node['head'][t][k] - A.node['head'][t][k - 1])
                idx, nev = events_between(solved_times, o['hyd'], A.times[k - 1], A.times[k])
                if nev:
                    lv = [A.node['head'][t][i] - cx.tank[t]['elev'] for i in (k - 1, k)]
                    area = min(cx.tank_area(t, lv[0]), cx.tank_area(t, lv[1]))
                    slip[t] += 1.0 * nev * max(abs(tank_inflow[t][i]) for i in idx) / area
            tank_term = max(tank_term, 5e-4 * travel[t] + slip[t])
        w = 1e-4 + tol_rel * hs + tank_term
        qbase = QTOL + tol_rel * qs      # below EPANET's own Qtol a flow is numerical noise (seen: +-5e-8 in a still network)
        dtol = {j: qbase for j in cx.junctions}
        ltol, ntol = al.flows(A, k, qbase, tank_term, {}, dtol)
        # inputs first (boundary heads, demands), then states, so that the first failing quantity names the root cause
        groups = (('head', cx.reservoirs, 'node', lambda n: w), ('demand', cx.junctions, 'node', lambda n: dtol[n]),
                  ('head', cx.tanks, 'node', lambda n: w), ('flowrate', cx.lnames, 'link', lambda n: ltol[n]),
                  ('head', cx.junctions, 'node', lambda n: w), ('pressure', cx.nnames, 'node', lambda n: w),
                  ('demand', cx.tanks + cx.reservoirs, 'node', lambda n: ntol[n]))
        for key, names, table, tolf in groups:
            ta = getattr(A, table)[key]
            tb = getattr(B, table)[key]
            sc = hs if key in ('head', 'pressure') else qs
            for n in names:
                d = abs(ta[n][k] - tb[n][k])
                worst = max(worst, d / sc)
                if not d <= tolf(n):
                    if at_threshold(k):
                        return ('cut', 'value_band', k, worst)
                    if o['demand_model'] == 'PDD' and (off_pda_curve(cx, A, k) or off_pda_curve(cx, B, k)):
                        return ('cut', 'epanet_off_its_pda_curve', k, worst)
                    if power_pump_stalled(cx, A, k) or power_pump_stalled(cx, B, k):
                        return ('cut', 'power_pump_at_zero_flow', k, worst)
                    cls = cx.nkind[n] if table == 'node' else cx.lkind[n]
                    return ('fail', key, cls, 't=%d %s %s (%s): %.9g vs %.9g, |diff| %.3g = %.3g of the step scale %.6g '
                            '(allowance %.3g; tank term %.3g m)'
                            % (A.times[k], key, n, cls, ta[n][k], tb[n][k], d, d / sc, sc, tolf(n), tank_term), k, worst)
        if not b_binary_status:
            for l in cx.lnames:
                if cx.lkind[l] in ('PRV', 'PSV', 'FCV', 'TCV'):
                    a_, b_ = A.link['setting'][l][k], B.link['setting'][l][k]
                    if not abs(a_ - b_) <= 1e-3 * max(abs(a_), abs(b_)) + 1e-6:
                        return ('fail', 'setting', cx.lkind[l], 't=%d valve %s (%s): reported setting %.9g vs %.9g'
                                % (A.times[k], l, cx.lkind[l], a_, b_), k, worst)
    return (None, None, nsteps, worst)


def pump2pt_law_violation(cx, W):
    """a WNTR result that leaves the straight line through a 2-point head curve (C02 finding) -> text, else None"""
    for name, a, b, kind, el in cx.links:
        if kind != 'pump' or el['type'] != 'HEAD':
            continue
        pts = cx.net['curves'][el['curve']]['pts']
        if len(pts) != 2:
            continue
        (q0, h0), (q1, h1) = pts
        for k in range(len(W.times)):
            q = W.link['flowrate'][name][k]
            if W.link['status'][name][k] == 0 or q <= 1e-6:
                continue
            gain = W.node['head'][b][k] - W.node['head'][a][k]
            line = h0 + (h1 - h0) * (q - q0) / (q1 - q0)
            if abs(gain - line) > 1e-3 * max(abs(h0), abs(h1)) + 1e-3:
                return ('t=%d pump %s with the 2-point curve %r: WNTR flow %.6g, head gain %.6g, straight line through the '
                        'points gives %.6g' % (W.times[k], name, pts, q, gain, line))
    return None


def w_law_violation(cx, W):
    """WNTR results that break an element law of the spec in a way that belongs to C02 -> (key, text) or None"""
    txt = pump2pt_law_violation(cx, W)
    if txt:
        return 'pump_curve_2pt', txt
    for name, a, b, kind, el in cx.links:
        if kind == 'pump' and el['type'] == 'POWER':
            for k in range(len(W.times)):
                if W.link['status'][name][k] != 0 and W.link['flowrate'][name][k] < -10 * QTOL:
                    return 'power_pump_reverse_flow', ('t=%d power pump %s is open with flow %.6g m3/s (negative branch of '
                                                       'P = rho g q dH)' % (W.times[k], name, W.link['flowrate'][name][k]))
    return None


def compare_w(cx, E, W, nsteps, solved_times, tank_inflow, thr_events=()):
    """relation 2/3: WNTRSimulator against EpanetSimulator.  -> (kind, ...)
    solved_times: every instant at which EPANET solved the hydraulics of this model (from the stepped run T)

    Allowances of a step (derived from the spec and the documented model differences, none fitted):
      head  w = 5e-3 m (convergence) + 1e-5*Hscale (float32) + 5e-4 * largest head change across one open link (EPANET
                stops when the last flow change is below ACCURACY; residual flow errors of 2e-4 relative were seen in PDA
                runs, times the H-W exponent) + 1e-3 * head gain of open power pumps
                (EPANET gamma = 62.4 lb/ft3 = 9802 N/m3, WNTR 9810: 8e-4) + 1e-3 * largest minor-loss head (g = 32.2 ft/s2
                vs 9.81 m/s2: 4.6e-4) + tank term + sum over open pipes inside WNTR's low-flow band of K*q2^1.852
      tank term = 2 s of the inflow per event between hydraulic instants + integral of the allowed inflow mismatch
      flows: 1e-5 + 1e-3*Qscale (suite threshold) (+ q2 inside the band) + class Allow
    """
    net = cx.net
    o = net['opts']
    pdd = o['demand_model'] == 'PDD'
    al = Allow(cx)
    slip = {t: 0.0 for t in cx.tanks}
    drift = {t: 0.0 for t in cx.tanks}
    prev_ntol = None
    worst = {'head': 0.0, 'flow': 0.0}
    jdem = {j['name']: j for j in net['junctions']}
    offgrid = sorted(t for t in solved_times if t % o['hyd'] != 0)
    minor_k = {}
    for name, a, b, kind, el in cx.links:
        if kind == 'pipe':
            minor_k[name] = (el['minor'], el['diam'])
        elif kind == 'valve':
            minor_k[name] = (el['minor'] + (el['setting'] if el['type'] == 'TCV' else 0.0), el['diam'])
    for k in range(nsteps):
        if o['rep'] > o['hyd'] and offgrid and offgrid[0] < E.times[k]:
            # after an event between two hydraulic instants EPANET continues in hydraulic steps counted from the
            # event until the next report instant, WNTRSimulator returns to the fixed grid: different (legitimate)
            # Euler discretisations of the tank levels
            return ('cut', 'offgrid_event_with_report_step_gt_hyd_step', k, worst)
        if any(ev[0] <= E.times[k] and ev[2] == 'limit' and (ev[0] > 0 or k > 0) for ev in thr_events):
            # a tank has reached its minimum or maximum level: what happens at and after that instant is handled
            # differently by the engines (EPANET shuts every link that would drain/fill it until its next solution and
            # clamps the level; WNTRSimulator overshoots by up to a second of flow and re-opens on its own grid)
            return ('cut', 'tank_limit_reached', k, worst)
        # --- status configuration
        diff = []
        for l in cx.lnames:
            se, sw = E.link['status'][l][k], W.link['status'][l][k]
            if cx.lkind[l] in ('PRV', 'PSV', 'FCV'):
                same = se == sw
            else:
                same = (se == 0) == (sw == 0)
            if not same:
                diff.append(l)
        if diff:
            l = diff[0]
            if all(x in cx.time_driven and cx.lkind[x] == 'pipe' and not (set(cx.ends[x]) & set(cx.tanks)) for x in diff):
                return ('fail', 'status_time_driven', cx.lkind[l],
                        't=%d link %s is driven by time controls/rules only: EpanetSimulator status %s, WNTRSimulator %s'
                        % (E.times[k], l, E.link['status'][l][k], W.link['status'][l][k]), k, worst)
            why = 'level_band' if near_threshold(cx, E, W, k) else 'hydraulic'
            return ('cut', 'status_divergence/' + why + '/' + cx.lkind[l], k, worst)
        if pdd and off_pda_curve(cx, E, k):
            return ('cut', 'epanet_off_its_pda_curve', k, worst)
        # --- allowances of this step
        hs, qs = scales(cx, E, k, cx.nnames, cx.lnames)
        tank_term = 0.0
        for t in cx.tanks:
            if k > 0:
                lv = [E.node['head'][t][i] - cx.tank[t]['elev'] for i in (k - 1, k)]
                area = min(cx.tank_area(t, lv[0]), cx.tank_area(t, lv[1]))
                # every event between two hydraulic instants happens up to 2 s apart in the two engines (whole seconds,
                # one truncates, one rounds up): the level keeps 2 s of the flow that was running into the event
                idx, nev = events_between(solved_times, o['hyd'], E.times[k - 1], E.times[k])
                if nev:
                    slip[t] += 2.0 * nev * max(abs(tank_inflow[t][i]) for i in idx) / area
                drift[t] += prev_ntol[t] * (E.times[k] - E.times[k - 1]) / area
                tank_term = max(tank_term, slip[t] + drift[t])
        band = {}
        for n in al.pipes:
            if E.link['status'][n][k] != 0 and min(abs(E.link['flowrate'][n][k]), abs(W.link['flowrate'][n][k])) < Q2:
                band[n] = al.kk[n] * Q2 ** 1.852
        gain = 0.0
        for name, a, b, kind, el in cx.links:
            if kind == 'pump' and el['type'] == 'POWER' and E.link['status'][name][k] != 0:
                gain += abs(E.node['head'][b][k] - E.node['head'][a][k])
        mloss = 0.0
        for name, (mk, dm) in minor_k.items():
            if mk > 0 and E.link['status'][name][k] != 0:
                mloss = max(mloss, 8.0 * mk * E.link['flowrate'][name][k] ** 2 / (9.81 * math.pi ** 2 * dm ** 4))
        elem = max([abs(E.node['head'][a][k] - E.node['head'][b][k]) for name, a, b, kind, el in cx.links
                    if E.link['status'][name][k] != 0] + [0.0])
        # head losses follow the flows: where the two flow fields differ (each flow is judged on its own below, in PDD
        # the demands may legitimately differ inside WNTR's smoothing band), the heads differ by at most the sum of the
        # changes of the pipes' head losses (spec's K and minor-loss coefficient)
        follow = 0.0
        for nm, pp in al.pipes.items():
            if E.link['status'][nm][k] != 0:
                qe_, qw_ = abs(E.link['flowrate'][nm][k]), abs(W.link['flowrate'][nm][k])
                mm = 8.0 * pp['minor'] / (9.81 * math.pi ** 2 * pp['diam'] ** 4)
                follow += abs(al.kk[nm] * (qe_ ** 1.852 - qw_ ** 1.852) + mm * (qe_ ** 2 - qw_ ** 2))
        for name, a, b, kind, el in cx.links:       # ... and of the pumps' head gains (steep near the end of a curve)
            if kind == 'pump' and E.link['status'][name][k] != 0:
                ge, gw = pump_gain(net, el, E.link['flowrate'][name][k]), pump_gain(net, el, W.link['flowrate'][name][k])
                if ge is not None and gw is not None:
                    follow += abs(ge - gw)
        w = 5e-3 + 1e-5 * hs + 5e-4 * elem + 1e-3 * gain + 1e-3 * mloss + tank_term + sum(band.values())
        w_head = w + follow      # the flows themselves are judged with w only, so a flow error cannot excuse itself
        qbase = 1e-5 + 1e-3 * qs
        dtol = {}
        for j in cx.junctions:
            if pdd:
                full = S.expected_demand(net, jdem[j], E.times[k])
                dtol[j] = qbase + abs(full) * min(1.0, ((w + 0.05) / (o['preq'] - o['pmin'])) ** o['pexp'])
            else:
                dtol[j] = 1e-7 + 1e-5 * abs(E.node['demand'][j][k])
        ltol, ntol = al.flows(E, k, qbase, w, {n: Q2 for n in band}, dtol)
        prev_ntol = ntol
        groups = (('head', cx.reservoirs, 'node', lambda n: 1e-4 + 1e-6 * abs(E.node['head'][n][k])),
                  ('head', cx.tanks, 'node', lambda n: 5e-3 + 1e-5 * hs + (slip[n] + drift[n])),
                  ('demand', cx.junctions, 'node', lambda n: dtol[n]),
                  ('flowrate', cx.lnames, 'link', lambda n: ltol[n]),
                  ('head', cx.junctions, 'node', lambda n: w_head),
                  ('pressure', cx.junctions + cx.tanks, 'node', lambda n: w_head),
                  ('demand', cx.tanks + cx.reservoirs, 'node', lambda n: ntol[n]))
        for key, names, table, tolf in groups:
            te = getattr(E, table)[key]
            tw = getattr(W, table)[key]
            for n in names:
                d = abs(te[n][k] - tw[n][k])
                tol = tolf(n)
                wk = 'head' if key in ('head', 'pressure') else 'flow'
                worst[wk] = max(worst[wk], d / (hs if wk == 'head' else qs))
                if not d <= tol:
                    cls = cx.nkind[n] if table == 'node' else cx.lkind[n]
                    if power_pump_stalled(cx, E, k):
                        return ('cut', 'power_pump_at_zero_flow', k, worst)
                    if near_threshold(cx, E, W, k):
                        # a tank sits on one of its limits or on a control level: the engines handle the instant of
                        # reaching it differently (EPANET ignores a time-to-drain that rounds to 0 s and clamps)
                        return ('cut', 'value_at_tank_threshold', k, worst)
                    return ('fail', key, cls,
                            't=%d %s %s (%s): EpanetSimulator %.9g, WNTRSimulator %.9g, |diff| %.3g > allowance %.3g '
                            '(step scales: head %.4g m, flow %.4g m3/s; head allowance %.3g m of which tank term %.3g m, '
                            'power-pump gain %.3g m, minor loss %.3g m, low-flow pipes %s)'
                            % (E.times[k], key, n, cls, te[n][k], tw[n][k], d, tol, hs, qs, w, tank_term, gain, mloss,
                               sorted(band)), k, worst)
    return (None, None, nsteps, worst)


def pattern_off_grid(o):
    """some pattern period starts strictly inside a hydraulic step"""
    return o['pat'] % o['hyd'] != 0 or o['pattern_start'] % o['hyd'] != 0


def case_tags(case):
    net = case['net']
    keep = ('parallel_links', 'loops', 'multi_source', 'tanks', 'vol_curve_tank', 'multi_demand', 'pattern_start',
            'demand_multiplier', 'cv_pipe', 'closed_pipe', 'head_pattern', 'pump_at_tank')
    tags = [t for t in netgen.features(net) if t in keep or t.split(':')[0] in ('mode', 'pump', 'pumpcurve', 'valve')]
    tags += ['u1:' + case['u1'], 'u2:' + case['u2'], 'ut:' + case['ut']]
    tags += ['unit:' + u for u in (case['u1'], case['u2'], case['ut'])]
    if net['opts']['start_clocktime']:
        tags.append('start_clocktime')
    if pattern_off_grid(net['opts']):
        tags.append('pattern_change_inside_hyd_step')
    for c in case['controls']:
        tags.append('ctl:' + ('level' if c['kind'] == 'level' else ('clocktime' if c.get('clock') else 'time')))
        if not isinstance(c['value'], str):
            tags.append('ctl:valve_setting')
    for r in case['rules']:
        kinds = sorted(set(cl[0] for cl in r['if']))
        tags.append('rule:' + '+'.join(kinds))
        if r['else']:
            tags.append('rule:else')
        if len(r['if']) > 1:
            tags.append('rule:' + r['join'].lower())
    if not case['controls'] and not case['rules']:
        tags.append('no_controls')
    if case.get('prelude'):
        tags.append('history:simulated_with_other_pump_curves_then_reassigned')
    tn = set(t['name'] for t in net['tanks'])
    if any(v['a'] in tn or v['b'] in tn for v in net['valves']):
        tags.append('valve_at_tank')
    tags += list(case.get('excluded', ()))
    return tags


def check(case):
    out, _diag = evaluate(case)
    return out


def evaluate(case):
    """-> (Outcome, diagnostics dict)"""
    import wntr
    diag = {}
    net = case['net']
    o = net['opts']
    tags = case_tags(case)
    cx = Ctx(case)
    pid = os.getpid()
    # ------------------------------------------------------------------ E1, E2
    try:
        wn = build_model(case)
    except Exception as e:
        return fail(exc_bucket(e, 'build'), 'building the model raised %r' % e, tags), diag
    runs = {}
    for key, units in (('E1', case['u1']), ('E2', case['u2'])):
        try:
            runs[key] = run_epanet_sim(wn, units, 'c03%s_%d' % (key, pid))
        except Exception as e:
            return _epanet_failure(e, 'c03%s_%d.inp' % (key, pid), 'EpanetSimulator with inpfile_units=%s' % units, tags), diag
    E1, E2 = runs['E1'], runs['E2']
    if not E1.ok or not E2.ok:
        if E1.ok != E2.ok:
            tags.append('epanet_converged_in_one_unit_system_only')
        return inconclusive('EPANET run incomplete (unbalanced / halted)', tags), diag
    nexp = o['duration'] // o['rep'] + 1
    if len(E1.times) != nexp or any(int(t) != k * o['rep'] for k, t in enumerate(E1.times)):
        return fail('report_grid/E1', 'EpanetSimulator reported times %s, expected %d steps of %d s'
                    % (list(E1.times[:6]), nexp, o['rep']), tags), diag
    # ------------------------------------------------------------------ T (EPANET itself on the independent text)
    text = U.inp_text(net, case['ut'], case['controls'], case['rules'], accuracy=1e-5, trials=200, style=case.get('style', 0))
    try:
        T = D.run(text, case['ut'], net, prefix='c03T_%d' % pid)
    except Exception as e:
        if '(Error 110)' in str(e):
            return inconclusive('EPANET error 110 (cannot solve the hydraulic equations)', tags), diag
        # EPANET refusing the harness' own text is a harness problem, not a finding
        return inconclusive('EPANET rejected the independent INP text: %s' % str(e)[:80], tags + ['HARNESS:text_rejected']), diag
    if T.halted or any('balanced' in w or 'converge' in w for w in T.warn):
        return inconclusive('EPANET (direct) run incomplete (unbalanced / halted)', tags), diag
    Tt = Tab()
    Tt.times, Tt.node, Tt.ok = T.times, T.node, True
    Tt.link = {'flowrate': T.link['flowrate'], 'status': T.link['open'], 'setting': T.link['setting']}
    # ------------------------------------------------------------------ R (WNTR reader on the same text)
    try:
        wn_r = wntr.network.read_inpfile('c03T_%d.inp' % pid)
    except Exception as e:
        return fail(exc_bucket(e, 'reader'), 'read_inpfile of an INP text that EPANET accepts raised %r\n%s' % (e, text[:1500]), tags), diag
    try:
        R = run_epanet_sim(wn_r, None, 'c03R_%d' % pid)
    except Exception as e:
        return _epanet_failure(e, 'c03R_%d.inp' % pid, 'EpanetSimulator on the model read from the text (units %s)' % case['ut'], tags), diag
    if not R.ok:
        return inconclusive('EPANET run of the re-read model incomplete', tags), diag
    for label, X in (('E1', E1), ('E2', E2), ('R', R)):
        missing = [x for x in cx.nnames if x not in X.node['head']] + [x for x in cx.lnames if x not in X.link['flowrate']]
        if missing:
            return fail('missing_in_results/%s' % ('reader' if label == 'R' else 'epanetsim'),
                        '%s: no result column for %s' % (label, missing[:5]), tags), diag
    # ------------------------------------------------------------------ isolation guard
    n = min(len(E1.times), len(E2.times), len(Tt.times), len(R.times))
    cut = first_isolated_step(cx, E1)
    if cut is not None:
        tags.append('cut:isolation')
        n = min(n, cut)
    if n == 0:
        return inconclusive('a junction is cut off from every source at t = 0 (no defined EPANET solution)', tags), diag
    # EPANET run on the independent text (no WNTR writer involved) reporting heads of minus 1e5 m and worse: the model
    # asks for something infeasible (seen: an active FCV set to 0.5 L/s in front of a demand-driven dead end that draws
    # 5 L/s: heads of -5e6 m behind it, flow through the valve 5.17 or 5.28 L/s depending on the unit system, continuity
    # broken at the next junction); EPANET's numbers there are artefacts of its 1e8 resistance for throttled links
    bad = [k for k in range(min(n, len(Tt.times))) if any(Tt.node['head'][j][k] < -1e5 for j in cx.junctions)]
    if bad:
        tags.append('cut:epanet_infeasible_heads')
        n = min(n, bad[0])
        if n == 0:
            return inconclusive('EPANET itself reports heads below -1e5 m at t = 0 (infeasible model, e.g. FCV in front of '
                                'a larger fixed demand)', tags), diag
    tu = epanet_unstable_from(['c03%s_%d.rpt' % (k_, pid) for k_ in ('E1', 'E2', 'R', 'T')])
    if tu is not None:
        keep = sum(1 for t in E1.times[:n] if t < tu)
        if keep < n:
            tags.append('cut:epanet_warns_unstable')
            n = keep
        if n == 0:
            return inconclusive('EPANET warns that its own solution at t = 0 is unstable / unbalanced', tags), diag
    tz = zigzag_time(cx, T)
    if tz is not None:
        keep = sum(1 for t in E1.times[:n] if t < tz)
        if keep < n:
            tags.append('cut:tank_zigzag')
            n = keep
    if n == 0:
        return inconclusive('a tank level zig-zags from the first hydraulic step on (unstable explicit tank integration)', tags), diag
    tc = chatter_time(cx, T)
    if tc is not None:
        keep = sum(1 for t in E1.times[:n] if t < tc)
        if keep < n:
            tags.append('cut:relay_chatter')
            n = keep
    if n == 0:
        return inconclusive('an uncommanded link opens and closes from the first steps on (relay oscillation)', tags), diag
    tf = fast_tank_time(cx, T)
    n_w = n if tf is None else sum(1 for t in E1.times[:n] if t <= tf)
    thr_ev = threshold_events(cx, T)
    # ------------------------------------------------------------------ relation 1
    decided = 0
    compared = n
    for label, A, B, binary in (('e1_vs_e2', E1, E2, False), ('e1_vs_text', E1, Tt, True), ('reader_vs_text', R, Tt, True)):
        res = compare_same_engine(cx, A, B, n, binary, T.all_times, T.tank_inflow, thr_ev)
        diag[label] = res[-1]
        if res[0] == 'fail':
            _f, qty, cls, detail = res[:4]
            units = {'e1_vs_e2': '%s vs %s' % (case['u1'], case['u2']), 'e1_vs_text': '%s vs text in %s' % (case['u1'], case['ut']),
                     'reader_vs_text': 'text in %s' % case['ut']}[label]
            if label == 'e1_vs_e2':
                # name the unit system that disagrees with EPANET's own run of the independent text
                r1 = compare_same_engine(cx, E1, Tt, n, True, T.all_times, T.tank_inflow, thr_ev)
                r2 = compare_same_engine(cx, E2, Tt, n, True, T.all_times, T.tank_inflow, thr_ev)
                culprit = case['u2'] if (r1[0] != 'fail' and r2[0] == 'fail') else (case['u1'] if (r1[0] == 'fail' and r2[0] != 'fail') else 'both')
                bucket = 'unit_invariance/%s/%s/%s' % (qty, cls, U.family(culprit) if culprit != 'both' else 'both')
                detail += '\nunit system disagreeing with EPANET on the independent text: %s' % culprit
            elif label == 'e1_vs_text':
                bucket = 'epanetsim_vs_epanet/%s/%s/%s' % (qty, cls, U.family(case['u1']))
            else:
                bucket = 'reader_vs_epanet/%s/%s/%s' % (qty, cls, U.family(case['ut']))
            return fail(bucket, '[%s, %s] %s' % (label, units, detail), tags), diag
        if res[0] == 'cut':
            tags.append('cut:%s:%s' % (label, res[1]))
            compared = min(compared, res[2])
        else:
            decided += 1
    # ------------------------------------------------------------------ relation 2 / 3
    w_steps = 0
    if case.get('run_w', True):
        wn_w = build_model(case)
        run = S.run_wntr(wn_w, hw_approx=o['hw_approx'], tol=1e-8)
        if run.exception is not None:
            tags.append('w:raised:%s' % type(run.exception).__name__)
            return inconclusive('WNTRSimulator raised %s' % type(run.exception).__name__, tags), diag
        if not run.ok:
            return inconclusive('WNTRSimulator not converged', tags), diag
        W = Tab()
        W.times, W.node, W.link, W.ok = run.times, run.node, run.link, True
        if len(W.times) != nexp or any(int(t) != k * o['rep'] for k, t in enumerate(W.times)):
            return fail('report_grid/W', 'WNTRSimulator reported times %s..., expected %d steps of %d s'
                        % (list(W.times[:6]), nexp, o['rep']), tags), diag
        known = w_law_violation(cx, W)
        if n_w < n:
            tags.append('cut:w:fast_tank')
        res = compare_w(cx, E1, W, n_w, T.all_times, T.tank_inflow, thr_ev)
        diag['w_vs_e1'] = res[-1]
        if res[0] == 'fail':
            _f, qty, cls, detail = res[:4]
            if known:
                return fail('w_vs_e1/' + known[0], detail + '\n' + known[1], tags), diag
            if pattern_off_grid(o):
                # did WNTRSimulator skip an instant at which a pattern period begins and EPANET solved?
                t_fail = E1.times[res[4]]
                starts = [ts for ts in T.all_times if 0 < ts <= t_fail and (ts + o['pattern_start']) % o['pat'] == 0
                          and ts % o['hyd'] != 0]
                wn_all = build_model(case)
                wn_all.options.time.report_timestep = 'ALL'
                wn_all.options.time.duration = int(t_fail)
                run_all = S.run_wntr(wn_all, hw_approx=o['hw_approx'], tol=1e-8)
                w_times = set(int(x) for x in run_all.times) if run_all.exception is None else set()
                skipped = [ts for ts in starts if ts not in w_times]
                if skipped:
                    return fail('w_vs_e1/pattern_change_inside_hyd_step',
                                detail + '\nhydraulic step %d s, pattern step %d s, pattern start %d s: a pattern period begins '
                                'at t = %s inside a hydraulic step; EPANET solves at that instant, WNTRSimulator did not '
                                '(it solved at %s)' % (o['hyd'], o['pat'], o['pattern_start'], skipped[:4], sorted(w_times)[:12]),
                                tags), diag
            return fail('w_vs_e1/%s/%s' % (qty, cls), detail, tags), diag
        if res[0] == 'cut':
            tags.append('cut:w:' + res[1])
        w_steps = res[2]
        tags.append('w_steps:%s' % ('0' if w_steps == 0 else ('1-2' if w_steps < 3 else '>=3')))
    nontrivial_net = bool(net['tanks'] or net['pumps'] or net['valves'] or any(p['cv'] for p in net['pipes']))
    if case.get('run_w', True) and w_steps == 0:
        return inconclusive('status configurations of the two engines differ from t = 0', tags), diag
    steps = min(compared, w_steps) if case.get('run_w', True) else compared
    return passed(steps >= 3 and nontrivial_net and decided == 3, tags), diag
