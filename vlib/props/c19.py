"""C19 - split_pipe / break_pipe / skeletonize keep what they promise to keep.

Two sub-checks, selected by case['mode']:

'split'  split_pipe / break_pipe on a generated network.  Oracle = the model's to_dict() before and after,
         compared by element name against what the statement promises (reference geometry: own arc-length
         interpolation along start node -> vertices -> end node), plus (split only) a metamorphic comparison
         of two WNTRSimulator runs, original model vs split model.
'skel'   skeletonize on a generated network seeded with small-diameter branches, series and parallel pipes,
         controls and rules.  Oracle = required elements read from the generated spec, an own evaluator of
         sum_j demand_j(t) on the spec (before) and on the to_dict() of the result (after), and the partition
         property of the returned map.
"""
import json
import math

from hypothesis import strategies as st

from .. import netgen, spec as S
from ..outcome import CaseTimeout, exc_bucket, fail, inconclusive, passed

ID = 'C19'
LEVEL = 'exploration'
CASES = {'quick': 1600, 'thorough': 20000}
CASE_TIMEOUT = 40
TECHNIQUE = ('property-based testing (Hypothesis): generated networks and edit parameters; oracle = element-wise '
             'comparison of to_dict() before/after against a reference written from the statement (arc-length '
             'interpolation, own demand evaluator, partition test) and a metamorphic simulation comparison '
             '(original vs split model)')
RULE = ('mode split (about 60 % of the cases): network spec from the shared generator (2-6 junctions, loops, tanks, '
        'reservoirs, pumps, valves, CV and closed pipes, DD or PDD; three of four constant-power pumps are turned into '
        'single-point head pumps to keep non-converged runs rare) with node coordinates, 0-4 vertices per pipe and, in '
        'a quarter of the cases, 1-2 simple controls; '
        'target pipe chosen by a drawn class (any / CV / closed / ends at tank / ends at reservoir), fraction from '
        '{0, 1, 0.5, 0.25, 0.02, 0.98, 1e-9} or uniform [0,1], add_pipe_at_end and return_copy both ways, split or '
        'break; a fixed 2x2x2x5 table of (op, end, CV, fraction) on a pipe with vertices is enumerated in addition. '
        'mode skel: spec from the shared generator (3-8 junctions) plus seeded dead-end chains, subdivided (series) '
        'pipes and parallel twins with small diameters, 0-3 simple controls and 0-2 rules referencing pipes, pumps, '
        'valves, junctions and tanks, exclusion lists, threshold from the generated diameters and in between, the '
        'three option flags, max_cycles, use_epanet, return_copy. Non-trivial: split = all structural oracles were '
        'evaluated and (break, or no simulation requested, or the compared simulations carry non-zero flow through '
        'the split pipe); skel = at least one junction or pipe was removed. Distinct = SHA-1 of the case.')
ASSUMPTIONS = [
    'runs that WNTR reports as not converged (either model) make the hydraulic comparison inconclusive; the '
    'structural oracles are still decided first',
    'the documented copy of the minor-loss coefficient to the new pipe doubles the minor loss of the split pipe: for '
    'minor_loss > 0 the split model is compared with the original model carrying 2*K on that pipe (the only '
    'documented change), for K = 0 with the unchanged original',
    'new junction elevation is asserted only when both end nodes have an elevation (junction or tank)',
    'an exception raised inside the single-period simulation that skeletonize runs in its constructor (EPANET error, '
    'non-converged WNTR run) is inconclusive, not a violation',
    'a vertex whose arc-length position equals the split position (within 1e-9 of the polyline length) may go to '
    'either half',
    'skeletonize: existence by name and type is demanded for kept elements, nothing about their attributes',
]
TOLERANCES = {
    'length_rel': '1e-12 of the original length (two float multiplications)',
    'coordinates': '1e-9*(1 + polyline length + max |coordinate|) (a dozen float operations)',
    'elevation': '1e-9*(1 + max |elevation|)',
    'head_abs_m': '1e-4 m (design; Newton TOL is tightened to 1e-8 for both runs so solver noise stays ~1e-7)',
    'flow_abs_m3s': '1e-6 m3/s + 1e-6 relative (design)',
    'demand_sum_rel': '1e-12 * sum |base*multiplier| (re-ordered float sum)',
}
LEVEL_TEXT = ('exploration: sampled networks, pipes, fractions and option combinations; every promised item is '
              'compared for each sampled case')
LEVEL_NOTE = ('trusted base: WaterNetworkModel.to_dict() as the observation of a model, the shared spec builder, '
              'WNTRSimulator for the metamorphic part (same engine on both sides)')
SHRINK_BUDGET = {'quick': 45, 'thorough': 240}

FEAT_SPLIT = {'nj': (2, 6), 'tanks': (0, 2), 'extra_res': (0, 1), 'pumps': True, 'valves': True, 'cvs': True,
              'closed': True, 'leaks': False, 'vol_curves': False, 'tank_links_special': True, 'booster': False,
              'wild': 0.0, 'durations': [0, 3600, 4 * 3600], 'hyd_steps': [1800, 3600], 'report_all': False,
              'max_extra_links': 2}
FEAT_SKEL = {'nj': (3, 8), 'tanks': (0, 2), 'extra_res': (0, 1), 'pumps': True, 'valves': True, 'cvs': True,
             'closed': False, 'leaks': False, 'vol_curves': False, 'tank_links_special': True, 'booster': True,
             'wild': 0.0, 'durations': [0, 3600], 'hyd_steps': [3600], 'report_all': False, 'max_extra_links': 3}
SMALL_DIAMS = [0.05, 0.075, 0.1, 0.15]
THRESHOLDS = [0.0, 0.05, 0.075, 0.1, 0.15, 0.15, 0.2, 0.2, 0.25, 0.3, 0.3, 0.4, 0.5, 0.5, 1.0, 1.0]
NEW_PIPE, NEW_J0, NEW_J1 = 'NEWP', 'NEWJ_a', 'NEWJ_b'


# ------------------------------------------------------------------------------------------------ helpers
def _jd(o):
    try:
        import numpy as np
        if isinstance(o, np.integer):
            return int(o)
        if isinstance(o, np.floating):
            return float(o)
        if isinstance(o, np.ndarray):
            return o.tolist()
    except Exception:
        pass
    return repr(o)


def _snap(wn):
    """plain-data image of a model: to_dict() normalised through JSON, nodes/links keyed by name"""
    d = json.loads(json.dumps(wn.to_dict(), default=_jd, sort_keys=True))
    d['nodes'] = {n['name']: n for n in d['nodes']}
    d['links'] = {l['name']: l for l in d['links']}
    return d


def _build(spec, rules=()):
    wn = S.build_wn(spec)
    for p in spec['pipes']:
        if p.get('vertices'):
            wn.get_link(p['name']).vertices = [(float(x), float(y)) for x, y in p['vertices']]
    if rules:
        _add_rules(wn, rules)
    return wn


def _add_rules(wn, rules):
    from wntr.network import LinkStatus
    from wntr.network.controls import (AndCondition, ControlAction, OrCondition, Rule, SimTimeCondition,
                                       ValueCondition)

    def cond(c):
        if c[0] == 'time':
            return SimTimeCondition(wn, c[1], int(c[2]))
        if c[0] == 'node':
            return ValueCondition(wn.get_node(c[1]), c[2], c[3], c[4])
        return ValueCondition(wn.get_link(c[1]), c[2], c[3], c[4])

    def act(a):
        link = wn.get_link(a[0])
        val = a[2]
        if a[1] == 'status':
            val = {'OPEN': LinkStatus.Open, 'CLOSED': LinkStatus.Closed, 'ACTIVE': LinkStatus.Active}[val]
        return ControlAction(link, a[1], val)

    for r in rules:
        c = cond(r['if'][0])
        for nxt in r['if'][1:]:
            c = (AndCondition if r['join'] == 'AND' else OrCondition)(c, cond(nxt))
        wn.add_control(r['name'], Rule(c, [act(a) for a in r['then']], [act(a) for a in r.get('else', [])],
                                       priority=r.get('priority', 3), name=r['name']))


def _dist(a, b):
    return math.hypot(a[0] - b[0], a[1] - b[1])


def polyline(pts, f):
    """reference: (point at arc-length fraction f, cumulative arc length of every point, total length)"""
    cum = [0.0]
    for i in range(len(pts) - 1):
        cum.append(cum[-1] + _dist(pts[i], pts[i + 1]))
    total = cum[-1]
    if total == 0.0:
        return (pts[0][0], pts[0][1]), cum, total
    target = f * total
    for i in range(len(pts) - 1):
        seg = cum[i + 1] - cum[i]
        if seg > 0.0 and target <= cum[i + 1]:
            u = min(1.0, max(0.0, (target - cum[i]) / seg))
            return ((pts[i][0] + u * (pts[i + 1][0] - pts[i][0]), pts[i][1] + u * (pts[i + 1][1] - pts[i][1])),
                    cum, total)
    return (pts[-1][0], pts[-1][1]), cum, total


def _node_xy(spec):
    return {n['name']: [float(v) for v in n.get('xy', (0.0, 0.0))]
            for k in ('junctions', 'tanks', 'reservoirs') for n in spec[k]}


def _node_elev(spec):
    e = {n['name']: n['elev'] for k in ('junctions', 'tanks') for n in spec[k]}
    return e


def _diff_keys(a, b):
    return sorted(k for k in set(a) | set(b) if a.get(k, '<absent>') != b.get(k, '<absent>'))


# ------------------------------------------------------------------------------------------------ split / break
def _split_tags(case, spec, pipe):
    f = case['f']
    tags = ['mode:split', 'op:' + case['op'], 'at_end:%s' % case['at_end'], 'return_copy:%s' % case['copy'],
            'vertices:%d' % min(4, len(pipe.get('vertices') or []))]
    tags.append('f:0' if f == 0 else 'f:1' if f == 1 else 'f:interior')
    tn = {t['name'] for t in spec['tanks']}
    rn = {r_['name'] for r_ in spec['reservoirs']}
    ends = (pipe['a'], pipe['b'])
    tags.append('ends:tank' if set(ends) & tn else 'ends:reservoir' if set(ends) & rn else 'ends:junctions')
    tags.append('pipe:cv' if pipe['cv'] else 'pipe:closed' if pipe['status'] == 'CLOSED' else 'pipe:open')
    if pipe['minor'] > 0:
        tags.append('pipe:minor_loss')
    if case.get('degenerate'):
        tags.append('vertex_on_node_or_duplicate')
    tags.append('demand_model:' + spec['opts']['demand_model'])
    if spec.get('controls'):
        tags.append('controls')
        if any(c['link'] == pipe['name'] for c in spec['controls']):
            tags.append('control_on_split_pipe')
    for t in netgen.features(spec):
        if t in ('loops', 'parallel_links', 'tanks', 'multi_source') or t.startswith('pump:') or t.startswith('valve:'):
            tags.append('net:' + t.split('/')[0])
    return tags


def check_split(case):
    import wntr
    spec = case['net']
    pipes = spec['pipes']
    pipe = pipes[case['pipe'] % len(pipes)]
    pname = pipe['name']
    f = float(case['f'])
    at_end = bool(case['at_end'])
    op = case['op']
    tags = _split_tags(case, spec, pipe)
    try:
        wn = _build(spec)
    except CaseTimeout:      # the runner's wall limit, not a wntr exception
        raise
    except Exception as e:
        return fail(exc_bucket(e, 'build'), 'building the model raised %r' % e, tags)
    d0 = _snap(wn)
    newj = [NEW_J0] if op == 'split' else [NEW_J0, NEW_J1]
    try:
        if op == 'split':
            wn2 = wntr.morph.split_pipe(wn, pname, NEW_PIPE, NEW_J0, add_pipe_at_end=at_end, split_at_point=f,
                                        return_copy=bool(case['copy']))
        else:
            wn2 = wntr.morph.break_pipe(wn, pname, NEW_PIPE, NEW_J0, NEW_J1, add_pipe_at_end=at_end,
                                        split_at_point=f, return_copy=bool(case['copy']))
    except CaseTimeout:      # the runner's wall limit, not a wntr exception
        raise
    except Exception as e:     # the statement quantifies over every pipe and every fraction in [0,1]
        return fail(exc_bucket(e, 'split_raises'),
                    '%s_pipe(%s, f=%r, at_end=%s) on a pipe with %d vertices raised %r'
                    % (op, pname, f, at_end, len(pipe.get('vertices') or []), e), tags)
    d_in = _snap(wn)
    d2 = _snap(wn2)
    what = '%s_pipe(%s %s->%s, f=%r, add_pipe_at_end=%s, return_copy=%s)' % (op, pname, pipe['a'], pipe['b'], f,
                                                                            at_end, case['copy'])
    # ---- return_copy
    if case['copy']:
        if wn2 is wn:
            return fail('split/return_copy_returns_input', what + ': returned the input object', tags)
        if d_in != d0:
            secs = [k for k in d0 if d0[k] != d_in.get(k)]
            return fail('split/input_modified', what + ': input model changed in %s' % secs, tags)
    elif wn2 is not wn:
        return fail('split/inplace_returns_other_object', what + ': return_copy=False returned another object', tags)
    # ---- everything else unchanged
    for sec in d0:
        if sec in ('nodes', 'links'):
            continue
        if d2.get(sec) != d0[sec]:
            return fail('split/other_section_changed/%s' % sec, what + ': section %r differs: %r -> %r'
                        % (sec, d0[sec], d2.get(sec)), tags)
    if set(d2['nodes']) != set(d0['nodes']) | set(newj):
        return fail('split/node_set', what + ': nodes %s, expected the old ones + %s' % (sorted(d2['nodes']), newj), tags)
    if set(d2['links']) != set(d0['links']) | {NEW_PIPE}:
        return fail('split/link_set', what + ': links %s, expected the old ones + %s' % (sorted(d2['links']), NEW_PIPE),
                    tags)
    for n in sorted(d0['nodes']):
        if d2['nodes'][n] != d0['nodes'][n]:
            return fail('split/other_node_changed', what + ': node %s changed in %s'
                        % (n, _diff_keys(d0['nodes'][n], d2['nodes'][n])), tags)
    for l in sorted(d0['links']):
        if l != pname and d2['links'][l] != d0['links'][l]:
            return fail('split/other_link_changed', what + ': link %s changed in %s'
                        % (l, _diff_keys(d0['links'][l], d2['links'][l])), tags)
    old, org, new = d0['links'][pname], d2['links'][pname], d2['links'].get(NEW_PIPE)
    changed = set(_diff_keys(old, org)) - {'start_node_name', 'end_node_name', 'length', 'vertices'}
    if changed:
        return fail('split/orig_pipe_attr_changed', what + ': original pipe changed in %s (%r -> %r)'
                    % (sorted(changed), {k: old.get(k) for k in changed}, {k: org.get(k) for k in changed}), tags)
    # ---- topology: the half attached to the original start node is `first`
    a, b = pipe['a'], pipe['b']
    if at_end:
        first, second = org, new
        want = [(a, NEW_J0), (newj[-1], b)]
    else:
        first, second = new, org
        want = [(a, newj[-1]), (NEW_J0, b)]
    got = [(first['start_node_name'], first['end_node_name']), (second['start_node_name'], second['end_node_name'])]
    if got != want:
        return fail('split/topology', what + ': halves connect %s, expected %s' % (got, want), tags)
    if new.get('link_type') != 'Pipe' or any(d2['nodes'][j].get('node_type') != 'Junction' for j in newj):
        return fail('split/new_element_type', what + ': new elements are %s / %s'
                    % (new.get('link_type'), [d2['nodes'][j].get('node_type') for j in newj]), tags)
    if op == 'break':
        for l, ld in d2['links'].items():
            if {ld['start_node_name'], ld['end_node_name']} == set(newj):
                return fail('break/junctions_connected', what + ': link %s joins the two new junctions' % l, tags)
        for j in newj:
            deg = sum(1 for ld in d2['links'].values() if j in (ld['start_node_name'], ld['end_node_name']))
            if deg != 1:
                return fail('break/junction_degree', what + ': new junction %s has %d links' % (j, deg), tags)
    # ---- lengths
    L = float(pipe['len'])
    l1, l2 = float(first['length']), float(second['length'])
    if not abs(l1 + l2 - L) <= 1e-12 * L:
        return fail('split/length_sum', what + ': lengths %r + %r != original %r' % (l1, l2, L), tags)
    if not (abs(l1 - f * L) <= 1e-12 * L and abs(l2 - (1.0 - f) * L) <= 1e-12 * L):
        return fail('split/length_fraction', what + ': lengths (%r, %r) from the original start, expected (%r, %r)'
                    % (l1, l2, f * L, (1 - f) * L), tags)
    # ---- new pipe attributes
    pending = None      # reported after the remaining oracles, so that a check-valve pipe still exercises them
    if new.get('check_valve') is not False:
        pending = fail('split/new_pipe_check_valve', what + ': new pipe has check_valve=%r (original pipe: %r); the '
                    'statement and the docstring promise no check valve on the new pipe'
                    % (new.get('check_valve'), old.get('check_valve')), tags)
    for k in ('diameter', 'roughness', 'minor_loss', 'initial_status'):
        if new.get(k) != old.get(k):
            return fail('split/new_pipe_attr/%s' % k, what + ': new pipe %s=%r, original %r' % (k, new.get(k), old.get(k)),
                        tags)
    # ---- geometry
    xy = _node_xy(spec)
    verts = [[float(x), float(y)] for x, y in (pipe.get('vertices') or [])]
    pts = [xy[a]] + verts + [xy[b]]
    ref, cum, total = polyline(pts, f)
    scale = 1.0 + total + max(abs(c) for p in pts for c in p)
    for j in newj:
        c = d2['nodes'][j]['coordinates']
        if not (abs(c[0] - ref[0]) <= 1e-9 * scale and abs(c[1] - ref[1]) <= 1e-9 * scale):
            return fail('split/new_junction_coordinates/%s' % ('vertices' if verts else 'straight'),
                        what + ': junction %s at %r, arc-length fraction %r of %r is %r' % (j, c, f, pts, ref), tags)
    elev = _node_elev(spec)
    if a in elev and b in elev:
        e_ref = elev[a] + f * (elev[b] - elev[a])
        for j in newj:
            e = d2['nodes'][j]['elevation']
            if not abs(e - e_ref) <= 1e-9 * (1.0 + max(abs(elev[a]), abs(elev[b]))):
                return fail('split/new_junction_elevation', what + ': junction %s elevation %r, expected %r (ends %r, %r)'
                            % (j, e, e_ref, elev[a], elev[b]), tags)
    v1 = [[float(x), float(y)] for x, y in first['vertices']]
    v2 = [[float(x), float(y)] for x, y in second['vertices']]
    if v1 + v2 != verts:
        return fail('split/vertices_not_partitioned', what + ': vertices %r became %r + %r (nodes at %r, %r)'
                    % (verts, v1, v2, xy[a], xy[b]), tags)
    eps = 1e-9 * scale
    for i in range(len(verts)):
        s = cum[i + 1]
        if (i < len(v1) and s > f * total + eps) or (i >= len(v1) and s < f * total - eps):
            return fail('split/vertices_wrong_side', what + ': vertex %d (arc length %r of %r) is on the %s half, split '
                        'position %r' % (i, s, total, 'first' if i < len(v1) else 'second', f * total), tags)
    # ---- hydraulics (split only)
    if op == 'break' or not case.get('sim'):
        return pending or passed(True, tags)
    tags.append('sim:compared')
    ref_spec = spec
    if pipe['minor'] > 0:
        ref_spec = json.loads(json.dumps(spec))
        ref_spec['pipes'][case['pipe'] % len(pipes)]['minor'] = 2.0 * pipe['minor']
    hw = spec['opts']['hw_approx']
    tags.append('sim:hw_' + hw)
    # stage 1: the case's own H-W formulation, Newton TOL 1e-8
    run0 = S.run_wntr(_build(ref_spec), hw_approx=hw, tol=1e-8)
    if run0.exception is not None or not run0.ok:
        return pending or inconclusive('original model: WNTRSimulator did not converge', tags)
    run1 = S.run_wntr(wn2, hw_approx=hw, tol=1e-8)
    if run1.exception is not None or not run1.ok:
        return pending or inconclusive('split model: WNTRSimulator did not converge', tags)
    bad = _compare_runs(run0, run1, sorted(d0['nodes']), sorted(d0['links']), pname)
    if bad is not None:
        # stage 2: a mismatch counts only if it persists in the formulation that is exactly additive over the two
        # halves.  The 'default' formulation adds a regulariser eps*sqrt(k)*q per pipe (constraint.py), which is not
        # additive in the length (sqrt(k1)+sqrt(k2) != sqrt(k1+k2)) and perturbs heads at the 1e-6 m level; tank
        # events and flat loops can amplify that.  'piecewise' is k*g(q) in all three branches, hence exact.
        tags.append('sim:stage2')
        wn3 = _build(spec)
        wn3 = wntr.morph.split_pipe(wn3, pname, NEW_PIPE, NEW_J0, add_pipe_at_end=at_end, split_at_point=f,
                                    return_copy=False)
        run0 = S.run_wntr(_build(ref_spec), hw_approx='piecewise', tol=1e-11)
        run1 = S.run_wntr(wn3, hw_approx='piecewise', tol=1e-11)
        if run0.exception is not None or not run0.ok or run1.exception is not None or not run1.ok:
            return pending or inconclusive('mismatch at Newton TOL 1e-8 (%s); the confirming piecewise/TOL 1e-11 runs '
                                           'did not converge' % bad[0], tags)
        bad2 = _compare_runs(run0, run1, sorted(d0['nodes']), sorted(d0['links']), pname)
        if bad2 is not None:
            return fail('split/hydraulics/' + bad2[0], what + ': ' + bad2[1] + ' (piecewise H-W, Newton TOL 1e-11; first '
                        'seen with hw=%s, TOL 1e-8: %s)' % (hw, bad[1]), tags)
        tags.append('sim:mismatch_not_confirmed')
    q = run0.link['flowrate'][pname]
    moving = any(abs(v) > 1e-9 for v in q if not math.isnan(v))
    if moving:
        tags.append('sim:flow_through_split_pipe')
    return pending or passed(moving, tags)


def _compare_runs(run0, run1, nodes, links, pname):
    """original nodes and links agree at every report time; both halves carry the flow of the original pipe"""
    if len(run0.times) != len(run1.times) or any(x != y for x, y in zip(run0.times, run1.times)):
        return ('report_times', 'report times differ %r vs %r' % (list(run0.times), list(run1.times)))

    def differ(x, y, atol, rtol):
        for k in range(len(x)):
            u, v = x[k], y[k]
            if math.isnan(u) and math.isnan(v):
                continue
            if not abs(u - v) <= atol + rtol * max(abs(u), abs(v)):
                return k
        return None

    for n in nodes:
        for col, atol, rtol in (('head', 1e-4, 0.0), ('demand', 1e-6, 1e-6)):
            k = differ(run0.node[col][n], run1.node[col][n], atol, rtol)
            if k is not None:
                return ('node_%s' % col, '%s of node %s at t=%s: %r before, %r after the split'
                        % (col, n, run0.times[k], run0.node[col][n][k], run1.node[col][n][k]))
    for l in links:
        for l2 in ([l] if l != pname else [pname, NEW_PIPE]):
            k = differ(run0.link['flowrate'][l], run1.link['flowrate'][l2], 1e-6, 1e-6)
            if k is not None:
                return ('half_flow' if l == pname else 'link_flow', 'flow of %s at t=%s was %r, after the split %s '
                        'carries %r' % (l, run0.times[k], run0.link['flowrate'][l][k], l2,
                                        run1.link['flowrate'][l2][k]))
    return None


# ------------------------------------------------------------------------------------------------ skeletonize
def _required(case):
    """names that must survive, read from the generated case: {name: (kind, why)}"""
    spec = case['net']
    req = {}
    for grp, kind in (('tanks', 'Tank'), ('reservoirs', 'Reservoir')):
        for n in spec[grp]:
            req[('node', n['name'])] = (kind, kind.lower())
    for grp, kind in (('pumps', 'Pump'), ('valves', 'Valve')):
        for l in spec[grp]:
            req[('link', l['name'])] = (kind, kind.lower())
    jn = {j['name'] for j in spec['junctions']}
    pn = {p['name'] for p in spec['pipes']}
    for j in case['excl_junctions']:
        req.setdefault(('node', j), ('Junction', 'excluded_junction'))
    for p in case['excl_pipes']:
        req.setdefault(('link', p), ('Pipe', 'excluded_pipe'))
    for c in spec.get('controls', []):
        if c['link'] in pn:
            req.setdefault(('link', c['link']), ('Pipe', 'control_pipe'))
        if c['kind'] == 'cond' and c['node'] in jn:
            req.setdefault(('node', c['node']), ('Junction', 'control_junction'))
    for r in case.get('rules', []):
        for c in r['if']:
            if c[0] == 'node' and c[1] in jn:
                req.setdefault(('node', c[1]), ('Junction', 'rule_junction'))
            if c[0] == 'link' and c[1] in pn:
                req.setdefault(('link', c[1]), ('Pipe', 'rule_pipe'))
        for a in r['then'] + r.get('else', []):
            if a[0] in pn:
                req.setdefault(('link', a[0]), ('Pipe', 'rule_pipe'))
    return req


def _times(opts):
    ps = opts['pat']
    return [0, ps // 2, ps, 3 * ps + 7, 5 * ps, 11 * ps + ps // 3, 24 * 3600 + 2 * ps, 3 * 86400 + 13 * ps]


def _demand_after(d, t):
    """sum over junctions of base*multiplier(t)*demand_multiplier, read from a to_dict() image -> (sum, sum|.|)"""
    pats = {p['name']: p['multipliers'] for p in d['patterns']}
    ot, oh = d['options']['time'], d['options']['hydraulic']
    default = oh.get('pattern')
    tot = mag = 0.0
    for n in sorted(d['nodes']):
        nd = d['nodes'][n]
        if nd['node_type'] != 'Junction':
            continue
        for dem in nd['demand_timeseries_list']:
            pn = dem['pattern_name']
            if pn is None:
                pn = default
            m = 1.0     # a demand without pattern reports the default pattern name, which need not exist
            if pn in pats and len(pats[pn]) > 0:
                step = int(math.floor((t + ot['pattern_start']) / ot['pattern_timestep']))
                m = pats[pn][step % len(pats[pn])]
            v = dem['base_val'] * m * oh['demand_multiplier']
            tot += v
            mag += abs(v)
    return tot, mag


def check_skel(case):
    import wntr
    spec = case['net']
    tags = ['mode:skel', 'use_epanet:%s' % case['use_epanet'], 'return_copy:%s' % case['copy'],
            'branch_trim:%s' % case['branch'], 'series_merge:%s' % case['series'], 'parallel_merge:%s' % case['parallel'],
            'max_cycles:%s' % case['max_cycles'], 'demand_model:' + spec['opts']['demand_model']]
    if case['excl_junctions']:
        tags.append('excluded_junctions')
    if case['excl_pipes']:
        tags.append('excluded_pipes')
    if spec.get('controls'):
        tags.append('controls')
    if case.get('rules'):
        tags.append('rules')
    if case.get('shared_names'):
        tags.append('names_shared_between_nodes_and_links')
    for k in ('tanks', 'pumps', 'valves'):
        if spec[k]:
            tags.append('net:' + k)
    try:
        wn = _build(spec, case.get('rules', ()))
    except CaseTimeout:      # the runner's wall limit, not a wntr exception
        raise
    except Exception as e:
        return fail(exc_bucket(e, 'build'), 'building the model raised %r' % e, tags)
    d1 = _snap(wn)
    thr = float(case['threshold'])
    what = ('skeletonize(thr=%r, branch=%s, series=%s, parallel=%s, max_cycles=%s, use_epanet=%s, excl_p=%s, excl_j=%s)'
            % (thr, case['branch'], case['series'], case['parallel'], case['max_cycles'], case['use_epanet'],
               case['excl_pipes'], case['excl_junctions']))
    try:
        ret = wntr.morph.skeletonize(wn, thr, branch_trim=bool(case['branch']), series_pipe_merge=bool(case['series']),
                                     parallel_pipe_merge=bool(case['parallel']), max_cycles=case['max_cycles'],
                                     use_epanet=bool(case['use_epanet']), pipes_to_exclude=list(case['excl_pipes']),
                                     junctions_to_exclude=list(case['excl_junctions']), return_map=True,
                                     return_copy=bool(case['copy']))
    except CaseTimeout:      # the runner's wall limit, not a wntr exception
        raise
    except Exception as e:
        # skeletonize first runs a single-period simulation in its constructor; a failure of that run (EPANET
        # error, or a non-converged WNTR run leaving no row at t = 0 for `head.loc[0, ...]`) is not this property's
        import traceback
        frames = traceback.extract_tb(e.__traceback__)
        in_init = [i for i, fr in enumerate(frames) if fr.name == '__init__' and fr.filename.endswith('skel.py')]
        if in_init:
            inner = frames[in_init[-1] + 1:]
            if any('/sim/' in fr.filename.replace('\\', '/') or '/epanet/' in fr.filename.replace('\\', '/')
                   for fr in inner):
                return inconclusive('the initial simulation inside skeletonize raised %s' % type(e).__name__, tags)
            if isinstance(e, KeyError) and 'head.loc' in (frames[in_init[-1]].line or ''):
                return inconclusive('the initial simulation inside skeletonize produced no result row', tags)
        return fail(exc_bucket(e, 'skel_raises'), what + ' raised %r' % e, tags)
    if not (isinstance(ret, tuple) and len(ret) == 2 and isinstance(ret[1], dict)):
        return fail('skel/return_map_shape', what + ': return_map=True returned %r' % type(ret), tags)
    wn2, smap = ret
    d2 = _snap(wn2)
    # ---- kept elements
    req = _required(case)
    for (grp, name) in sorted(req):
        kind, why = req[(grp, name)]
        el = d2['nodes' if grp == 'node' else 'links'].get(name)
        have = None if el is None else el.get('node_type' if grp == 'node' else 'link_type')
        if have != kind:
            return fail('skel/lost/%s' % why, what + ': %s %s (%s) is %s in the result'
                        % (kind, name, why, 'missing' if have is None else have), tags)
    # ---- a pipe that is excluded or referenced by a control/rule is kept as it is (not re-created from a merge), and the
    #      controls of the result refer to the objects registered in the result
    for (grp, name) in sorted(req):
        kind, why = req[(grp, name)]
        if grp == 'link' and kind == 'Pipe':
            a, b = d1['links'].get(name), d2['links'].get(name)
            for fld in ('start_node_name', 'end_node_name', 'length', 'diameter', 'roughness', 'minor_loss',
                        'initial_status', 'check_valve', 'vertices'):
                if a is not None and b is not None and a.get(fld) != b.get(fld):
                    return fail('skel/changed/%s' % why, what + ': pipe %s (%s) was to be kept but its %s changed from %r '
                                'to %r' % (name, why, fld, a.get(fld), b.get(fld)), tags)
    try:
        for cname, ctl in wn2.controls():
            for obj in ctl.requires():
                nm = getattr(obj, 'name', None)
                reg = None
                if nm in wn2.link_name_list and obj.__class__.__name__ in ('Pipe', 'HeadPump', 'PowerPump') or \
                        (nm in wn2.link_name_list and 'Valve' in obj.__class__.__name__):
                    reg = wn2.get_link(nm)
                elif nm in wn2.node_name_list:
                    reg = wn2.get_node(nm)
                if reg is not None and reg is not obj and type(reg) is type(obj):
                    return fail('skel/control_refers_to_stale_object', what + ': control %s of the result requires an object '
                                'named %s that is not the %s registered under that name in the result'
                                % (cname, nm, type(reg).__name__), tags)
    except CaseTimeout:
        raise
    except Exception as e:
        return fail(exc_bucket(e, 'skel_controls'), what + ': walking the controls of the result raised %r' % e, tags)
    # ---- total demand
    for t in _times(spec['opts']):
        before = sum(S.expected_demand(spec, j, t) for j in spec['junctions'])
        after, mag = _demand_after(d2, t)
        if not abs(after - before) <= 1e-12 * max(mag, abs(before)) + 1e-18:
            return fail('skel/total_demand', what + ': total demand at t=%s is %r, was %r' % (t, after, before), tags)
    # ---- map
    orig = S.node_names(spec)
    kept = set(d2['nodes'])
    count = {n: [] for n in orig}
    for key in sorted(smap, key=str):
        lst = smap[key]
        for m in lst:
            if m not in count:
                return fail('skel/map/unknown_member', what + ': map[%r] lists %r which is not an original node' % (key, m), tags)
            count[m].append(key)
        if lst and key not in kept:
            return fail('skel/map/list_on_removed_node', what + ': removed node %r still has the list %r' % (key, lst), tags)
    for n in orig:
        if len(count[n]) != 1:
            return fail('skel/map/not_exactly_once', what + ': original node %s appears in the lists of %r' % (n, count[n]),
                        tags)
    for n in sorted(kept):
        if n not in smap:
            return fail('skel/map/retained_node_not_a_key', what + ': retained node %s is not a key of the map' % n, tags)
    nj_removed = len(spec['junctions']) - sum(1 for n in d2['nodes'].values() if n['node_type'] == 'Junction')
    np_removed = len(spec['pipes']) - sum(1 for l in d2['links'].values() if l['link_type'] == 'Pipe')
    tags.append('removed_junctions:%s' % ('0' if nj_removed == 0 else '1-2' if nj_removed <= 2 else '3+'))
    if np_removed > nj_removed:
        tags.append('parallel_merged')
    if any(len(v) > 1 for v in smap.values()):
        tags.append('map:merged_lists')
    return passed(nj_removed > 0 or np_removed > 0, tags)


def check(case):
    if case['mode'] == 'split':
        return check_split(case)
    return check_skel(case)


# ------------------------------------------------------------------------------------------------ generators
_coord = st.floats(0.0, 100.0).map(lambda v: round(v, 1))


def _add_xy(draw, spec):
    for k in ('junctions', 'tanks', 'reservoirs'):
        for n in spec[k]:
            n['xy'] = [draw(_coord), draw(_coord)]


def _vertices(draw, spec, p, nmax=4, degenerate=False):
    n = draw(st.integers(0, nmax))
    v = [[draw(_coord), draw(_coord)] for _ in range(n)]
    if degenerate and v:
        xy = _node_xy(spec)
        kind = draw(st.sampled_from(['start', 'end', 'dup']))
        i = draw(st.integers(0, len(v) - 1))
        if kind == 'start':
            v[i] = list(xy[p['a']])
        elif kind == 'end':
            v[i] = list(xy[p['b']])
        else:
            v.insert(i, list(v[i]))
    return v


def _tame_power_pumps(draw, spec):
    """constant-power pumps are the main source of non-converged runs on generated networks: three out of four
    become single-point head pumps with the same design point"""
    for pu in spec['pumps']:
        if pu['type'] == 'POWER' and draw(st.integers(0, 3)) > 0:
            qd = max(0.003, 1.5 * sum(d[0] for j in spec['junctions'] for d in j['demands']))
            cname = 'HC%d' % (len(spec['curves']) + 1)
            spec['curves'][cname] = {'type': 'HEAD', 'pts': [[netgen.r(qd, 5), netgen.r(pu['power'] / (9810.0 * qd), 3)]]}
            pu.update(type='HEAD', curve=cname, power=None)


@st.composite
def split_case(draw, tier='quick'):
    feat = dict(FEAT_SPLIT)
    if tier == 'thorough':
        feat['nj'] = (2, 10)
    spec = draw(netgen.network(feat))
    _add_xy(draw, spec)
    _tame_power_pumps(draw, spec)
    pipes = spec['pipes']
    if not pipes:       # every junction-junction pipe became a valve and the source feeds through a pump
        pipes.append({'name': 'L99', 'a': spec['junctions'][0]['name'], 'b': spec['junctions'][1]['name'],
                      'len': netgen.r(draw(st.floats(20, 1000)), 1), 'diam': 0.2, 'C': 100.0, 'minor': 0.0,
                      'status': 'OPEN', 'cv': False})
    tn = {t['name'] for t in spec['tanks']}
    rn = {r_['name'] for r_ in spec['reservoirs']}
    cls = draw(st.sampled_from(['any', 'any', 'cv', 'closed', 'tank', 'reservoir']))
    cands = list(range(len(pipes)))
    if cls == 'tank':
        cands = [i for i in cands if {pipes[i]['a'], pipes[i]['b']} & tn] or cands
    elif cls == 'reservoir':
        cands = [i for i in cands if {pipes[i]['a'], pipes[i]['b']} & rn] or cands
    elif cls in ('cv', 'closed'):
        have = [i for i in cands if (pipes[i]['cv'] if cls == 'cv' else pipes[i]['status'] == 'CLOSED')]
        cands = have or cands
    idx = cands[draw(st.integers(0, len(cands) - 1))]
    p = pipes[idx]
    if cls == 'cv' and not p['cv']:
        p['cv'] = True
        p['status'] = 'OPEN'
    if cls == 'closed' and p['status'] != 'CLOSED' and not p['cv']:
        p['status'] = 'CLOSED'
    degenerate = draw(st.integers(0, 11)) == 0
    for i, q in enumerate(pipes):
        if i == idx:
            q['vertices'] = _vertices(draw, spec, q, 4, degenerate) if draw(st.integers(0, 3)) else []
        elif draw(st.integers(0, 3)) == 0:
            q['vertices'] = _vertices(draw, spec, q, 2)
    if draw(st.integers(0, 3)) == 0:      # a few simple controls (also on the split pipe): they must survive unchanged
        # the new pipe gets no controls (documented): a control opening an initially closed split pipe would leave
        # the new half closed and legitimately change the hydraulics, so a closed target pipe is not controlled
        targets = [q['name'] for q in pipes if not q['cv'] and not (q is p and q['status'] == 'CLOSED')] \
            + [l['name'] for l in spec['pumps']]
        jn = [j['name'] for j in spec['junctions']]
        for i in range(draw(st.integers(1, 2)) if targets else 0):
            c = {'name': 'ctl%d' % i, 'link': draw(st.sampled_from(targets)), 'attr': 'status',
                 'value': draw(st.sampled_from(['OPEN', 'CLOSED']))}
            z = draw(st.integers(0, 2))
            if z == 0 and spec['tanks']:
                t = draw(st.sampled_from(spec['tanks']))
                c.update(kind='cond', node=t['name'], nattr='level', op=draw(st.sampled_from(['>', '<'])),
                         thr=netgen.r(t['min'] + (t['max'] - t['min']) * draw(st.sampled_from([0.2, 0.5, 0.8])), 3))
            elif z == 1:
                c.update(kind='cond', node=draw(st.sampled_from(jn)), nattr='pressure',
                         op=draw(st.sampled_from(['>', '<'])), thr=draw(st.sampled_from([5.0, 20.0, 60.0])))
            else:
                c.update(kind='time', at=draw(st.sampled_from([1800, 3600, 7200])), clock=False)
            spec['controls'].append(c)
    f = draw(st.one_of(st.sampled_from([0.0, 1.0, 0.5, 0.25, 0.02, 0.98, 1e-9]),
                       st.floats(0.0, 1.0, allow_subnormal=False)))
    op = draw(st.sampled_from(['split', 'split', 'break']))
    return {'mode': 'split', 'net': spec, 'pipe': idx, 'f': f, 'op': op, 'at_end': draw(st.booleans()),
            'copy': draw(st.booleans()), 'sim': op == 'split' and draw(st.integers(0, 3)) > 0,
            'degenerate': bool(degenerate and p['vertices'])}


def _demands(draw, pnames):
    # negative entries are inflows (a well modelled as negative demand); they are demand like any other
    return [[draw(st.sampled_from([0.001, 0.002, 0.0005, 0.004, 0.0, -0.001, -0.0005])), draw(st.sampled_from([None] + pnames)),
             draw(st.sampled_from([None, 'dom', 'ind']))] for _ in range(draw(st.sampled_from([1, 1, 2])))]


@st.composite
def skel_case(draw, tier='quick'):
    feat = dict(FEAT_SKEL)
    if tier == 'thorough':
        feat['nj'] = (3, 14)
        feat['max_extra_links'] = 5
    spec = draw(netgen.network(feat))
    _add_xy(draw, spec)
    pnames = sorted(spec['patterns'])
    jn = [j['name'] for j in spec['junctions']]
    cnt = {'j': 0, 'l': 0}
    _tame_power_pumps(draw, spec)

    def new_junction():
        cnt['j'] += 1
        j = {'name': 'SJ%d' % cnt['j'], 'elev': netgen.r(draw(st.floats(0, 25)), 2), 'demands': _demands(draw, pnames),
             'xy': [draw(_coord), draw(_coord)]}
        spec['junctions'].append(j)
        return j['name']

    def new_pipe(a, b, diam=None):
        cnt['l'] += 1
        p = {'name': 'SL%d' % cnt['l'], 'a': a, 'b': b, 'len': netgen.r(draw(st.floats(20, 600)), 1),
             'diam': diam if diam is not None else draw(st.sampled_from(SMALL_DIAMS)),
             'C': netgen.r(draw(st.floats(60, 150)), 1), 'minor': draw(st.sampled_from([0.0, 0.0, 1.0])),
             'status': 'OPEN', 'cv': False}
        spec['pipes'].append(p)
        return p

    # dead-end chains
    for _ in range(draw(st.integers(0, 3))):
        prev = draw(st.sampled_from(jn))
        for _k in range(draw(st.integers(1, 3))):
            nxt = new_junction()
            if draw(st.booleans()):
                new_pipe(prev, nxt)
            else:
                new_pipe(nxt, prev)
            prev = nxt
    # subdivided pipes (series)
    for _ in range(draw(st.integers(0, 2))):
        base = [p for p in spec['pipes'] if not p['cv']]
        if not base:
            break
        p = draw(st.sampled_from(base))
        end = p['b']
        prev = new_junction()
        p['b'] = prev
        if draw(st.booleans()):
            p['diam'] = draw(st.sampled_from(SMALL_DIAMS))
        for _k in range(draw(st.integers(0, 2))):
            nxt = new_junction()
            new_pipe(prev, nxt, draw(st.sampled_from(SMALL_DIAMS + [p['diam']])))
            prev = nxt
        new_pipe(prev, end, draw(st.sampled_from(SMALL_DIAMS + [p['diam']])))
    # parallel twins
    for _ in range(draw(st.integers(0, 3)) if spec['pipes'] else 0):
        p = draw(st.sampled_from(spec['pipes']))
        a, b = (p['a'], p['b']) if draw(st.booleans()) else (p['b'], p['a'])
        new_pipe(a, b, draw(st.sampled_from(SMALL_DIAMS + [p['diam']])))
    jn = [j['name'] for j in spec['junctions']]
    pn = [p['name'] for p in spec['pipes']]
    links = pn + [l['name'] for l in spec['pumps'] + spec['valves']]
    tanks = [t['name'] for t in spec['tanks']]
    kinds = {l['name']: k for k in ('pipes', 'pumps', 'valves') for l in spec[k]}

    targets = [p['name'] for p in spec['pipes'] if not p['cv']] + links[len(pn):]   # EPANET refuses to control a CV

    def action():
        l = draw(st.sampled_from(targets or links))
        if kinds[l] == 'valves' and draw(st.booleans()):
            return [l, 'setting', draw(st.sampled_from([1.0, 10.0, 20.0]))]
        return [l, 'status', draw(st.sampled_from(['OPEN', 'CLOSED']))]

    for i in range(draw(st.integers(0, 3))):
        act = action()
        c = {'name': 'ctl%d' % i, 'link': act[0], 'attr': act[1], 'value': act[2]}
        if draw(st.booleans()):
            c.update(kind='time', at=draw(st.sampled_from([1800, 3600, 7200, 5 * 3600])), clock=False)
        else:
            if tanks and draw(st.booleans()):
                t = draw(st.sampled_from(spec['tanks']))
                c.update(kind='cond', node=t['name'], nattr='level', op=draw(st.sampled_from(['>', '<'])),
                         thr=netgen.r(t['min'] + (t['max'] - t['min']) * draw(st.sampled_from([0.2, 0.5, 0.8])), 3))
            else:
                c.update(kind='cond', node=draw(st.sampled_from(jn)), nattr='pressure',
                         op=draw(st.sampled_from(['>', '<'])), thr=draw(st.sampled_from([5.0, 20.0, 60.0, 200.0])))
        spec['controls'].append(c)
    rules = []
    for i in range(draw(st.integers(0, 2))):
        # junction and link attributes are None before the first solve and WNTR evaluates rules at t = 0 first
        # (ValueCondition.evaluate would raise): such conditions sit behind "time >= T AND", which short-circuits
        conds = []
        for _k in range(draw(st.integers(1, 2))):
            z = draw(st.integers(0, 3))
            if z == 0:
                conds.append(['time', draw(st.sampled_from(['>=', '<'])), draw(st.sampled_from([3600, 7200, 4 * 3600]))])
            elif z == 1 and tanks:
                conds.append(['node', draw(st.sampled_from(tanks)), 'level', draw(st.sampled_from(['>', '<'])),
                              draw(st.sampled_from([1.0, 3.0, 5.0]))])
            elif z == 2:
                conds.append(['link', draw(st.sampled_from(links)), 'flow', draw(st.sampled_from(['>', '<'])),
                              draw(st.sampled_from([0.0, 0.001, 0.01]))])
            else:
                conds.append(['node', draw(st.sampled_from(jn)), draw(st.sampled_from(['pressure', 'head'])),
                              draw(st.sampled_from(['>', '<'])), draw(st.sampled_from([10.0, 30.0, 80.0]))])
        join = draw(st.sampled_from(['AND', 'OR']))
        if any(c[0] == 'link' or (c[0] == 'node' and c[1] in jn) for c in conds):
            conds = [['time', '>=', draw(st.sampled_from([1800, 3600, 7200]))]] + [c for c in conds if c[0] != 'time']
            join = 'AND'
        rules.append({'name': 'rule%d' % i, 'if': conds, 'join': join,
                      'then': [action()], 'else': [action()] if draw(st.booleans()) else [],
                      'priority': draw(st.sampled_from([1, 3, 5]))})
    excl_j = sorted(set(draw(st.lists(st.sampled_from(jn), max_size=3)))) if draw(st.booleans()) else []
    excl_p = sorted(set(draw(st.lists(st.sampled_from(pn), max_size=3)))) if pn and draw(st.booleans()) else []
    thr = draw(st.one_of(st.sampled_from(THRESHOLDS), st.floats(0.04, 0.6).map(lambda v: round(v, 3))))
    flags = draw(st.sampled_from([(True, True, True)] * 4 + [(b, s, p) for b in (False, True) for s in (False, True)
                                                            for p in (False, True)]))
    case = {'mode': 'skel', 'net': spec, 'rules': rules, 'threshold': thr, 'branch': flags[0], 'series': flags[1],
            'parallel': flags[2], 'max_cycles': draw(st.sampled_from([None, None, None, None, 0, 1, 2])),
            'use_epanet': draw(st.booleans()), 'copy': draw(st.sampled_from([True, True, False])),
            'excl_junctions': excl_j, 'excl_pipes': excl_p}
    if draw(st.integers(0, 3)) == 0:
        _share_names(case, draw(st.integers(0, 1000)))
    return case


def _share_names(case, rot):
    """EPANET-style names: nodes and links are numbered in separate name spaces, so junction '3' and pipe '3' coexist"""
    spec = case['net']
    nodes = [n['name'] for g in ('junctions', 'tanks', 'reservoirs') for n in spec[g]]
    links = [l['name'] for g in ('pipes', 'pumps', 'valves') for l in spec[g]]
    nmap = {n: str(1 + (i + rot) % len(nodes)) for i, n in enumerate(nodes)}
    lmap = {l: str(1 + (i + 2 * rot) % len(links)) for i, l in enumerate(links)} if links else {}
    for g in ('junctions', 'tanks', 'reservoirs'):
        for n in spec[g]:
            n['name'] = nmap[n['name']]
    for g in ('pipes', 'pumps', 'valves'):
        for l in spec[g]:
            l['name'], l['a'], l['b'] = lmap[l['name']], nmap[l['a']], nmap[l['b']]
    for c in spec.get('controls', []):
        c['link'] = lmap[c['link']]
        if c.get('node') is not None:
            c['node'] = nmap[c['node']]
    for r in case.get('rules', []):
        for c in r['if']:
            if c[0] == 'node':
                c[1] = nmap[c[1]]
            elif c[0] == 'link':
                c[1] = lmap[c[1]]
        for a in r['then'] + r.get('else', []):
            a[0] = lmap[a[0]]
    case['excl_junctions'] = sorted(nmap[j] for j in case['excl_junctions'])
    case['excl_pipes'] = sorted(lmap[p] for p in case['excl_pipes'])
    case['shared_names'] = True


@st.composite
def strategy(draw, tier='quick'):
    if draw(st.integers(0, 9)) < 6:
        return draw(split_case(tier))
    return draw(skel_case(tier))


def _fixed_spec(cv):
    o = {'duration': 3600, 'hyd': 3600, 'pat': 3600, 'rep': 3600, 'rule': 360, 'pattern_start': 0, 'start_clocktime': 0,
         'dm': 1.0, 'demand_model': 'DD', 'pmin': 0.0, 'preq': 0.07, 'pexp': 0.5, 'hw_approx': 'default'}
    return {'opts': o, 'patterns': {'P1': [1.0, 0.5]}, 'curves': {}, 'profile': 'sane', 'controls': [],
            'junctions': [{'name': 'J1', 'elev': 5.0, 'demands': [[0.002, 'P1', None]], 'xy': [10.0, 0.0]},
                          {'name': 'J2', 'elev': 12.0, 'demands': [[0.001, None, None]], 'xy': [40.0, 30.0]}],
            'tanks': [], 'reservoirs': [{'name': 'R1', 'head': 60.0, 'pat': None, 'xy': [0.0, 0.0]}],
            'pumps': [], 'valves': [],
            'pipes': [{'name': 'L1', 'a': 'R1', 'b': 'J1', 'len': 100.0, 'diam': 0.3, 'C': 100.0, 'minor': 0.0,
                       'status': 'OPEN', 'cv': False},
                      {'name': 'L2', 'a': 'J1', 'b': 'J2', 'len': 250.0, 'diam': 0.2, 'C': 110.0, 'minor': 0.0,
                       'status': 'OPEN', 'cv': bool(cv), 'vertices': [[10.0, 20.0], [25.0, 20.0], [25.0, 30.0]]}]}


def enumerate_cases(tier):
    for op in ('split', 'break'):
        for at_end in (True, False):
            for cv in (False, True):
                for f in (0.0, 0.25, 0.5, 0.8, 1.0):
                    yield {'mode': 'split', 'net': _fixed_spec(cv), 'pipe': 1, 'f': f, 'op': op, 'at_end': at_end,
                           'copy': True, 'sim': op == 'split', 'degenerate': False}


def summarize(case):
    spec = case['net']
    out = {k: v for k, v in case.items() if k != 'net'}
    out['net'] = {'n_junctions': len(spec['junctions']), 'tanks': [t['name'] for t in spec['tanks']],
                  'links': [[l[0], l[1], l[2], l[3]] for l in S.links_of(spec)],
                  'controls': len(spec.get('controls', []))}
    if case['mode'] == 'split':
        p = spec['pipes'][case['pipe'] % len(spec['pipes'])]
        out['pipe_data'] = p
    return out
