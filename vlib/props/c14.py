"""C14 - all views of a WaterNetworkModel stay mutually consistent under any edit history.

A case is plain data ``{'ops': [[op, args...], ...]}``.  Elements are addressed by an index taken modulo
the number of existing elements of the needed kind, so every op is valid by construction; an op whose
precondition cannot be met (add_pipe with < 2 nodes, ...) is skipped and counted.  The history is
interpreted against a real ``wntr.network.WaterNetworkModel()`` and against the dict/set reference model
``Ref`` below (written from the property statement, it never looks at the WNTR objects).  After EVERY
executed step all views of the real model are compared with the reference model.
"""
import json

from hypothesis import strategies as st

from ..outcome import fail, passed, exc_bucket, canon

ID = 'C14'
LEVEL = 'exploration'
CASES = {'quick': 4000, 'thorough': 60000}
CASE_TIMEOUT = 30
MAXLEN = {'quick': 30, 'thorough': 60}
RULE = ('A case is a history of <= 30 (thorough: 60) operations [op, int args...], optionally preceded by a fixed '
        '17-op prelude that builds a small model; ops: add_junction/tank/reservoir (with demand pattern / head '
        'pattern / volume curve), add_pipe/pump(HEAD curve | POWER, optional speed pattern)/valve(PRV..GPV), '
        'add_pattern/curve/source/control(Control | Rule over node and link conditions), remove_node/link '
        '(plain | with_control | force), remove_pattern/curve/source/control, set start/end node, '
        'speed_pattern_name, head_pattern_name, vol_curve_name, pump_curve_name, headloss_curve_name, add_demand, the pattern of a demand entry through TimeSeries.pattern_name; reload = the history continues on from_dict(to_dict(wn)) (only while the model has no controls). '
        'Indices are taken modulo the number of existing candidates; names are prefix + smallest free number, so '
        'names are re-used after removals. Enumerated part: 60 hand-built histories covering each element kind x '
        'reference kind x (remove in use / remove user / remove unused). After every executed step all views are '
        'compared with a dict/set reference model. Non-trivial = at least one executed removal (accepted or '
        'refused) after at least one executed op that created a pattern/curve reference or reassigned an end '
        'node/pattern/curve; distinct = SHA-1 of the canonical case.')
ASSUMPTIONS = [
    'only valid calls are generated: fresh names, existing end nodes, start != end (EPANET rejects self-loops), '
    'PRV/PSV/FCV only between junctions (add_valve refuses tanks/reservoirs), HEAD curves for head pumps, VOLUME '
    'curves covering the tank level range, HEADLOSS curves for GPVs; node, link, pattern, curve, source and '
    'control names use different prefixes',
    '"in use": a node by a link end, a source or (unless with_control/force) a control; a link by a control; a '
    'pattern by a junction demand, reservoir head, pump speed or source; a curve by a tank volume curve, head pump '
    'or GPV.  Refused = the call raises.',
    'remove_*(with_control=True) removes the controls that require the element together with it (log message in '
    'model.py); if the element is still used by a link/source the call must be refused and nothing may change',
    'force=True skips the control scan (used by wntr.morph.skel after it excluded controlled elements); it is '
    'generated only for elements no control requires, where it must behave like the plain call',
    'name lists and iterators are compared as multisets (order is not part of the statement); usage records are '
    'only required to mention existing users (nothing is demanded about completeness or about orphaned keys); an '
    'unused element must be removable (a remove_* call is one of the operations of the quantifier)',
]
TOLERANCES = {}
TECHNIQUE = 'model-based stateful testing: history interpreter against a dict/set reference model, all views compared after every step'
LEVEL_TEXT = ('exploration: random and hand-enumerated edit histories up to 30/60 steps over models with at most '
              'a few dozen elements; no exhaustiveness claim over histories')
LEVEL_NOTE = ('trusted base: the ~150 line reference model Ref in this file (dicts, sets, no wntr code) and the '
              'classification of which removals are "in use"')

NODE_KINDS = ('Junction', 'Tank', 'Reservoir')
LINK_KINDS = ('Pipe', 'Pump', 'Valve')
VALVE_TYPES = ('PRV', 'PSV', 'PBV', 'FCV', 'TCV', 'GPV')
CURVE_TYPES = ('HEAD', 'VOLUME', 'HEADLOSS', 'EFFICIENCY')
CURVE_POINTS = {
    'HEAD': [(0.0, 30.0), (0.05, 20.0), (0.1, 5.0)],
    'VOLUME': [(0.0, 0.0), (5.0, 500.0), (10.0, 1200.0)],     # covers the default tank levels 0 .. 6.096
    'HEADLOSS': [(0.0, 0.0), (0.05, 1.0), (0.1, 5.0)],
    'EFFICIENCY': [(0.0, 50.0), (0.05, 80.0), (0.1, 60.0)],
}
PREFIX = {'Junction': 'J', 'Tank': 'T', 'Reservoir': 'R', 'Pipe': 'PI', 'Pump': 'PU', 'Valve': 'V',
          'pattern': 'PAT', 'curve': 'CRV', 'source': 'SRC', 'control': 'CTL'}


# ------------------------------------------------------------------------------------------ reference
class Ref(object):
    """The model as the property statement sees it: plain dicts in insertion order."""

    def __init__(self):
        self.nodes = {}      # name -> {'kind', 'pats': [..], 'head_pat', 'vol_curve'}
        self.links = {}      # name -> {'kind', 'sub', 'start', 'end', 'speed_pat', 'curve'}
        self.patterns = {}   # name -> True
        self.curves = {}     # name -> curve type (the shape it can be used as)
        self.untyped = set() # names of curves declared with curve_type None
        self.sources = {}    # name -> {'node', 'pat'}
        self.controls = {}   # name -> {'kind', 'nodes': set, 'links': set}

    def fresh(self, kind, table):
        i = 0
        while PREFIX[kind] + str(i) in table:
            i += 1
        return PREFIX[kind] + str(i)

    def nodes_of(self, *kinds):
        return [n for n, d in self.nodes.items() if d['kind'] in kinds]

    def links_of(self, kind, sub=None):
        return [n for n, d in self.links.items() if d['kind'] == kind and (sub is None or d['sub'] == sub)]

    def curves_of(self, ctype):
        return [n for n, t in self.curves.items() if t == ctype]

    # who uses what
    def node_users(self, n):
        links = [l for l, d in self.links.items() if n in (d['start'], d['end'])]
        sources = [s for s, d in self.sources.items() if d['node'] == n]
        controls = [c for c, d in self.controls.items() if n in d['nodes']]
        return links, sources, controls

    def link_controls(self, l):
        return [c for c, d in self.controls.items() if l in d['links']]

    def pattern_users(self, p):
        u = [n for n, d in self.nodes.items() if p in d['pats'] or d['head_pat'] == p]
        u += [l for l, d in self.links.items() if d['speed_pat'] == p]
        u += [s for s, d in self.sources.items() if d['pat'] == p]
        return u

    def curve_users(self, c):
        u = [n for n, d in self.nodes.items() if d['vol_curve'] == c]
        u += [l for l, d in self.links.items() if d['curve'] == c]
        return u

    def user_exists(self, name, typ):
        if typ in NODE_KINDS:
            return name in self.nodes and self.nodes[name]['kind'] == typ
        if typ in LINK_KINDS:
            return name in self.links and self.links[name]['kind'] == typ
        if typ == 'Source':
            return name in self.sources
        return False


def _pick(seq, i):
    return seq[i % len(seq)] if seq else None


def _opt(seq, sel):
    """sel == 0 -> None, otherwise an element of seq (None when seq is empty)."""
    if sel == 0 or not seq:
        return None
    return seq[(sel - 1) % len(seq)]


# ------------------------------------------------------------------------------------------ the views
def _names(pairs):
    out = []
    for item in pairs:
        out.append(item[0])
    return sorted(out)


def views(wn, ref):
    """Compare every view of `wn` with `ref`; returns None or (group, text)."""
    import wntr.network as wnet
    nodes = sorted(ref.nodes)
    links = sorted(ref.links)
    by_nkind = dict((k, sorted(ref.nodes_of(k))) for k in NODE_KINDS)
    by_lkind = dict((k, sorted(ref.links_of(k))) for k in LINK_KINDS)
    head = sorted(ref.links_of('Pump', 'HEAD'))
    power = sorted(ref.links_of('Pump', 'POWER'))
    vsub = dict((v, sorted(ref.links_of('Valve', v))) for v in VALVE_TYPES)
    pats, curves = sorted(ref.patterns), sorted(ref.curves)
    srcs, ctls = sorted(ref.sources), sorted(ref.controls)

    def guarded(group, what, fn):
        try:
            return fn(), None
        except Exception as e:   # a view of a consistent model must be computable
            return None, (group, '%s raised %r' % (what, e))

    # 1 name lists -------------------------------------------------------------------------------
    expect = {
        'node_name_list': nodes, 'junction_name_list': by_nkind['Junction'], 'tank_name_list': by_nkind['Tank'],
        'reservoir_name_list': by_nkind['Reservoir'], 'link_name_list': links, 'pipe_name_list': by_lkind['Pipe'],
        'pump_name_list': by_lkind['Pump'], 'head_pump_name_list': head, 'power_pump_name_list': power,
        'valve_name_list': by_lkind['Valve'], 'prv_name_list': vsub['PRV'], 'psv_name_list': vsub['PSV'],
        'pbv_name_list': vsub['PBV'], 'tcv_name_list': vsub['TCV'], 'fcv_name_list': vsub['FCV'],
        'gpv_name_list': vsub['GPV'], 'pattern_name_list': pats, 'curve_name_list': curves,
        'source_name_list': srcs, 'control_name_list': ctls,
    }
    for attr in sorted(expect):
        got, err = guarded('name_list', 'wn.' + attr, lambda: sorted(getattr(wn, attr)))
        if err:
            return err
        if got != expect[attr]:
            return 'name_list', 'wn.%s = %r, existing elements are %r' % (attr, got, expect[attr])
    # 2 counts -----------------------------------------------------------------------------------
    nums = {
        'num_nodes': len(nodes), 'num_junctions': len(by_nkind['Junction']), 'num_tanks': len(by_nkind['Tank']),
        'num_reservoirs': len(by_nkind['Reservoir']), 'num_links': len(links), 'num_pipes': len(by_lkind['Pipe']),
        'num_pumps': len(by_lkind['Pump']), 'num_valves': len(by_lkind['Valve']), 'num_patterns': len(pats),
        'num_curves': len(curves), 'num_sources': len(srcs), 'num_controls': len(ctls),
    }
    for attr in sorted(nums):
        got, err = guarded('num', 'wn.' + attr, lambda: getattr(wn, attr))
        if err:
            return err
        if got != nums[attr]:
            return 'num', 'wn.%s = %r, expected %d' % (attr, got, nums[attr])
    # 3 typed iterators, fully iterated ------------------------------------------------------------
    its = [
        ('nodes()', lambda: wn.nodes(), nodes), ('links()', lambda: wn.links(), links),
        ('junctions()', lambda: wn.junctions(), by_nkind['Junction']), ('tanks()', lambda: wn.tanks(), by_nkind['Tank']),
        ('reservoirs()', lambda: wn.reservoirs(), by_nkind['Reservoir']),
        ('nodes(Junction)', lambda: wn.nodes(wnet.Junction), by_nkind['Junction']),
        ('nodes(Tank)', lambda: wn.nodes(wnet.Tank), by_nkind['Tank']),
        ('nodes(Reservoir)', lambda: wn.nodes(wnet.Reservoir), by_nkind['Reservoir']),
        ('pipes()', lambda: wn.pipes(), by_lkind['Pipe']), ('pumps()', lambda: wn.pumps(), by_lkind['Pump']),
        ('valves()', lambda: wn.valves(), by_lkind['Valve']),
        ('links(Pipe)', lambda: wn.links(wnet.Pipe), by_lkind['Pipe']),
        ('links(Pump)', lambda: wn.links(wnet.Pump), by_lkind['Pump']),
        ('links(Valve)', lambda: wn.links(wnet.Valve), by_lkind['Valve']),
        ('head_pumps()', lambda: wn.head_pumps(), head), ('power_pumps()', lambda: wn.power_pumps(), power),
        ('prvs()', lambda: wn.prvs(), vsub['PRV']), ('psvs()', lambda: wn.psvs(), vsub['PSV']),
        ('pbvs()', lambda: wn.pbvs(), vsub['PBV']), ('tcvs()', lambda: wn.tcvs(), vsub['TCV']),
        ('fcvs()', lambda: wn.fcvs(), vsub['FCV']), ('gpvs()', lambda: wn.gpvs(), vsub['GPV']),
        ('patterns()', lambda: wn.patterns(), pats), ('curves()', lambda: wn.curves(), curves),
        ('sources()', lambda: wn.sources(), srcs), ('controls()', lambda: wn.controls(), ctls),
    ]
    for label, fn, exp in its:
        got, err = guarded('typed_iter', 'list(wn.%s)' % label, lambda: list(fn()))
        if err:
            return err
        if _names(got) != exp:
            return 'typed_iter', 'wn.%s yields %r, existing elements are %r' % (label, _names(got), exp)
        for name, obj in got:
            if label in ('controls()',):
                continue
            if getattr(obj, 'name', name) != name:
                return 'typed_iter', 'wn.%s yields %r with an object named %r' % (label, name, obj.name)
    for name, d in sorted(ref.nodes.items()):
        obj, err = guarded('typed_iter', 'wn.get_node(%r)' % name, lambda: wn.get_node(name))
        if err:
            return err
        if obj.node_type != d['kind']:
            return 'typed_iter', 'get_node(%r).node_type = %r, expected %r' % (name, obj.node_type, d['kind'])
    # 7 (before the derived views) every link's end nodes exist ----------------------------------------
    for name, d in sorted(ref.links.items()):
        obj, err = guarded('typed_iter', 'wn.get_link(%r)' % name, lambda: wn.get_link(name))
        if err:
            return err
        if obj.link_type != d['kind']:
            return 'typed_iter', 'get_link(%r).link_type = %r, expected %r' % (name, obj.link_type, d['kind'])
        sub = obj.pump_type if d['kind'] == 'Pump' else (obj.valve_type if d['kind'] == 'Valve' else None)
        if sub != d['sub']:
            return 'typed_iter', 'get_link(%r) has sub type %r, expected %r' % (name, sub, d['sub'])
        ends = (obj.start_node_name, obj.end_node_name)
        if ends != (d['start'], d['end']):
            return 'end_nodes', 'link %r runs %r, expected %r' % (name, ends, (d['start'], d['end']))
        for which, nobj, nn in (('start', obj.start_node, d['start']), ('end', obj.end_node, d['end'])):
            if nn not in ref.nodes:      # cannot happen unless the reference accepted an in-use removal
                return 'end_nodes', 'reference model broken: %s node %r of %r' % (which, nn, name)
            if nobj is not wn.get_node(nn):
                return 'end_nodes', '%s node object of link %r is not the registered node %r' % (which, name, nn)
    # 4 describe -----------------------------------------------------------------------------------
    ncur = dict((t, len([n for n in ref.curves_of(t) if n not in ref.untyped])) for t in CURVE_TYPES)
    nuntyped = len([n for n in ref.curves if n in ref.untyped])
    d0 = {'Nodes': len(nodes), 'Links': len(links), 'Patterns': len(pats), 'Curves': len(curves),
          'Sources': len(srcs), 'Controls': len(ctls)}
    d1 = dict(d0)
    d1['Nodes'] = {'Junctions': len(by_nkind['Junction']), 'Tanks': len(by_nkind['Tank']),
                   'Reservoirs': len(by_nkind['Reservoir'])}
    d1['Links'] = {'Pipes': len(by_lkind['Pipe']), 'Pumps': len(by_lkind['Pump']), 'Valves': len(by_lkind['Valve'])}
    d1['Curves'] = {'Pump': ncur['HEAD'], 'Efficiency': ncur['EFFICIENCY'], 'Headloss': ncur['HEADLOSS'],
                    'Volume': ncur['VOLUME']}
    d2 = dict(d1)
    d2['Links'] = {'Pipes': len(by_lkind['Pipe']), 'Pumps': {'Head': len(head), 'Power': len(power)},
                   'Valves': dict((v, len(vsub[v])) for v in VALVE_TYPES)}
    for lvl, exp in ((0, d0), (1, d1), (2, d2)):
        got, err = guarded('describe', 'wn.describe(%d)' % lvl, lambda: wn.describe(level=lvl))
        if err:
            return err
        if got != exp:
            grp = 'describe'
            if isinstance(got, dict) and dict(got, Curves=None) == dict(exp, Curves=None):
                grp = 'curve_types'     # only the per-type curve counts differ
                gc, ec = got.get('Curves'), exp.get('Curves')
                if (nuntyped and isinstance(gc, dict) and isinstance(ec, dict) and set(gc) == set(ec)
                        and all(ec[k] <= gc[k] <= ec[k] + nuntyped for k in ec)
                        and sum(gc.values()) <= sum(ec.values()) + nuntyped):
                    continue    # curves declared without a type may be counted under the type their use gave them
            return grp, 'wn.describe(%d) = %r, expected %r' % (lvl, got, exp)
    # typed curve views --------------------------------------------------------------------------------
    creg = wn.curves
    for ctype, names_attr, it_attr in (('HEAD', 'pump_curve_names', 'pump_curves'),
                                       ('EFFICIENCY', 'efficiency_curve_names', 'efficiency_curves'),
                                       ('HEADLOSS', 'headloss_curve_names', 'headloss_curves'),
                                       ('VOLUME', 'volume_curve_names', 'volume_curves')):
        exp = sorted(n for n in ref.curves_of(ctype) if n not in ref.untyped)
        may = set(n for n in ref.curves if n in ref.untyped)    # typed by use only: listing them is not specified
        got, err = guarded('curve_types', 'wn.curves.' + names_attr, lambda: sorted(getattr(creg, names_attr)))
        if err:
            return err
        if sorted(set(got) - may) != exp or len(set(got)) != len(got):
            return 'curve_types', 'wn.curves.%s = %r, existing %s curves are %r (untyped: %r)' % (names_attr, got, ctype, exp, sorted(may))
        got, err = guarded('curve_types', 'list(wn.curves.%s())' % it_attr, lambda: _names(list(getattr(creg, it_attr)())))
        if err:
            return err
        if sorted(set(got) - may) != exp or len(set(got)) != len(got):
            return 'curve_types', 'wn.curves.%s() yields %r, existing %s curves are %r (untyped: %r)' % (it_attr, got, ctype, exp, sorted(may))
    # 5 get_links_for_node ------------------------------------------------------------------------------
    for n in nodes:
        inl = sorted(l for l, d in ref.links.items() if d['end'] == n)
        outl = sorted(l for l, d in ref.links.items() if d['start'] == n)
        for flag, exp in (('ALL', sorted(inl + outl)), ('INLET', inl), ('OUTLET', outl)):
            got, err = guarded('links_for_node', 'wn.get_links_for_node(%r, %r)' % (n, flag),
                               lambda: sorted(wn.get_links_for_node(n, flag)))
            if err:
                return err
            if got != exp:
                return 'links_for_node', 'get_links_for_node(%r, %r) = %r, existing links give %r' % (n, flag, got, exp)
    # 6 to_graph ----------------------------------------------------------------------------------------
    G, err = guarded('graph', 'wn.to_graph()', lambda: wn.to_graph())
    if err:
        return err
    gn = sorted(G.nodes())
    ge = sorted((u, v, k) for u, v, k in G.edges(keys=True))
    ee = sorted((d['start'], d['end'], l) for l, d in ref.links.items())
    if gn != nodes:
        return 'graph', 'to_graph() nodes %r, existing nodes %r' % (gn, nodes)
    if ge != ee:
        return 'graph', 'to_graph() edges %r, existing links %r' % (ge, ee)
    # 8 usage records mention only existing users -----------------------------------------------------------
    for rname, reg in (('node', wn.nodes), ('link', wn.links), ('pattern', wn.patterns), ('curve', wn.curves)):
        recs, err = guarded('usage:' + rname, 'wn.%ss.usage()' % rname,
                            lambda: [(k, list(v)) for k, v in reg.usage()])
        if err:
            return err
        for key, users in recs:
            for u in users:
                ok = isinstance(u, tuple) and len(u) == 2 and ref.user_exists(u[0], u[1])
                if not ok:
                    kk = key if isinstance(key, str) else '<%s object %s>' % (type(key).__name__, getattr(key, 'name', '?'))
                    return 'usage:' + rname, ('usage record of %s %s names %r, which does not exist'
                                              % (rname, kk, u))
    # 9 to_dict -----------------------------------------------------------------------------------------------
    dd, err = guarded('to_dict', 'wn.to_dict()', lambda: wn.to_dict())
    if err:
        return err
    for sec, exp in (('nodes', nodes), ('links', links), ('patterns', pats), ('curves', curves), ('sources', srcs)):
        got = sorted(x['name'] for x in dd.get(sec, []))
        if got != exp:
            return 'to_dict', "to_dict()['%s'] names %r, existing %r" % (sec, got, exp)
    if len(dd.get('controls', [])) != len(ctls):
        return 'to_dict', "to_dict()['controls'] has %d entries, %d controls exist" % (len(dd.get('controls', [])), len(ctls))
    return None


# ------------------------------------------------------------------------------------------ interpreter
class Step(object):
    """One resolved operation: what to call, what the statement expects, how the reference changes."""

    def __init__(self, opclass, call, apply, refuse=False, creates_ref=False, removal=False, tags=(), ctl_check=False):
        self.opclass, self.call, self.apply, self.ctl_check = opclass, call, apply, ctl_check
        self.refuse, self.creates_ref, self.removal, self.tags = refuse, creates_ref, removal, list(tags)


def resolve(op, ref, wn):
    """-> Step, or None when the precondition of the op cannot be met (skipped)."""
    import wntr.network.controls as wc
    from wntr.network.base import LinkStatus
    name, a = op[0], [int(x) for x in op[1:]] + [0] * 6
    pats = list(ref.patterns)

    if name == 'add_pattern':
        n = ref.fresh('pattern', ref.patterns)
        return Step('add_pattern', lambda: wn.add_pattern(n, [1.0, 0.5 + a[0] % 3]),
                    lambda: ref.patterns.__setitem__(n, True))
    if name == 'add_curve':
        t = CURVE_TYPES[a[0] % 4]
        n = ref.fresh('curve', ref.curves)
        if (a[0] // 4) % 2 == 1:
            # declared without a type, as the INP reader does for every curve: the registry types it when it is used
            def apply_untyped():
                ref.curves[n] = t
                ref.untyped.add(n)
            return Step('add_curve:untyped', lambda: wn.add_curve(n, None, list(CURVE_POINTS[t])), apply_untyped)
        return Step('add_curve', lambda: wn.add_curve(n, t, list(CURVE_POINTS[t])),
                    lambda: ref.curves.__setitem__(n, t))
    if name == 'add_junction':
        n = ref.fresh('Junction', ref.nodes)
        p = _opt(pats, a[0])
        return Step('add_junction' + (':pat' if p else ''),
                    lambda: wn.add_junction(n, base_demand=0.01, demand_pattern=p, elevation=10.0),
                    lambda: ref.nodes.__setitem__(n, {'kind': 'Junction', 'pats': [p], 'head_pat': None,
                                                      'vol_curve': None}),
                    creates_ref=bool(p))
    if name == 'add_tank':
        n = ref.fresh('Tank', ref.nodes)
        c = _opt([c_ for c_ in ref.curves_of('VOLUME') if c_ not in ref.untyped], a[0])
        return Step('add_tank' + (':curve' if c else ''),
                    lambda: wn.add_tank(n, elevation=20.0, vol_curve=c),
                    lambda: ref.nodes.__setitem__(n, {'kind': 'Tank', 'pats': [], 'head_pat': None, 'vol_curve': c}),
                    creates_ref=bool(c))
    if name == 'add_reservoir':
        n = ref.fresh('Reservoir', ref.nodes)
        p = _opt(pats, a[0])
        return Step('add_reservoir' + (':pat' if p else ''),
                    lambda: wn.add_reservoir(n, base_head=50.0, head_pattern=p),
                    lambda: ref.nodes.__setitem__(n, {'kind': 'Reservoir', 'pats': [], 'head_pat': p,
                                                      'vol_curve': None}),
                    creates_ref=bool(p))

    def two_nodes(cands):
        if len(cands) < 2:
            return None, None
        s = cands[a[0] % len(cands)]
        rest = [x for x in cands if x != s]
        return s, rest[a[1] % len(rest)]

    def new_link(n, kind, sub, s, e, speed_pat=None, curve=None):
        ref.links[n] = {'kind': kind, 'sub': sub, 'start': s, 'end': e, 'speed_pat': speed_pat, 'curve': curve}

    if name == 'add_pipe':
        s, e = two_nodes(list(ref.nodes))
        if s is None:
            return None
        n = ref.fresh('Pipe', ref.links)
        par = any((d['start'], d['end']) in ((s, e), (e, s)) for d in ref.links.values())
        return Step('add_pipe', lambda: wn.add_pipe(n, s, e, check_valve=bool(a[2] % 2)),
                    lambda: new_link(n, 'Pipe', None, s, e), tags=['parallel_links'] if par else [])
    if name == 'add_pump':
        s, e = two_nodes(list(ref.nodes))
        if s is None:
            return None
        n = ref.fresh('Pump', ref.links)
        p = _opt(pats, a[4])
        if a[2] % 2:
            c = _pick(ref.curves_of('HEAD'), a[3])
            if c is None:
                return None
            return Step('add_pump:HEAD' + (':pat' if p else ''),
                        lambda: wn.add_pump(n, s, e, 'HEAD', c, 1.0, p),
                        lambda: new_link(n, 'Pump', 'HEAD', s, e, p, c), creates_ref=True)
        return Step('add_pump:POWER' + (':pat' if p else ''),
                    lambda: wn.add_pump(n, s, e, 'POWER', 50.0, 1.0, p),
                    lambda: new_link(n, 'Pump', 'POWER', s, e, p, None), creates_ref=bool(p))
    if name == 'add_valve':
        vt = VALVE_TYPES[a[2] % 6]
        cands = ref.nodes_of('Junction') if vt in ('PRV', 'PSV', 'FCV') else list(ref.nodes)
        s, e = two_nodes(cands)
        if s is None:
            return None
        n = ref.fresh('Valve', ref.links)
        if vt == 'GPV':
            c = _pick(ref.curves_of('HEADLOSS'), a[3])
            if c is None:
                return None
            return Step('add_valve:GPV', lambda: wn.add_valve(n, s, e, 0.3, 'GPV', 0.0, c),
                        lambda: new_link(n, 'Valve', 'GPV', s, e, None, c), creates_ref=True)
        return Step('add_valve:' + vt, lambda: wn.add_valve(n, s, e, 0.3, vt, 0.0, 10.0),
                    lambda: new_link(n, 'Valve', vt, s, e))
    if name == 'add_source':
        node = _pick(list(ref.nodes), a[0])
        if node is None:
            return None
        n = ref.fresh('source', ref.sources)
        p = _opt(pats, a[1])
        return Step('add_source' + (':pat' if p else ''),
                    lambda: wn.add_source(n, node, 'CONCEN', 1.5, p),
                    lambda: ref.sources.__setitem__(n, {'node': node, 'pat': p}), creates_ref=bool(p))
    if name == 'add_control':
        # a0: 0 Control / 1 Rule; a1: condition 0 time, 1 node, 2 link, 3 node AND link; a2 node; a3 action link;
        # a4 condition link; a5: else-action link selector (rules only, 0 = none)
        link = _pick(list(ref.links), a[3])
        if link is None:
            return None
        rule = bool(a[0] % 2)
        ck = a[1] % (4 if rule else 2)
        cnode = _pick(list(ref.nodes), a[2]) if ck in (1, 3) else None
        clink = _pick(list(ref.links), a[4]) if ck in (2, 3) else None
        elink = _opt(list(ref.links), a[5]) if rule else None
        n = ref.fresh('control', ref.controls)

        def build():
            def ncond():
                obj = wn.get_node(cnode)
                kind = ref.nodes[cnode]['kind']
                attr = {'Junction': 'pressure', 'Tank': 'level', 'Reservoir': 'head'}[kind]
                return wc.ValueCondition(obj, attr, '>', 5.0)

            def lcond():
                return wc.ValueCondition(wn.get_link(clink), 'flow', '<', 0.5)
            if ck == 0:
                cond = wc.SimTimeCondition(wn, '=', 3600 * (1 + a[2] % 5))
            elif ck == 1:
                cond = ncond()
            elif ck == 2:
                cond = lcond()
            else:
                cond = wc.AndCondition(ncond(), lcond()) if a[2] % 2 else wc.OrCondition(ncond(), lcond())
            act = wc.ControlAction(wn.get_link(link), 'status', LinkStatus.Closed)
            if rule:
                els = [wc.ControlAction(wn.get_link(elink), 'status', LinkStatus.Open)] if elink else None
                obj = wc.Rule(cond, [act], els, name=n)
            else:
                obj = wc.Control(cond, act, name=n)
            wn.add_control(n, obj)

        rn = set([cnode]) if cnode else set()
        rl = set(x for x in (link, clink, elink) if x)
        return Step('add_control:' + ('rule' if rule else 'control'), build,
                    lambda: ref.controls.__setitem__(n, {'kind': 'rule' if rule else 'control', 'nodes': rn, 'links': rl}))

    # ---- removals ------------------------------------------------------------------------------------
    def drop_controls(names):
        for c in names:
            del ref.controls[c]

    if name == 'remove_node':
        n = _pick(list(ref.nodes), a[0])
        if n is None:
            return None
        d = ref.nodes[n]
        links, sources, controls = ref.node_users(n)
        mode = a[1] % 3
        if mode == 2 and controls:
            mode = 0                    # force is only generated where no control requires the element
        kw = ({}, {'with_control': True}, {'force': True})[mode]
        call = lambda: wn.remove_node(n, **kw)
        why = 'link' if links else ('source' if sources else ('control' if (controls and mode == 0) else None))
        suffix = ':with_control' if (mode == 1 and controls) else ''
        mtag = [['mode:plain'], ['mode:with_control'], ['mode:force']][mode]
        if why:
            return Step('remove_node:refuse(%s)%s' % (why, suffix), call, lambda: None, refuse=True, removal=True,
                        tags=['refused:node_used_by_' + why] + mtag)
        feat = ':pat' if (any(d['pats']) or d['head_pat']) else (':curve' if d['vol_curve'] else '')

        def app():
            if mode == 1:
                drop_controls(controls)
            del ref.nodes[n]
        return Step('remove_node:%s%s' % (d['kind'], feat), call, app, removal=True, ctl_check=bool(suffix),
                    tags=(['removed_with_control'] if suffix else []) + mtag)
    if name == 'remove_link':
        n = _pick(list(ref.links), a[0])
        if n is None:
            return None
        d = ref.links[n]
        controls = ref.link_controls(n)
        mode = a[1] % 3
        if mode == 2 and controls:
            mode = 0
        kw = ({}, {'with_control': True}, {'force': True})[mode]
        call = lambda: wn.remove_link(n, **kw)
        suffix = ':with_control' if (mode == 1 and controls) else ''
        mtag = [['mode:plain'], ['mode:with_control'], ['mode:force']][mode]
        if controls and mode == 0:
            return Step('remove_link:refuse(control)', call, lambda: None, refuse=True, removal=True,
                        tags=['refused:link_used_by_control'] + mtag)
        feat = (':GPV' if d['sub'] == 'GPV' else '') + (':pat' if d['speed_pat'] else '')

        def app():
            if mode == 1:
                drop_controls(controls)
            del ref.links[n]
        return Step('remove_link:%s%s' % (d['kind'], feat), call, app, removal=True, ctl_check=bool(suffix),
                    tags=(['removed_with_control'] if suffix else []) + mtag)
    if name == 'remove_pattern':
        n = _pick(pats, a[0])
        if n is None:
            return None
        if ref.pattern_users(n):
            # root-cause qualifier: every use of the pattern is a demand entry that got it through the
            # TimeSeries.pattern_name setter (the setter does not tell the pattern registry: recorded open finding)
            rt = getattr(ref, 'retargeted', set())
            only_rt = all(u in ref.nodes and ref.nodes[u]['head_pat'] != n and
                          all((u, k) in rt for k, q in enumerate(ref.nodes[u]['pats']) if q == n)
                          for u in ref.pattern_users(n))
            return Step('remove_pattern:refuse' + ('(used_only_through_demand_pattern_setter)' if only_rt else ''),
                        lambda: wn.remove_pattern(n), lambda: None, refuse=True,
                        removal=True, tags=['refused:pattern_in_use'])
        return Step('remove_pattern', lambda: wn.remove_pattern(n), lambda: ref.patterns.__delitem__(n), removal=True)
    if name == 'remove_curve':
        n = _pick(list(ref.curves), a[0])
        if n is None:
            return None
        if ref.curve_users(n):
            return Step('remove_curve:refuse', lambda: wn.remove_curve(n), lambda: None, refuse=True,
                        removal=True, tags=['refused:curve_in_use'])
        def apply_remove_curve():
            del ref.curves[n]
            ref.untyped.discard(n)
        return Step('remove_curve', lambda: wn.remove_curve(n), apply_remove_curve, removal=True)
    if name == 'remove_source':
        n = _pick(list(ref.sources), a[0])
        if n is None:
            return None
        return Step('remove_source' + (':pat' if ref.sources[n]['pat'] else ''), lambda: wn.remove_source(n),
                    lambda: ref.sources.__delitem__(n), removal=True)
    if name == 'remove_control':
        n = _pick(list(ref.controls), a[0])
        if n is None:
            return None
        return Step('remove_control', lambda: wn.remove_control(n), lambda: ref.controls.__delitem__(n), removal=True)

    # ---- reassignments ---------------------------------------------------------------------------------
    if name in ('set_start', 'set_end'):
        l = _pick(list(ref.links), a[0])
        if l is None:
            return None
        d = ref.links[l]
        key, other = ('start', 'end') if name == 'set_start' else ('end', 'start')
        cands = ref.nodes_of('Junction') if d['sub'] in ('PRV', 'PSV', 'FCV') else list(ref.nodes)
        cands = [x for x in cands if x != d[other]]
        new = _pick(cands, a[1])
        if new is None:
            return None

        def call():
            setattr(wn.get_link(l), key + '_node', wn.get_node(new))
        return Step('%s:%s' % (name, d['kind']), call, lambda: d.__setitem__(key, new), creates_ref=True,
                    tags=['reassign_same_node'] if new == d[key] else [])
    if name == 'reverse_link':
        # the public helper wntr.morph.link.reverse_link swaps the end nodes in place (start := end, then end := start)
        l = _pick(list(ref.links), a[0])
        if l is None:
            return None
        d = ref.links[l]

        def call_rev():
            import wntr.morph.link as ml
            ml.reverse_link(wn, l, return_copy=False)

        def apply_rev():
            d['start'], d['end'] = d['end'], d['start']
        return Step('reverse_link:%s' % d['kind'], call_rev, apply_rev, creates_ref=True)
    if name == 'set_speed_pattern':
        l = _pick(ref.links_of('Pump'), a[0])
        if l is None:
            return None
        p = _opt(pats, a[1])
        return Step('set_speed_pattern' + ('' if p else ':none'),
                    lambda: setattr(wn.get_link(l), 'speed_pattern_name', p),
                    lambda: ref.links[l].__setitem__('speed_pat', p), creates_ref=True)
    if name == 'set_head_pattern':
        n = _pick(ref.nodes_of('Reservoir'), a[0])
        if n is None:
            return None
        p = _opt(pats, a[1])
        return Step('set_head_pattern' + ('' if p else ':none'),
                    lambda: setattr(wn.get_node(n), 'head_pattern_name', p),
                    lambda: ref.nodes[n].__setitem__('head_pat', p), creates_ref=True)
    if name == 'set_vol_curve':
        n = _pick(ref.nodes_of('Tank'), a[0])
        if n is None:
            return None
        c = _opt([c_ for c_ in ref.curves_of('VOLUME') if c_ not in ref.untyped], a[1])
        return Step('set_vol_curve' + ('' if c else ':none'),
                    lambda: setattr(wn.get_node(n), 'vol_curve_name', c),
                    lambda: ref.nodes[n].__setitem__('vol_curve', c), creates_ref=True)
    if name == 'set_pump_curve':
        l = _pick(ref.links_of('Pump', 'HEAD'), a[0])
        c = _pick(ref.curves_of('HEAD'), a[1])
        if l is None or c is None:
            return None
        return Step('set_pump_curve', lambda: setattr(wn.get_link(l), 'pump_curve_name', c),
                    lambda: ref.links[l].__setitem__('curve', c), creates_ref=True)
    if name == 'set_headloss_curve':
        l = _pick(ref.links_of('Valve', 'GPV'), a[0])
        c = _pick(ref.curves_of('HEADLOSS'), a[1])
        if l is None or c is None:
            return None
        return Step('set_headloss_curve', lambda: setattr(wn.get_link(l), 'headloss_curve_name', c),
                    lambda: ref.links[l].__setitem__('curve', c), creates_ref=True)
    if name == 'add_demand':
        n = _pick(ref.nodes_of('Junction'), a[0])
        if n is None:
            return None
        p = _opt(pats, a[1])
        return Step('add_demand' + (':pat' if p else ''),
                    lambda: wn.get_node(n).add_demand(0.002, p, 'extra'),
                    lambda: ref.nodes[n]['pats'].append(p), creates_ref=bool(p))
    if name == 'set_demand_pattern':
        # the pattern of one demand entry is re-assigned through the documented setter TimeSeries.pattern_name
        n = _pick(ref.nodes_of('Junction'), a[0])
        if n is None or not ref.nodes[n]['pats']:
            return None
        k = a[1] % len(ref.nodes[n]['pats'])
        p = _pick(pats, a[2])
        if p is None:
            return None
        return Step('set_demand_pattern',
                    lambda: setattr(wn.get_node(n).demand_timeseries_list[k], 'pattern_name', p),
                    lambda: _retarget(ref, n, k, p), creates_ref=True)
    raise ValueError('unknown op %r' % (op,))


def _allnames(ref):
    return (set(ref.nodes) | set(ref.links) | set(ref.patterns) | set(ref.curves) | set(ref.sources)
            | set(ref.controls))


def _snapshot(wn):
    return canon(wn.to_dict())


def check(case):
    import wntr
    wn = wntr.network.WaterNetworkModel()
    ref = Ref()
    ops = case['ops']
    tags = set()
    executed = skipped = 0
    seen_ref = False
    nontrivial = False
    prev_names, ever_names = set(), set()
    trace = []

    def where(i, op, step):
        return 'step %d %r [%s] after %s' % (i, op, step.opclass, trace[-6:])

    bad = views(wn, ref)
    if bad:
        return fail('empty_model/view:' + bad[0], bad[1], tags)
    for i, op in enumerate(ops):
        if op[0] == 'reload':
            # 'starting from any model': the history continues on the model rebuilt from its own dictionary (JSON)
            if not getattr(ref, 'controls', None):       # (control names and rule texts are C13's business)
                try:
                    wn = wntr.network.from_dict(json.loads(json.dumps(wntr.network.to_dict(wn))))
                except Exception as e:
                    return fail(exc_bucket(e, 'reload/raises'), 'from_dict(to_dict(wn)) raised %r after %s' % (e, trace[-6:]), tags)
                tags.add('op:reload')
                trace.append('reload')
                bad = views(wn, ref)
                if bad:
                    return fail('reload/view:%s' % bad[0], '%s\n  after from_dict(to_dict(wn)), history %s' % (bad[1], trace[-6:]), tags)
            continue
        step = resolve(op, ref, wn)
        if step is None:
            skipped += 1
            continue
        executed += 1
        tags.add('op:' + op[0])
        tags.update(step.tags)
        if step.removal and seen_ref:
            nontrivial = True
        if step.refuse:
            try:
                before = _snapshot(wn)
            except Exception as e:
                return fail(exc_bucket(e, step.opclass + '/to_dict_raises'), 'to_dict() before ' + where(i, op, step), tags)
            try:
                step.call()
                raised = None
            except Exception as e:
                raised = e
            if raised is None:
                return fail(step.opclass + '/not_refused',
                            'removing an element that is still in use did not raise: ' + where(i, op, step), tags)
            try:
                after = _snapshot(wn)
            except Exception as e:
                return fail(exc_bucket(e, step.opclass + '/to_dict_raises'), 'to_dict() after ' + where(i, op, step), tags)
            if after != before:
                return fail(step.opclass + '/refused_but_changed',
                            'the refused removal (%r) changed to_dict(): %s\n%s' % (raised, where(i, op, step),
                                                                                   _diff(before, after)), tags)
        else:
            try:
                step.call()
            except Exception as e:
                return fail(exc_bucket(e, step.opclass + '/raises'),
                            'valid operation raised %r: %s' % (e, where(i, op, step)), tags)
            step.apply()
        if step.creates_ref:
            seen_ref = True
        trace.append(step.opclass)
        if step.ctl_check:      # with_control: exactly the controls that required the element went with it
            try:
                got = sorted(wn.control_name_list)
            except Exception as e:
                got = repr(e)
            if got != sorted(ref.controls):
                return fail(op[0] + ':with_control/view:controls',
                            'control_name_list = %r, expected %r: %s' % (got, sorted(ref.controls), where(i, op, step)), tags)
        bad = views(wn, ref)
        if bad:
            return fail('%s/view:%s' % (step.opclass, bad[0]), '%s\n  %s' % (bad[1], where(i, op, step)), tags)
        now = _allnames(ref)
        if (now - prev_names) & ever_names:
            tags.add('name_reused')
        ever_names |= now
        prev_names = now
    if skipped:
        tags.add('has_skipped_ops')
    tags.add('executed:' + ('0' if executed == 0 else '1-5' if executed <= 5 else '6-15' if executed <= 15
                            else '16-30' if executed <= 30 else '31+'))
    tags.add('final_size:' + ('0' if not (ref.nodes or ref.links) else 'small' if len(ref.nodes) + len(ref.links) <= 6
                              else 'medium' if len(ref.nodes) + len(ref.links) <= 15 else 'large'))
    return passed(nontrivial, tags)


def _diff(a, b):
    i = 0
    while i < min(len(a), len(b)) and a[i] == b[i]:
        i += 1
    return '  before: ...%s\n  after:  ...%s' % (a[max(0, i - 60):i + 100], b[max(0, i - 60):i + 100])


# ------------------------------------------------------------------------------------------ generation
PRELUDE = [['add_pattern', 0], ['add_pattern', 1], ['add_curve', 0], ['add_curve', 1], ['add_curve', 2],
           ['add_curve', 3], ['add_junction', 0], ['add_junction', 1], ['add_junction', 2], ['add_tank', 1],
           ['add_reservoir', 2], ['add_pipe', 0, 0, 0], ['add_pipe', 1, 1, 1], ['add_pipe', 4, 0, 0],
           ['add_pump', 4, 0, 1, 0, 1], ['add_valve', 1, 1, 0, 0], ['add_valve', 2, 0, 5, 0]]

def _retarget(ref, n, k, p):
    ref.nodes[n]['pats'][k] = p
    if not hasattr(ref, 'retargeted'):
        ref.retargeted = set()
    ref.retargeted.add((n, k))


# (name, number of int args, weight)
OPS = [
    ('add_junction', 1, 3), ('add_pattern', 1, 2), ('add_curve', 1, 3), ('add_tank', 1, 2), ('add_reservoir', 1, 2),
    ('add_pipe', 3, 3), ('add_pump', 5, 4), ('add_valve', 4, 3), ('add_source', 2, 3), ('add_control', 6, 5),
    ('remove_node', 2, 6), ('remove_link', 2, 6), ('remove_pattern', 1, 3), ('remove_curve', 1, 3),
    ('remove_source', 1, 2), ('remove_control', 1, 1),
    ('set_start', 2, 2), ('set_end', 2, 2), ('reverse_link', 1, 2), ('set_speed_pattern', 2, 2), ('set_head_pattern', 2, 2),
    ('set_vol_curve', 2, 2), ('set_pump_curve', 2, 1), ('set_headloss_curve', 2, 1), ('add_demand', 2, 2),
    ('set_demand_pattern', 3, 2), ('reload', 0, 2),
]


def _op_strategy():
    branches = []
    for name, nargs, weight in OPS:
        s = st.tuples(st.just(name), *([st.integers(0, 7)] * nargs)).map(list)
        branches.extend([s] * weight)
    return st.one_of(*branches)


@st.composite
def strategy(draw, tier='quick'):
    pre = draw(st.sampled_from([0, 1, 1]))
    top = MAXLEN.get(tier, 30)
    lo = draw(st.sampled_from([1, 6, 12, 20]))      # hypothesis' default list lengths are short: force some long ones
    ops = draw(st.lists(_op_strategy(), min_size=lo, max_size=max(lo, top)))
    return {'ops': ([list(o) for o in PRELUDE] if pre else []) + ops}


def enumerate_cases(tier):
    """Hand-built histories: element kind x reference kind x (remove in use / remove user / remove unused)."""
    P, C = ['add_pattern', 0], lambda t: ['add_curve', t]
    J, J1 = ['add_junction', 0], ['add_junction', 1]
    base = [P, C(0), C(1), C(2), J, J]
    users = {
        'junction_pat': ([P, J1], ['remove_node', 0, 0]),
        'reservoir_pat': ([P, ['add_reservoir', 1]], ['remove_node', 0, 0]),
        'tank_curve': ([C(1), ['add_tank', 1]], ['remove_node', 0, 0]),
        'power_pump_pat': ([P, J, J, ['add_pump', 0, 0, 0, 0, 1]], ['remove_link', 0, 0]),
        'head_pump': ([C(0), J, J, ['add_pump', 0, 0, 1, 0, 0]], ['remove_link', 0, 0]),
        'head_pump_pat': ([P, C(0), J, J, ['add_pump', 0, 0, 1, 0, 1]], ['remove_link', 0, 0]),
        'gpv': ([C(2), J, J, ['add_valve', 0, 0, 5, 0]], ['remove_link', 0, 0]),
        # curves declared without a type (as the INP reader creates them) and typed by their use only
        'head_pump_untyped_curve': ([C(4), J, J, ['add_pump', 0, 0, 1, 0, 0]], ['remove_link', 0, 0]),
        'gpv_untyped_curve': ([C(6), J, J, ['add_valve', 0, 0, 5, 0]], ['remove_link', 0, 0]),
        'source_pat': ([P, J, ['add_source', 0, 1]], ['remove_source', 0]),
        'source': ([J, ['add_source', 0, 0]], ['remove_source', 0]),
        'demand_pat': ([P, J, ['add_demand', 0, 1]], ['remove_node', 0, 0]),
    }
    for key in sorted(users):
        setup, rm_user = users[key]
        # the referenced pattern/curve is in use -> refused; remove the user; now it can go; remove again = nothing left
        yield {'ops': setup + [['remove_pattern', 0], ['remove_curve', 0], rm_user, ['remove_pattern', 0],
                               ['remove_curve', 0]]}
        # the same with the nodes of the user removed afterwards and everything re-added under the same names
        yield {'ops': setup + [rm_user, ['remove_node', 0, 0], ['remove_node', 0, 0], ['remove_pattern', 0],
                               ['remove_curve', 0]] + setup}
    # reassignments followed by removal of the old and the new referent
    yield {'ops': [P, P, J, J, ['add_pump', 0, 0, 0, 0, 1], ['set_speed_pattern', 0, 2], ['remove_pattern', 0],
                   ['remove_pattern', 0], ['set_speed_pattern', 0, 0], ['remove_pattern', 0], ['remove_link', 0, 0]]}
    yield {'ops': [P, P, ['add_reservoir', 1], ['set_head_pattern', 0, 2], ['remove_pattern', 0], ['remove_pattern', 0],
                   ['set_head_pattern', 0, 0], ['remove_pattern', 0], ['remove_node', 0, 0]]}
    yield {'ops': [C(1), C(1), ['add_tank', 1], ['set_vol_curve', 0, 2], ['remove_curve', 0], ['remove_curve', 0],
                   ['set_vol_curve', 0, 0], ['remove_curve', 0], ['remove_node', 0, 0]]}
    yield {'ops': [C(0), C(0), J, J, ['add_pump', 0, 0, 1, 0, 0], ['set_pump_curve', 0, 1], ['remove_curve', 0],
                   ['remove_curve', 1], ['remove_link', 0, 0], ['remove_curve', 0]]}
    yield {'ops': [C(2), C(2), J, J, ['add_valve', 0, 0, 5, 0], ['set_headloss_curve', 0, 1], ['remove_curve', 0],
                   ['remove_curve', 1], ['remove_link', 0, 0], ['remove_curve', 0]]}
    # end node reassignment: old node becomes removable, new one is not
    for kind in (['add_pipe', 0, 0, 0], ['add_pump', 0, 0, 0, 0, 0], ['add_valve', 0, 0, 4, 0], ['add_valve', 0, 0, 0, 0]):
        for setter in ('set_start', 'set_end'):
            yield {'ops': [J, J, J, kind, [setter, 0, 1], ['remove_node', 0, 0], ['remove_node', 1, 0],
                           ['remove_node', 2, 0], ['remove_link', 0, 0], ['remove_node', 0, 0], ['remove_node', 0, 0]]}
    # controls: removal refused / with_control / force
    for rule in (0, 1):
        for cond in (0, 1, 2, 3):
            ctl = ['add_control', rule, cond, 0, 0, 1, 2]
            for mode in (0, 1, 2):
                yield {'ops': [J, J, J, ['add_pipe', 0, 0, 0], ['add_pipe', 1, 0, 0], ctl, ['remove_link', 0, mode],
                               ['remove_node', 0, mode], ['remove_link', 0, mode], ['remove_node', 0, mode],
                               ['remove_control', 0], ['remove_link', 0, mode], ['remove_node', 0, mode]]}
    # a node that is in use by a source only (no link) and required by a control: removal with_control / force must be
    # refused without touching the controls; after the source is gone it succeeds
    for rule in (0, 1):
        for mode in (0, 1, 2):
            yield {'ops': [J, J, J, ['add_pipe', 0, 0, 0], ['add_source', 2, 0], ['add_control', rule, 1, 2, 0, 0, 0],
                           ['remove_node', 2, mode], ['remove_source', 0], ['remove_node', 2, mode], ['remove_control', 0],
                           ['remove_node', 2, mode]]}
    # every valve type and both pump types added and removed again
    ops = [C(0), C(2), J, J, J]
    for v in range(6):
        ops.append(['add_valve', v, 0, v, 0])
    ops += [['add_pump', 0, 1, 0, 0, 0], ['add_pump', 1, 0, 1, 0, 0], ['add_tank', 0], ['add_reservoir', 0],
            ['add_pipe', 3, 0, 0], ['add_pipe', 4, 0, 1]]
    ops += [['remove_link', 0, 0]] * 10 + [['remove_node', 0, 0]] * 5
    yield {'ops': ops}
    yield {'ops': [list(o) for o in PRELUDE] + [['remove_link', k, 0] for k in (5, 4, 3, 2, 1, 0)]
           + [['remove_node', 0, 0]] * 5 + [['remove_curve', 0]] * 4 + [['remove_pattern', 0]] * 2}


def summarize(case):
    ops = case['ops']
    return {'n_ops': len(ops), 'ops': ops if len(ops) <= 24 else ops[:24] + [['...']]}
