"""C16 - runs terminate with well-formed results and never hide a failed step."""
import copy
import os
import pickle
import signal
import traceback
import warnings

from hypothesis import strategies as st

from .. import netgen, spec as S
from ..outcome import CaseTimeout, exc_bucket, fail, inconclusive, passed

ID = 'C16'
LEVEL = 'exploration'
CASES = {'quick': 560, 'thorough': 12000}
SHRINK_BUDGET = {'quick': 20, 'thorough': 200}
CASE_TIMEOUT = 30
TECHNIQUE = ('property-based testing (Hypothesis) with fault injection: generated networks x generated fault plans; '
             'wntr.sim.core._solver_helper is wrapped for the duration of one run to count/label solver calls and '
             'to inject failures; metamorphic prefix comparison with a run of the same model without the fault')
RULE = ('Case = network spec (netgen: 2-6 junctions, tanks, pumps, valves, leaks, DD/PDD, report step k*hyd or ALL) '
        'x optional control gadget attached to a junction (osc: two pressure controls that re-open/re-close a '
        'dead-end pipe for ever from time T on; chain: m pressure controls that need m re-solves at time T; T on '
        'or off the hydraulic grid, so the failing step can be a partial step) x fault plan: none | solver failure '
        'injected at the k-th primary solver call (k anywhere: absolute, inside a re-solve trial, at a partial '
        'step, at the last call; messages iteration limit / singular Jacobian / line search) | genuinely small '
        'MAXITER (0,1,2,3,5,8) or TIME_LIMIT 0; options.hydraulic.trials in {0,1,2,3,8}; backup solver absent / NewtonSolver '
        'succeeding (real call) / NewtonSolver failing / scipy fsolve (with and without Jacobian) / scipy broyden1, anderson, newton_krylov limited to two iterations (genuine failures); primary solver '
        'NewtonSolver or (1/8) scipy fsolve; convergence_error True/False. Enumerated part: one fixed looped '
        'tank network with a chain gadget off the grid x every solver call k x backup none/ok/fail x '
        'convergence_error x report ALL / 2*hyd, and trials 0..3 x osc/chain. Every case runs the model once without '
        'fault (trials=8, default solver options) and once with the plan, both forked from one process state; both '
        'runs are judged. '
        'Non-trivial = a failing run whose failing solver call is not the first call of the run, or a trial-limit '
        'failure, or a completed run with >= 2 reported rows; distinct = SHA-1 of the case.')
ASSUMPTIONS = [
    'input domain: valve layouts that EPANET accepts (no two of PRV/PSV/FCV share a node; netgen\'s wild profile can '
    'produce them and WNTR then raises ValueError "number of constraints and variables must be equal" - recorded as '
    'out of domain, not as a violation)',
    'a step "cannot be solved" when the primary solver call returns SolverStatus.error and no backup call for the '
    'same step returns converged (read from the wrapped calls), or when run_sim itself reports "Exceeded maximum '
    'number of trials"; the exact trial count at which WNTR gives up is not demanded, only that a step never gets '
    'more than trials+2 successful solves without the run being flagged',
    'the steps reported before the failure = every step whose solve sequence was completed before the failing '
    'call (consecutive solver calls at one wn.sim_time are one step), restricted to multiples of report_timestep '
    'unless it is ALL; the failing step itself (partial or not) is not reported',
    'the fault-free run of the same model: same spec, MAXITER 3000, trials 8 (no completed step needs more than '
    'the faulted run allows, else the faulted run stops earlier and the comparison ends there); rows are compared '
    'only up to the first failure of either run',
    'finite numbers: any bool/int/float dtype is accepted (link status is an integer table); object dtype is not',
    '"a warning": at least one warning whose text mentions convergence or trials (other warnings, e.g. pump '
    'maximum flow, do not count); error_code value 0 is the one documented in the run_sim docstring',
    'terminates = never more than trials+2 solver calls (doubled with a backup solver) at one simulation time, at '
    'most (duration+2) times that in total (step times are whole seconds; tanks that open and close every few '
    'seconds legitimately produce many partial steps), and the 30 s wall limit (over the limit = inconclusive)',
    'the harness pins BLAS/OpenMP to one thread (vcheck does); the two runs of a case are forked from one parent '
    'state so that they are bit-identical up to the fault; a prefix mismatch that does not reproduce in two '
    'repetitions is reported as inconclusive',
    'scipy.optimize.fsolve (documented as an alternative solver) is used as primary solver in 1/8 of the cases and as '
    'backup solver in 2/9; rows after a step solved by another kind of solver than the primary are not compared',
]
TOLERANCES = {'prefix_equality': '1e-9*max(1,|reference|) (the statement says "the same"; the two runs are forked from '
                                 'one process state and single-threaded, which makes them bit-identical up to the '
                                 'fault; two independent runs of one model can differ by 1e-5 in a flow)'}
LEVEL_TEXT = ('exploration: sampled networks x sampled fault points; every solver call of the faulted run is observed, '
              'so a hidden failed step or a run that goes on after a failed step is detected whenever it is exercised')
LEVEL_NOTE = ('trusted base: the call wrapper (labels calls by the option dicts given to run_sim), wn.sim_time as the '
              'time of a solver call, pandas/numpy, the spec builder')

FEAT = {'nj': (2, 6), 'tanks': (0, 2), 'extra_res': (0, 1), 'pumps': True, 'valves': True, 'cvs': True,
        'closed': True, 'leaks': True, 'tank_leaks': True, 'vol_curves': True, 'tank_links_special': True,
        'booster': True, 'wild': 0.2, 'hyd_steps': [600, 900, 1800, 3600, 7200],
        'durations': [0, 3600, 7200, 4 * 3600, 4 * 3600, 8 * 3600]}
REF_TRIALS = 8
ITER_BUDGET = 12000     # Newton iterations per run; a model needing more is inconclusive (keeps the tier budget)
MSGS = ['Reached maximum number of iterations: 2999', 'Jacobian is singular at iteration 0',
        'Line search failed at iteration 3']
NODE_TABLES = ('head', 'demand', 'pressure', 'leak_demand')
LINK_TABLES = ('flowrate', 'velocity', 'status', 'setting')


# ------------------------------------------------------------------------------------------------ generation
@st.composite
def _case(draw, tier):
    f = dict(FEAT)
    if tier == 'thorough':
        f['nj'] = (2, 10)
        f['durations'] = f['durations'] + [12 * 3600, 24 * 3600]
    net = legal_valves(draw(netgen.network(f)))
    o = net['opts']
    hyd, dur = o['hyd'], o['duration']
    gk = draw(st.sampled_from(['none', 'none', 'osc', 'osc', 'chain', 'chain']))
    gadget = None
    if gk != 'none':
        tchoices = sorted(set(t for t in (0, hyd, 2 * hyd, hyd + 137, dur // 2, dur // 2 + 61, dur, 3 * hyd - 60)
                              if 0 <= t <= max(dur, 0)))
        gadget = {'kind': gk, 'at': draw(st.integers(0, 11)), 'T': draw(st.sampled_from(tchoices)),
                  'm': draw(st.integers(1, 3)), 'dem': draw(st.sampled_from([0.0, 0.0005, 0.001]))}
    kind = draw(st.sampled_from(['none', 'inject', 'inject', 'inject', 'maxiter']))
    plan = {'kind': kind,
            'solver': 'newton' if kind == 'maxiter' else draw(st.sampled_from(['newton'] * 7 + ['fsolve'])),
            'mode': draw(st.sampled_from(['abs', 'abs', 'resolve', 'event', 'last'])),
            'k': draw(st.integers(0, 60)),
            'msg': draw(st.integers(0, 2)), 'backup_msg': draw(st.integers(0, 2)),
            'backup': draw(st.sampled_from(['none', 'none', 'none', 'ok', 'ok', 'fail', 'fail', 'fsolve', 'fsolve_jac',
                                            'broyden1', 'anderson', 'newton_krylov'])),
            'maxiter': draw(st.sampled_from([1, 2, 3, 5, 8, 0, -1])),      # -1: TIME_LIMIT 0 instead of an iteration limit
            'conv': draw(st.booleans()),
            'trials': draw(st.sampled_from([0, 1, 2, 3, REF_TRIALS]))}
    return {'net': net, 'gadget': gadget, 'plan': plan}


def legal_valves(net):
    """EPANET refuses (error 220) PRVs that share a downstream node or are in series, PSVs that share an upstream
    node or are in series, a PSV at the downstream node of a PRV and the like; WNTR accepts them and then fails with
    a ValueError from the AML (a head that appears in no equation).  Stricter than EPANET, by construction: no two
    of PRV/PSV/FCV share a node; a later offender becomes a TCV."""
    used = set()
    for v in net['valves']:
        if v['type'] in ('PRV', 'PSV', 'FCV'):
            if v['a'] in used or v['b'] in used:
                v['type'], v['setting'] = 'TCV', 5.0
            else:
                used.update((v['a'], v['b']))
    return net


def strategy(tier='quick'):
    return _case(tier)


def _enum_net():
    j = lambda n, e, d: {'name': n, 'elev': e, 'demands': [[d, 'P1', None]]}   # noqa: E731
    p = lambda n, a, b: {'name': n, 'a': a, 'b': b, 'len': 300.0, 'diam': 0.3, 'C': 110.0, 'minor': 0.0,   # noqa: E731
                         'status': 'OPEN', 'cv': False}
    return {'opts': {'duration': 4 * 3600, 'hyd': 3600, 'pat': 3600, 'rep': 7200, 'rule': 3600, 'pattern_start': 0,
                     'start_clocktime': 0, 'dm': 1.0, 'demand_model': 'DD', 'pmin': 0.0, 'preq': 0.07, 'pexp': 0.5,
                     'hw_approx': 'default'},
            'patterns': {'P1': [1.0, 1.4, 0.6]}, 'curves': {},
            'junctions': [j('J1', 5.0, 0.002), j('J2', 8.0, 0.001), j('J3', 3.0, 0.003)],
            'tanks': [{'name': 'T1', 'elev': 40.0, 'init': 3.0, 'min': 0.0, 'max': 6.0, 'diam': 8.0, 'min_vol': 0.0,
                       'vol_curve': None}],
            'reservoirs': [{'name': 'R1', 'head': 60.0, 'pat': None}],
            'pipes': [p('L1', 'R1', 'J1'), p('L2', 'J1', 'J2'), p('L3', 'J2', 'J3'), p('L4', 'J3', 'J1'),
                      p('L5', 'J2', 'T1')],
            'pumps': [], 'valves': [], 'controls': [], 'profile': 'sane'}


def enumerate_cases(tier='quick'):
    """one fixed model x every solver call k x backup variant x convergence_error x report step (ALL / 2*hyd)"""
    for rep, T in [('ALL', 3737), (7200, 3737)] + ([('ALL', 7200), (3600, 7200)] if tier == 'thorough' else []):
        net = _enum_net()
        net['opts']['rep'] = rep
        gadget = {'kind': 'chain', 'at': 1, 'T': T, 'm': 2, 'dem': 0.0005}
        for k in range(8):          # the fault-free run makes 8 solver calls (5 grid steps + 1 event, 2 re-solves)
            for backup in ('none', 'ok', 'fail') + (('fsolve',) if tier == 'thorough' else ()):
                for conv in (False, True):
                    yield {'net': net, 'gadget': gadget,
                           'plan': {'kind': 'inject', 'solver': 'newton', 'mode': 'abs', 'k': k, 'msg': k % 3,
                                    'backup_msg': (k + 1) % 3,
                                    'backup': backup, 'maxiter': 3, 'conv': conv, 'trials': 3}}
        for trials in (0, 1, 2, 3):
            for gk in ('chain', 'osc'):
                for conv in (False, True):
                    yield {'net': net, 'gadget': dict(gadget, kind=gk),
                           'plan': {'kind': 'none', 'solver': 'newton', 'mode': 'abs', 'k': 0, 'msg': 0,
                                    'backup_msg': 0, 'backup': 'none',
                                    'maxiter': 3, 'conv': conv, 'trials': trials}}
        # genuine (not injected) failures of every kind the solver can report: iteration limit and wall-clock limit
        for mi in (0, 1, -1):
            for backup in ('none', 'fail', 'ok'):
                for conv in (False, True):
                    yield {'net': net, 'gadget': gadget,
                           'plan': {'kind': 'maxiter', 'solver': 'newton', 'mode': 'abs', 'k': 0, 'msg': 0,
                                    'backup_msg': 0, 'backup': backup, 'maxiter': mi, 'conv': conv, 'trials': 3}}


def summarize(case):
    n = case['net']
    return {'opts': n['opts'], 'n_junctions': len(n['junctions']), 'tanks': len(n['tanks']), 'pumps': len(n['pumps']),
            'valves': len(n['valves']), 'gadget': case['gadget'], 'plan': case['plan']}


# ------------------------------------------------------------------------------------------------ model building
def _xpipe(name, a, b, status='OPEN'):
    return {'name': name, 'a': a, 'b': b, 'len': 50.0, 'diam': 0.2, 'C': 100.0, 'minor': 0.0, 'status': status,
            'cv': False}


def with_gadget(net, g):
    """spec + the control gadget (plain data in, plain data out)"""
    spec = copy.deepcopy(net)
    spec['controls'] = list(spec.get('controls', []))
    if not g:
        return spec
    host = spec['junctions'][g['at'] % len(spec['junctions'])]
    x, elev, T = host['name'], host['elev'], int(g['T'])

    def junction(name, dem):
        spec['junctions'].append({'name': name, 'elev': elev, 'demands': [[dem, None, None]]})

    def cond(node, op, thr, link, value):
        spec['controls'].append({'kind': 'cond', 'node': node, 'nattr': 'pressure', 'op': op, 'thr': thr,
                                 'link': link, 'attr': 'status', 'value': value,
                                 'name': 'cx%d' % len(spec['controls'])})

    def at_time(link, value):
        spec['controls'].append({'kind': 'time', 'at': T, 'link': link, 'attr': 'status', 'value': value,
                                 'name': 'cx%d' % len(spec['controls'])})
    if g['kind'] == 'osc':
        junction('JXA', 0.0)
        junction('JXB', g['dem'])
        spec['pipes'].append(_xpipe('LXE', x, 'JXA', 'CLOSED' if T > 0 else 'OPEN'))
        spec['pipes'].append(_xpipe('LXO', 'JXA', 'JXB'))
        if T > 0:
            at_time('LXE', 'OPEN')
        cond('JXB', '>', 1.0, 'LXO', 'CLOSED')     # pressurised -> cut the dead end off (pressure becomes 0)
        cond('JXB', '<', 0.5, 'LXO', 'OPEN')       # isolated -> connect it again
    else:
        m = int(g['m'])
        for i in range(1, m + 2):
            junction('JX%d' % i, g['dem'])
            spec['pipes'].append(_xpipe('LX%d' % i, x, 'JX%d' % i, 'CLOSED' if (i == 1 and T == 0) else 'OPEN'))
        if T > 0:
            at_time('LX1', 'CLOSED')
        for i in range(1, m + 1):
            cond('JX%d' % i, '<', 0.5, 'LX%d' % (i + 1), 'CLOSED')
    return spec


# ------------------------------------------------------------------------------------------------ one observed run
class _Abort(BaseException):
    """raised by the call wrapper when the solver-call budget is exhausted"""


def simulate(spec, cfg, inject_at):
    """Run WNTRSimulator on the spec with wntr.sim.core._solver_helper wrapped (restored afterwards).
    cfg = config(...) (fixed shape); inject_at = 1-based primary call to fail (0 = never).
    -> plain-data record of the run (solver-call log, exception, warnings, error_code, tables)."""
    (trials, conv, primary, maxiter, backup, backup_kind, backup_maxiter, inject, msg, backup_ok, backup_msg,
     cap) = cfg
    if not inject:
        inject_at = 0
    import scipy.optimize
    import wntr
    import wntr.sim.core as core
    from wntr.sim.solvers import NewtonSolver, SolverStatus
    solvers = {'newton': NewtonSolver, 'fsolve': scipy.optimize.fsolve, 'fsolve_jac': scipy.optimize.fsolve,
               # scipy's quasi-Newton solvers (run_sim accepts them): two iterations never converge = a genuine failure
               'broyden1': scipy.optimize.broyden1, 'anderson': scipy.optimize.anderson,
               'newton_krylov': scipy.optimize.newton_krylov}
    sp = dict(spec)
    sp['opts'] = dict(spec['opts'], trials=trials)
    run = {'log': [], 'exc': None, 'aborted': False, 'warnings': [], 'trials': trials, 'conv': conv,
           'backup': backup, 'cap': cap, 'returned': False, 'build_error': None}
    try:
        wn = S.build_wn(sp)
    except Exception as e:
        run['build_error'] = (exc_bucket(e, 'build'), repr(e))
        return run
    log = run['log']
    real = core._solver_helper
    state = {'primary': 0, 'hit': False, 'iters': 0}

    per_step = (trials + 2) * (2 if backup else 1)

    def wrapped(model, solver, opts):
        if len(log) >= cap:
            raise _Abort()
        if len(log) >= per_step and log[-per_step]['t'] == float(wn.sim_time):
            run['same_time_calls'] = per_step + 1
            raise _Abort()
        role = 'backup' if ('BT_MAXITER' in opts or 'xtol' in opts or 'x_rtol' in opts) else 'primary'
        e = {'t': float(wn.sim_time), 'role': role, 'inj': False, 'status': None,
             'solver': backup_kind if role == 'backup' else primary}
        log.append(e)
        if role == 'primary':
            state['primary'] += 1
            state['hit'] = state['primary'] == inject_at
            if state['hit']:
                e['inj'], e['status'] = True, 0
                return (SolverStatus.error, msg, 0)
        else:
            hit, state['hit'] = state['hit'], False
            if hit and not backup_ok:
                e['inj'], e['status'] = True, 0
                return (SolverStatus.error, backup_msg, 0)
        out = real(model, solver, opts)
        e['status'] = int(out[0])
        if isinstance(out[2], int):
            state['iters'] += out[2]
            if state['iters'] > ITER_BUDGET:      # deterministic stand-in for a wall-clock budget
                run['iter_budget'] = True
                raise _Abort()
        return out

    # the same keyword shape with and without a backup solver (keeps the two forked runs allocation-identical)
    # (the backup options carry a key the primary options never have: that is how the wrapper tells the calls apart;
    #  BT_MAXITER=100 and xtol=1.49012e-08 are the default values of NewtonSolver and scipy.optimize.fsolve)
    if backup_kind == 'newton':
        # (a MAXITER of -1 stands for the solver's wall-clock limit: TIME_LIMIT 0 makes every solve give up at once)
        bopts = {'MAXITER': backup_maxiter, 'BT_MAXITER': 100} if backup_maxiter >= 0 else {'TIME_LIMIT': 0, 'BT_MAXITER': 100}
    elif backup_kind == 'fsolve':
        bopts = {'xtol': 1.49012e-08}
    elif backup_kind in ('broyden1', 'anderson', 'newton_krylov'):
        bopts = {'maxiter': 2, 'x_rtol': 1e-12}
    else:
        bopts = {'xtol': 1.49012e-08, 'use_jac': True}
    popts = ({'MAXITER': maxiter} if maxiter >= 0 else {'TIME_LIMIT': 0}) if primary == 'newton' else {}
    kw = {'solver': solvers[primary], 'solver_options': popts,
          'convergence_error': conv, 'HW_approx': spec['opts']['hw_approx'],
          'backup_solver': solvers[backup_kind] if backup else None, 'backup_solver_options': bopts}
    sim = wntr.sim.WNTRSimulator(wn)
    res = None
    core._solver_helper = wrapped
    try:
        with warnings.catch_warnings(record=True) as w:
            warnings.simplefilter('always')
            try:
                res = sim.run_sim(**kw)
                run['returned'] = True
            except CaseTimeout:
                raise
            except _Abort:
                run['aborted'] = True
            except Exception as exc:
                run['exc'] = {'type': type(exc).__name__, 'text': str(exc), 'runtime': isinstance(exc, RuntimeError),
                              'bucket': exc_bucket(exc, 'raises')}
            run['warnings'] = [str(x.message) for x in w]
    finally:
        core._solver_helper = real
    if run['returned']:
        code = getattr(res, 'error_code', None)
        run['code_none'] = code is None
        run['code_repr'] = repr(code)
        try:
            run['code_int'] = None if code is None else int(code)
        except Exception:
            run['code_int'] = None
        for grp in ('node', 'link'):
            d = getattr(res, grp, None)
            if not isinstance(d, dict):
                run[grp] = type(d).__name__
                continue
            out = {}
            for key in d:
                df = d[key]
                out[str(key)] = ([x.item() if hasattr(x, 'item') else x for x in df.index],
                                 [str(c) for c in df.columns], df.values)
            run[grp] = out
    return run


# Two runs of one model in one process differ by solver noise (the C++ evaluator orders variables by address; on
# ill-conditioned steps the difference reaches 1e-5 in a flow).  Children forked from the same parent state build
# the model at the same addresses and are bit-identical up to the fault, so the prefix comparison is exact.
def config(trials, conv, primary='newton', maxiter=3000, backup=False, backup_kind='newton', backup_maxiter=3000,
           inject=False, msg='', backup_ok=True, backup_msg='', cap=100000):
    return (trials, conv, primary, maxiter, backup, backup_kind, backup_maxiter, inject, msg, backup_ok, backup_msg,
            cap)


K_OFFSET = 1000000
CRASH_SIGNALS = (signal.SIGSEGV, signal.SIGABRT, signal.SIGBUS, signal.SIGFPE, signal.SIGILL)


def _child(spec, cfg, r, w, gr, gw):
    code = 0
    try:
        os.close(r)
        os.close(gw)
        signal.signal(signal.SIGALRM, signal.SIG_DFL)
        signal.setitimer(signal.ITIMER_REAL, 6 * CASE_TIMEOUT)     # an orphan never lives longer than this
        try:
            k = int(os.read(gr, 64).decode() or K_OFFSET) - K_OFFSET
            payload = simulate(spec, cfg, k)
        except BaseException:
            payload = {'harness_error': traceback.format_exc()}
        data = pickle.dumps(payload, 2)
        view = memoryview(data)
        while len(view):
            n = os.write(w, view[:1 << 16])
            view = view[n:]
    except BaseException:
        code = 3
    finally:
        os._exit(code)


def _spawn_pair(spec, cfg_a, cfg_b, handles):
    """fork run A and run B back to back from one parent state; each waits for its go message"""
    ha = {'pid': None, 'r': None, 'gw': None}
    hb = {'pid': None, 'r': None, 'gw': None}
    handles.append(ha)
    handles.append(hb)
    ra, wa = os.pipe()
    gra, gwa = os.pipe()
    ha.update(r=ra, gw=gwa)
    if cfg_b is not None:
        rb, wb = os.pipe()
        grb, gwb = os.pipe()
        hb.update(r=rb, gw=gwb)
    pid = os.fork()
    if pid == 0:
        pad = int('1234567')   # noqa: F841  mirrors the pid object that exists in the lineage of run B
        if cfg_b is not None:
            for fd in (rb, wb, grb, gwb):
                os.close(fd)
        _child(spec, cfg_a, ra, wa, gra, gwa)
    ha['pid'] = pid
    if cfg_b is not None:
        pid = os.fork()
        if pid == 0:
            os.close(ra)
            os.close(gwa)
            os.close(wa)
            os.close(gra)
            _child(spec, cfg_b, rb, wb, grb, gwb)
        hb['pid'] = pid
        os.close(wb)
        os.close(grb)
    os.close(wa)
    os.close(gra)
    return ha, hb


def _go(h, k=0):
    os.write(h['gw'], b'%d' % (K_OFFSET + k))
    os.close(h['gw'])
    h['gw'] = None


def _collect(h):
    chunks = []
    while True:
        b = os.read(h['r'], 1 << 16)
        if not b:
            break
        chunks.append(b)
    os.close(h['r'])
    h['r'] = None
    _pid, status = os.waitpid(h['pid'], 0)
    h['pid'] = None
    if os.WIFSIGNALED(status):
        return {'crashed': os.WTERMSIG(status)}
    data = b''.join(chunks)
    if not data:
        raise RuntimeError('C16 harness error: the forked run produced no data (wait status %r)' % (status,))
    out = pickle.loads(data)
    if 'harness_error' in out:
        raise RuntimeError('C16 harness error in the forked run:\n' + out['harness_error'])
    return out


def _reap(handles):
    for h in handles:
        for k in ('gw', 'r'):
            if h.get(k) is not None:
                try:
                    os.close(h[k])
                except OSError:
                    pass
                h[k] = None
        if h.get('pid'):
            try:
                os.kill(h['pid'], signal.SIGKILL)
            except OSError:
                pass
            try:
                os.waitpid(h['pid'], 0)
            except OSError:
                pass
            h['pid'] = None


def steps_of(log):
    """consecutive calls at one sim time = one step; decision of a primary call = its status, or the status of
    the backup call that follows it"""
    steps = []
    for i, e in enumerate(log):
        if not steps or steps[-1]['t'] != e['t']:
            steps.append({'t': e['t'], 'decisions': [], 'first_call': i})
        stp = steps[-1]
        if e['role'] == 'primary':
            stp['decisions'].append({'call': i, 'ok': e['status'] == 1, 'inj': e['inj'], 'backup': False,
                                     'raised': e['status'] is None, 'solver': e['solver'], 'primary': e['solver']})
        elif stp['decisions']:
            d = stp['decisions'][-1]
            d.update(ok=e['status'] == 1, backup=True, inj=d['inj'] and e['inj'], raised=e['status'] is None, call=i,
                     solver=e['solver'])
        else:   # a backup call that does not follow a primary call of the same step
            stp['decisions'].append({'call': i, 'ok': e['status'] == 1, 'inj': e['inj'], 'backup': True,
                                     'raised': e['status'] is None, 'solver': e['solver'], 'primary': None})
    return steps


def _grid_last(spec):
    o = spec['opts']
    rep = o['hyd'] if o['rep'] == 'ALL' else o['rep']
    return (o['duration'] // rep) * rep


def call_cap(spec, trials, backup):
    # step times are whole seconds: at most duration+1 steps, each with at most trials+2 (x2 with a backup) calls
    return (spec['opts']['duration'] + 2) * (trials + 2) * (2 if backup else 1)


def judge(run, spec, info):
    """Oracle for one run (plain-data record from simulate). -> None | (bucket, detail).
    Fills info: failed, kind, t_fail, call_fail, index, tables, tags."""
    import numpy as np
    o = spec['opts']
    tags = info.setdefault('tags', [])
    log = run['log']
    if run.get('crashed'):
        return ('termination/process_died', 'the process running run_sim died of signal %d' % run['crashed'])
    if run['aborted']:
        if run.get('same_time_calls'):
            return ('termination/solver_call_bound', 'trials=%s, backup solver %s: solver call number %d at the same '
                    'simulation time t=%s (the run does not advance and is not stopped): %r ...'
                    % (run['trials'], run['backup'], run['same_time_calls'], log[-1]['t'],
                       [(e['t'], e['role'], e['status']) for e in log[-4:]]))
        return ('termination/solver_call_bound', 'more than %d solver calls (duration %s, hyd %s, trials %s): %r ...'
                % (run['cap'], o['duration'], o['hyd'], run['trials'], [(e['t'], e['role'], e['status']) for e in log[-6:]]))
    steps = steps_of(log)
    decisions = [(s, d) for s in steps for d in s['decisions']]
    info['steps'] = steps
    info['failed'] = False
    info['t_fail'] = None
    exc = run['exc']
    how = ('raised %s(%r)' % (exc['type'], exc['text'][:200])) if exc else 'returned error_code=%s' % run.get('code_repr')
    # a failed solve must be the last thing the run does
    for n, (s, d) in enumerate(decisions):
        if not d['ok'] and not d['raised'] and n != len(decisions) - 1:
            return ('hidden_failure/run_continued_after_failed_solve',
                    'solver call %d at t=%s returned error (backup used: %s) but %d more solve(s) followed; run_sim %s'
                    % (d['call'], s['t'], d['backup'], len(decisions) - 1 - n, how))
    solver_failed = bool(decisions) and not decisions[-1][1]['ok'] and not decisions[-1][1]['raised']
    last = decisions[-1] if decisions else None
    if solver_failed:
        s, d = last
        tags.append('failing_call:first' if d['call'] == 0 else 'failing_call:later')
        tags.append('failure:injected' if d['inj'] else 'failure:genuine')
        if len(s['decisions']) > 1:
            tags.append('fail_inside_resolve_trial')
        if s['t'] % o['hyd'] != 0:
            tags.append('fail_at_partial_step')
        if o['rep'] != 'ALL' and s['t'] % o['rep'] != 0:
            tags.append('fail_off_report_grid')
        if d['backup']:
            tags.append('backup_failed_too')
    if any(d['ok'] and d['backup'] for _s, d in decisions):
        tags.append('backup_recovered_step')
    # first step solved by another kind of solver than the primary one: later rows legitimately differ from a run
    # solved by the primary solver alone (different stopping rule)
    info['t_other_solver'] = min([s['t'] for s, d in decisions if d['ok'] and d['backup'] and d['solver'] != d['primary']]
                                 or [float('inf')])
    if solver_failed and not last[1]['inj']:
        text = ' '.join(run['warnings']) + (run['exc']['text'] if run['exc'] else '')
        for key, tag in (('singular', 'genuine:singular_jacobian'), ('Line search', 'genuine:line_search'),
                         ('maximum number of iterations', 'genuine:iteration_limit')):
            if key in text:
                tags.append(tag)

    def flag(kind):
        info['kind'] = kind
        info['failed'] = True
        info['t_fail'] = steps[-1]['t'] if steps else None
        info['call_fail'] = last[1]['call'] if last else None
        if kind == 'trials':
            tags.append('failure:trial_limit')
            if steps and steps[-1]['t'] % o['hyd'] != 0:
                tags.append('fail_at_partial_step')

    if exc is not None:
        text = exc['text']
        low = text.lower()
        if not exc['runtime']:
            return (exc['bucket'], 'run_sim raised %s: %s (convergence_error=%s, a solver call had failed: %s)'
                    % (exc['type'], text[:300], run['conv'], solver_failed))
        if not ('converge' in low or 'trial' in low):
            return (exc['bucket'], 'run_sim raised RuntimeError %r that does not report a failed step' % text[:300])
        if not run['conv']:
            return ('failure/raised_although_convergence_error_false',
                    'convergence_error=False but run_sim raised RuntimeError(%r)' % text[:300])
        if not solver_failed and 'trial' not in low:
            return ('failure/reported_without_failed_solve', 'RuntimeError(%r) but the last solver call converged'
                    % text[:300])
        flag('solver' if solver_failed else 'trials')
        tags.append('outcome:RuntimeError')
        return None
    code_none = run['code_none']
    wtext = [m for m in run['warnings'] if ('converge' in m.lower() or 'trial' in m.lower())]
    if code_none and wtext:
        return ('failure/error_code_not_set', 'run_sim warned %r but returned error_code=None' % wtext[:2])
    if solver_failed and run['conv']:
        return ('failure/not_raised_with_convergence_error',
                'convergence_error=True, solver call %d at t=%s failed, but run_sim returned (error_code=%s)'
                % (last[1]['call'], last[0]['t'], run['code_repr']))
    if solver_failed and code_none:
        return ('failure/error_code_not_set', 'solver call %d at t=%s failed, run_sim returned error_code=None; warnings %r'
                % (last[1]['call'], last[0]['t'], run['warnings'][:3]))
    if not code_none:
        if run['conv']:
            return ('failure/not_raised_with_convergence_error',
                    'convergence_error=True but run_sim returned error_code=%s; warnings %r'
                    % (run['code_repr'], run['warnings'][:3]))
        if not wtext:
            return ('failure/no_warning', 'error_code=%s but no warning about convergence/trials was issued: %r'
                    % (run['code_repr'], run['warnings'][:5]))
        if run['code_int'] != 0:
            return ('failure/error_code_value', 'error_code=%s, documented value is 0' % run['code_repr'])
        if not solver_failed and not any('trial' in m.lower() for m in wtext):
            return ('failure/reported_without_failed_solve',
                    'error_code=%s, warnings %r, but the last solver call converged' % (run['code_repr'], wtext[:3]))
        flag('solver' if solver_failed else 'trials')
        tags.append('outcome:error_code')
        completed = steps[:-1]
    else:
        tags.append('outcome:complete')
        completed = steps
        for s in steps:
            nok = sum(1 for d in s['decisions'] if d['ok'])
            if nok > run['trials'] + 2:
                return ('hidden_failure/trial_limit_not_enforced',
                        'step t=%s was solved %d times with trials=%d and the run was not flagged'
                        % (s['t'], nok, run['trials']))
    rep = o['rep']
    expected = [int(s['t']) for s in completed if rep == 'ALL' or int(s['t']) % rep == 0]
    # ---- tables
    tables = {}
    for grp, want, names in (('node', NODE_TABLES, S.node_names(spec)),
                             ('link', LINK_TABLES, [l[0] for l in S.links_of(spec)])):
        d = run.get(grp)
        if not isinstance(d, dict):
            return ('tables/%s_missing' % grp, 'results.%s is %r' % (grp, d))
        for key in want:
            if key not in d:
                return ('tables/%s_missing' % grp, 'results.%s has no table %r (has %r)' % (grp, key, sorted(d)))
        for key in sorted(d):
            idx, cols, vals = d[key]
            if sorted(cols) != sorted(names):
                return ('columns/%s' % grp, '%s[%r]: columns %r, model elements %r (rows %d)'
                        % (grp, key, cols, names, len(idx)))
            if vals.dtype.kind not in 'fiub':
                return ('values/non_numeric_dtype', '%s[%r] has dtype %s' % (grp, key, vals.dtype))
            if vals.size and not np.isfinite(vals.astype(float)).all():
                bad = np.argwhere(~np.isfinite(vals.astype(float)))[0]
                return ('values/not_finite/%s.%s' % (grp, key), '%s[%r] at t=%s element %s = %r'
                        % (grp, key, idx[bad[0]], cols[bad[1]], vals[bad[0], bad[1]]))
            tables[(grp, key)] = (idx, cols, vals)
    first = tables[('node', 'head')][0]
    for k2, (idx, _c, _v) in sorted(tables.items()):
        if idx != first:
            return ('index/not_shared', '%s index %r differs from node head index %r' % (k2, idx[:12], first[:12]))
    if any(not (b > a) for a, b in zip(first, first[1:])):
        return ('index/not_strictly_increasing', 'index %r' % (first[:40],))
    if rep != 'ALL' and any(t % rep != 0 for t in first):
        return ('index/off_report_grid', 'report step %s, index %r' % (rep, first[:40]))
    if any(t > o['duration'] for t in first):
        return ('index/beyond_duration', 'duration %s, index %r' % (o['duration'], first[-5:]))
    if first != expected:
        extra = [t for t in first if t not in expected]
        missing = [t for t in expected if t not in first]
        what = 'unsolved_or_failed_step_reported' if extra else 'solved_step_missing'
        return ('index/%s' % what, 'report step %s: index %r, steps completed before the end/failure %r (failing step '
                't=%s); extra %r missing %r' % (rep, first[-8:], expected[-8:], info['t_fail'], extra[:5], missing[:5]))
    if code_none:
        want_last = _grid_last(spec)
        # with 'ALL' every solved step is a row: steps solved after the last hydraulic-grid point (an event, the start
        # of a pattern period) are legitimate rows too, so only 'not before the last grid point' is demanded there
        if not first or (first[-1] != want_last if rep != 'ALL' else first[-1] < want_last):
            return ('complete_run/last_row', 'error_code None, duration %s, report %s, hyd %s: last index %r, expected %s'
                    % (o['duration'], rep, o['hyd'], first[-1:] or None, want_last))
    info['index'] = first
    info['tables'] = tables
    return None


def compare_prefix(info, ref, spec):
    """rows reported by the faulted run == the same rows of the fault-free run (up to the first failure of either)"""
    import numpy as np
    if 'tables' not in info or 'tables' not in ref:
        return None
    limit = min(info['t_other_solver'], ref['t_other_solver'])
    if info['failed']:
        limit = min(limit, info['t_fail'])
    if ref['failed']:
        limit = min(limit, ref['t_fail'])
    a_idx = [t for t in info['index'] if t < limit]
    b_idx = [t for t in ref['index'] if t < limit]
    if a_idx != b_idx:
        return ('prefix/index_differs_from_fault_free_run',
                'rows before t=%s: faulted run %r, fault-free run %r' % (limit, a_idx[-8:], b_idx[-8:]))
    info['compared_rows'] = len(a_idx)
    if not a_idx:
        return None
    n = len(a_idx)
    for key in sorted(info['tables']):
        _i, cols, va = info['tables'][key]
        _j, colsb, vb = ref['tables'][key]
        vb = vb[:, [colsb.index(c) for c in cols]].astype(float)[:n]
        va = va.astype(float)[:n]
        tol = 1e-9 * np.maximum(1.0, np.abs(vb))
        bad = np.argwhere(~(np.abs(va - vb) <= tol))
        if len(bad):
            r, c = bad[0]
            return ('prefix/values_differ_from_fault_free_run',
                    '%s[%s] t=%s %s: %.12g with the fault, %.12g without (failing step t=%s)'
                    % (key[0], key[1], a_idx[r], cols[c], va[r, c], vb[r, c], info['t_fail']))
    return None


def _resolve_k(plan, ref_log, hyd):
    """1-based index of the primary call to fail, chosen among the calls of the fault-free run"""
    prim = [e for e in ref_log if e['role'] == 'primary']
    n = len(prim)
    if n == 0:
        return 1
    if plan['mode'] == 'last':
        return n
    cand = None
    if plan['mode'] == 'resolve':
        cand = [i + 1 for i in range(1, n) if prim[i]['t'] == prim[i - 1]['t']]
    elif plan['mode'] == 'event':
        cand = [i + 1 for i in range(n) if prim[i]['t'] % hyd != 0]
    if cand:
        return cand[plan['k'] % len(cand)]
    return 1 + plan['k'] % n


def check(case):
    out = _once(case)
    # A prefix mismatch must be reproducible: the two forked runs are bit-identical up to the fault unless the
    # numerical libraries are multi-threaded (the harness pins them to one thread); a defect reproduces every time.
    n = 0
    while out['status'] == 'fail' and out['bucket'].startswith('prefix/') and n < 2:
        again = _once(case)
        n += 1
        if again['status'] != 'fail' or again['bucket'] != out['bucket']:
            return inconclusive('prefix mismatch not reproducible (solver noise between two runs of one model)',
                                out.get('tags', ()))
    return out


def _once(case):
    import wntr.sim.core  # noqa: F401  (imported in the parent so that the forked runs do not pay for it)
    plan, g = case['plan'], case['gadget']
    spec = with_gadget(case['net'], g)
    o = spec['opts']
    tags = [t for t in netgen.features(case['net']) if not t.startswith(('hw:', 'pumpcurve:'))]
    tags += ['gadget:%s' % (g['kind'] if g else 'none'), 'plan:%s' % plan['kind'], 'conv_error:%s' % plan['conv'],
             'trials:%d' % plan['trials'], 'report:%s' % ('ALL' if o['rep'] == 'ALL' else 'x%d' % (o['rep'] // o['hyd']))]
    if g and g['T'] % o['hyd'] != 0 and g['T'] <= o['duration']:
        tags.append('gadget_off_grid')
    primary = plan.get('solver', 'newton') if plan['kind'] != 'maxiter' else 'newton'
    single = plan['kind'] == 'none' and plan['trials'] == REF_TRIALS and not plan['conv'] and plan['backup'] == 'none'
    backup = plan['backup'] != 'none'
    bkind = plan['backup'] if plan['backup'] in ('fsolve', 'fsolve_jac', 'broyden1', 'anderson', 'newton_krylov') else 'newton'
    cap = call_cap(spec, plan['trials'], backup)
    common = {'primary': primary, 'backup': backup, 'backup_kind': bkind, 'cap': cap}
    if plan['kind'] == 'inject':
        cfg = config(plan['trials'], plan['conv'], inject=True, msg=MSGS[plan['msg']],
                     backup_ok=plan['backup'] != 'fail', backup_msg=MSGS[plan['backup_msg']], **common)
        tags.append('msg:%s' % MSGS[plan['msg']].split()[0])
    elif plan['kind'] == 'maxiter':
        cfg = config(plan['trials'], plan['conv'], maxiter=plan['maxiter'],
                     backup_maxiter=plan['maxiter'] if plan['backup'] == 'fail' else 3000, **common)
        tags.append('maxiter:%d' % plan['maxiter'])
    else:
        cfg = config(plan['trials'], plan['conv'], **common)
    tags.append('solver:%s' % primary)
    if backup:
        tags.append('backup:%s' % plan['backup'])
    ref_cfg = config(REF_TRIALS, False, primary=primary, backup=False, backup_kind=bkind,
                     cap=call_cap(spec, REF_TRIALS, False))
    handles = []
    try:
        # both runs are forked from one parent state before either starts (see _spawn_pair)
        ha, hb = _spawn_pair(spec, ref_cfg, None if single else cfg, handles)
        _go(ha)
        ref_run = _collect(ha)
        if ref_run.get('crashed') and ref_run['crashed'] not in CRASH_SIGNALS:
            return inconclusive('forked run killed by signal %d' % ref_run['crashed'], tags)
        if ref_run.get('iter_budget'):
            return inconclusive('model converges too slowly: more than %d Newton iterations in one run' % ITER_BUDGET, tags)
        if ref_run.get('build_error'):
            return fail(ref_run['build_error'][0], 'building the model raised %s' % ref_run['build_error'][1], tags)
        ref = {'tags': []}
        bad = judge(ref_run, spec, ref)
        if bad:
            return fail(bad[0], '[run without fault plan, trials=%d] %s' % (REF_TRIALS, bad[1]),
                        tags + ['in:reference_run'] + ref['tags'])
        if single:
            tags += ref['tags']
            return passed(_nontrivial(ref), tags)
        tags += ['ref:' + t for t in ref['tags'] if t.startswith(('outcome:', 'failure:', 'genuine:', 'failing_call:'))]
        _go(hb, _resolve_k(plan, ref_run['log'], o['hyd']))
        run = _collect(hb)
        if run.get('crashed') and run['crashed'] not in CRASH_SIGNALS:
            return inconclusive('forked run killed by signal %d' % run['crashed'], tags)
    finally:
        _reap(handles)
    if run.get('iter_budget'):
        return inconclusive('model converges too slowly: more than %d Newton iterations in one run' % ITER_BUDGET, tags)
    info = {'tags': []}
    bad = judge(run, spec, info)
    tags += info['tags']
    if bad:
        return fail(bad[0], bad[1], tags)
    if plan['kind'] == 'inject' and not any(e['inj'] for e in run['log']):
        tags.append('injection_point_not_reached')
    bad = compare_prefix(info, ref, spec)
    if bad:
        return fail(bad[0], bad[1], tags)
    if info.get('compared_rows'):
        tags.append('prefix_rows:%s' % ('1' if info['compared_rows'] == 1 else '2+'))
    return passed(_nontrivial(info) or _nontrivial(ref), tags)


def _nontrivial(info):
    if info['failed']:
        return info.get('kind') == 'trials' or (info.get('call_fail') or 0) >= 1
    return len(info.get('index', ())) >= 2
