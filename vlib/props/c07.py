"""C07 - pressure-dependent demand follows the documented pressure-demand curve.

Two kinds of case (one Hypothesis strategy, `case['kind']`):

model  one reservoir, two junctions (J1 with optional per-junction overrides, J2 without); the hydraulic model
       is created with `create_hydraulic_model` and the residual of `m.pdd[j]` (with the demand variable set to
       0 the residual is -delivered) is read through the compiled evaluator while the head of the junction is
       swept from far below Pmin to far above Preq.  The delivered demand q(p) is judged against a reference
       written from the statement: value, monotonicity and continuity (every grid interval over which q changes
       is bisected down to 1e-9 m; what remains at that width is a jump).
sim    a generated network (vlib.netgen) simulated with WNTRSimulator in PDD mode with generated global and
       per-junction Pmin/Preq/exponent; for every reported step and every connected junction the reported
       demand is compared with D_j(t)*f(p_j) evaluated from the *spec*.
"""
import math

from hypothesis import strategies as st

from .. import netgen, spec as S
from ..outcome import exc_bucket, fail, inconclusive, passed

ID = 'C07'
LEVEL = 'exploration'
CASES = {'quick': 6000, 'thorough': 120000}
CASE_TIMEOUT = 40
TECHNIQUE = ('property-based testing (Hypothesis): sweep of the compiled pdd constraint residual over head against a '
             'reference curve written from the statement (value, monotonicity, jump search by bisection), plus PDD '
             'simulations of generated networks re-evaluated from the generated spec')
RULE = ('model cases (~92 %): global Pmin in [0,30] m (J1 override up to 110 m), Preq-Pmin in [0.07,80] m (incl. the default 0.07, 0.0999, 0.1, '
        '0.1001), exponent in [0.01,1]; junction J1 overrides any subset of {minimum_pressure, required_pressure, '
        'pressure_exponent}, J2 none; requested demand D in [0,2] incl. 0; elevation in [-5,500]. Sweep per junction: '
        'Pmin-1000 .. Preq+1000 with 0.01 m grids around both thresholds, both band edges +-1e-9, 40 interior points '
        'and 6 generated probe pressures; every interval with a change of q is bisected to 1e-9 m. '
        'sim cases (~16 %): netgen networks (2-6 junctions, tanks, pumps, CV/closed pipes, patterns) in PDD mode with '
        'generated global/per-junction parameters, one WNTRSimulator run. '
        'Non-trivial: model = D > 0 and (an effective exponent != 0.5 or an override present); sim = converged and '
        'some connected junction with D > 0 has Pmin < p < Preq. Distinct = SHA-1 of the case.')
ASSUMPTIONS = [
    'Preq - Pmin >= 0.07 m: the documentation names 0.07 m (0.1 psi, EPANET MINPDIFF) as the smallest supported '
    'required pressure (default Pmin 0, Preq 0.07); smaller differences are outside the generated domain',
    'Pmin >= 0 and Preq <= 110 m (realistic pressures; the rounding of smoothing cubics evaluated in absolute pressure '
    'coordinates grows with the cube of the pressure and is allowed for in the jump tolerance)',
    '"narrow smoothing band at each end" = (Pmin, Pmin+0.05) and (Preq-0.05, Preq): '
    'wntr/sim/models/constants.py pdd_constants: pdd_smoothing_delta = 0.05 m; inside a band only 0 <= f <= curve at '
    'the band end resp. curve at the band start <= f <= 1, monotonicity and continuity are demanded; when '
    'Preq-Pmin <= 0.1 m the two bands overlap or touch and only 0 <= f <= 1, monotonicity and continuity are demanded between '
    'the thresholds',
    'sim: junctions not connected to a source through non-closed links (own BFS on the reported status) are skipped '
    '("connected junction"); runs WNTR reports as not converged are inconclusive',
]
TOLERANCES = {
    'band_width_m': '0.05 (constants.pdd_smoothing_delta)',
    'zero_below_pmin': '|q| <= D*(1e-9*|p-Pmin| + 1e-12): constants.pdd_slope = 1e-11 regularisation slope, x100',
    'full_above_preq': '|q-D| <= D*(1e-9*|p-Preq| + 1e-12): same slope',
    'curve_rel': '1e-9*D on [Pmin+0.05, Preq-0.05] (double rounding of pow is ~1e-16; tolJ*D within 1e-6 m of a '
                 'band edge where WNTR may already evaluate its cubic)',
    'jump': 'a change of q of more than tolJ*D over an interval of 2e-9 m is a discontinuity; '
            'tolJ = 1e-6 + 32*eps*(max(|Pmin|,|Preq|)/w)^3 with w = min(0.05, (Preq-Pmin)/2) the band width: largest legitimate slope of f in the domain is 3/0.05 = 60 '
            'per m => 1.2e-7 over 2e-9 m; the second term is the rounding of a smoothing cubic over a 0.05 m band written '
            'in powers of the absolute pressure (the representation of param.pdd_poly_coeffs_param / cubic_spline; '
            'measured 2e-6 at Pmin = 80 m); it is 1e-6 for pressures below 10 m and 7.7e-5 at 110 m',
    'monotone': 'q(p2) >= q(p1) - tolJ*D for p2 > p1 (same rounding bound)',
    'sim_abs': '|demand - D*f(p)| <= 1.05e-6 m3/s (NewtonSolver TOL = 1e-6 on the residual inf-norm) + 1e-9*D',
}

DELTA = 0.05
MIN_GAP = 0.07
EPS = 2.220446049250313e-16


def tol_j(a, b):
    """jump / monotonicity / band tolerance as a fraction of D (see TOLERANCES['jump'])"""
    # the band is min(0.05, (Preq-Pmin)/2) wide since the band-overlap repair: a narrower band is worse conditioned
    return 1e-6 + 32.0 * EPS * (max(abs(a), abs(b)) / min(DELTA, 0.5 * abs(b - a))) ** 3


# ----------------------------------------------------------------------------- reference from the statement
def f_ref(p, a, b, e):
    if p <= a:
        return 0.0
    if p >= b:
        return 1.0
    return ((p - a) / (b - a)) ** e


def bands_overlap(a, b):
    # the two bands leave no interior interval (a zero-width interior, Preq-Pmin = 0.1, counts as none)
    return (b - a) < 2 * DELTA + 1e-6


def regime(a, b, e):
    if bands_overlap(a, b):
        return 'bands_overlap'
    return 'exp_0.5' if e == 0.5 else 'exp_ne_0.5'


def eff(case, which):
    """effective (pmin, preq, exponent) of junction `which` (1 = with overrides, 2 = global)"""
    a, b, e = case['pmin'], case['preq'], case['pexp']
    if which == 1:
        if case.get('j_pmin') is not None:
            a = case['j_pmin']
        if case.get('j_preq') is not None:
            b = case['j_preq']
        if case.get('j_pexp') is not None:
            e = case['j_pexp']
    return a, b, e


def where(x, a, b):
    for nm, v in (('pmin', a), ('pmin+delta', a + DELTA), ('preq-delta', b - DELTA), ('preq', b)):
        if abs(x - v) <= 2e-6:
            return nm
    if x < a:
        return 'below_pmin'
    if x > b:
        return 'above_preq'
    if x < a + DELTA:
        return 'in_lower_band'
    if x > b - DELTA:
        return 'in_upper_band'
    return 'interior'


def value_violation(p, q, D, a, b, e):
    """None or (kind, text) - what the statement demands of the delivered demand q at pressure p"""
    if p <= a:
        tol = D * (1e-9 * (a - p) + 1e-12) + 1e-300
        if abs(q) > tol:
            return 'zero_below_pmin', 'p=%.12g <= Pmin=%.12g: delivered %.12g, expected 0 (tol %.3g)' % (p, a, q, tol)
        return None
    if p >= b:
        tol = D * (1e-9 * (p - b) + 1e-12) + 1e-300
        if abs(q - D) > tol:
            return 'full_above_preq', 'p=%.12g >= Preq=%.12g: delivered %.12g, expected D=%.12g (tol %.3g)' % (p, b, q, D, tol)
        return None
    overlap = bands_overlap(a, b)
    lo_edge, hi_edge = a + DELTA, b - DELTA
    if not overlap and lo_edge <= p <= hi_edge:
        near = min(p - lo_edge, hi_edge - p) <= 1e-6
        tol = D * (tol_j(a, b) if near else 1e-9) + 1e-300
        want = D * f_ref(p, a, b, e)
        if abs(q - want) > tol:
            return 'curve_value', ('p=%.12g in [Pmin+d, Preq-d]: delivered %.12g, D*((p-Pmin)/(Preq-Pmin))^e = %.12g '
                                   '(diff %.3g, tol %.3g)' % (p, q, want, q - want, tol))
        return None
    # inside a smoothing band: monotone bound only
    tol = D * tol_j(a, b) + 1e-300
    if overlap:
        lo, hi = 0.0, D
    elif p < lo_edge:
        lo, hi = 0.0, D * f_ref(lo_edge, a, b, e)
    else:
        lo, hi = D * f_ref(hi_edge, a, b, e), D
    if q < lo - tol or q > hi + tol:
        return 'band_bound', ('p=%.12g inside a smoothing band: delivered %.12g outside the monotone bound '
                              '[%.12g, %.12g]' % (p, q, lo, hi))
    return None


def sweep_points(a, b, probes):
    pts = [a - 1000.0, a - 50.0, a - 10.0, a - 1.0, b + 1.0, b + 10.0, b + 50.0, b + 1000.0]
    for c in (a, a + DELTA, b - DELTA, b):
        pts += [c - 1e-9, c, c + 1e-9]
    for c in (a, b):
        k = -30
        while k <= 30:
            pts.append(c + 0.01 * k)
            k += 1
    for k in range(1, 40):
        pts.append(a + (b - a) * k / 40.0)
    for u in probes:
        pts.append(a - 0.5 + u * (b - a + 1.0))
    return sorted(set(pts))


def judge_curve(qfun, D, a, b, e, probes):
    """-> None or (bucket_kind, location, text).  qfun(p) -> (p_actual, delivered)."""
    xs = []
    qs = []
    for p in sweep_points(a, b, probes):
        pa, q = qfun(p)
        if not math.isfinite(q):
            return 'nonfinite', where(pa, a, b), 'delivered demand is %r at p=%.12g' % (q, pa)
        if xs and pa <= xs[-1]:
            continue
        xs.append(pa)
        qs.append(q)
    tol = D * tol_j(a, b) + 1e-300
    # 1. continuity and monotonicity: bisect every interval over which q changes
    for i in range(len(xs) - 1):
        lo, hi, qlo, qhi = xs[i], xs[i + 1], qs[i], qs[i + 1]
        if abs(qhi - qlo) <= tol:
            continue
        if qhi < qlo - tol:
            kind = 'not_monotone'
        else:
            kind = None
        n = 0
        while hi - lo > 2e-9 and n < 60:
            n += 1
            mid = 0.5 * (lo + hi)
            pm, qm = qfun(mid)
            if not (lo < pm < hi):
                break
            if qm < qlo - tol or qhi < qm - tol:
                kind = 'not_monotone'
            if abs(qm - qlo) >= abs(qhi - qm):
                hi, qhi = pm, qm
            else:
                lo, qlo = pm, qm
        if abs(qhi - qlo) > tol:
            down = qhi < qlo
            return ('jump', where(lo, a, b),
                    'delivered demand jumps %s from %.12g at p=%.12g to %.12g at p=%.12g (D=%.6g: fraction %.9g -> %.9g); '
                    'statement: continuous, non-decreasing'
                    % ('DOWN' if down else 'up', qlo, lo, qhi, hi, D, qlo / D, qhi / D))
        if kind:
            return ('not_monotone', where(lo, a, b),
                    'delivered demand decreases with pressure near p=%.12g (q=%.12g .. %.12g)' % (lo, qlo, qhi))
    # 2. values
    for p, q in zip(xs, qs):
        v = value_violation(p, q, D, a, b, e)
        if v:
            return v[0], where(p, a, b), v[1]
    return None


# ----------------------------------------------------------------------------- model-level case
def model_tags(case):
    tags = ['kind:model']
    ov = [k for k in ('j_pmin', 'j_preq', 'j_pexp') if case.get(k) is not None]
    tags += ['override:' + k[2:] for k in ov] or ['no_override']
    for w in (1, 2):
        a, b, e = eff(case, w)
        tags.append('exp=0.5' if e == 0.5 else ('exp=1' if e == 1.0 else ('exp<0.5' if e < 0.5 else 'exp>0.5')))
        if bands_overlap(a, b):
            tags.append('gap<=2delta')
        if b - a == 0.07 and a == 0.0:
            tags.append('default_thresholds')
        tags.append('pmin=0' if a == 0 else 'pmin>0')
    if case['D1'] == 0 or case['D2'] == 0:
        tags.append('D=0')
    return tags


def check_model(case):
    tags = model_tags(case)
    import wntr
    from wntr.sim.hydraulics import create_hydraulic_model
    try:
        wn = wntr.network.WaterNetworkModel()
        h = wn.options.hydraulic
        h.demand_model = 'PDD'
        h.minimum_pressure = case['pmin']
        h.required_pressure = case['preq']
        h.pressure_exponent = case['pexp']
        wn.add_reservoir('R', base_head=50.0)
        wn.add_junction('J1', base_demand=case['D1'], elevation=case['z1'])
        wn.add_junction('J2', base_demand=case['D2'], elevation=case['z2'])
        wn.add_pipe('P1', 'R', 'J1', length=100.0, diameter=0.3, roughness=100.0)
        wn.add_pipe('P2', 'R', 'J2', length=100.0, diameter=0.3, roughness=100.0)
        j1 = wn.get_node('J1')
        if case.get('j_pmin') is not None:
            j1.minimum_pressure = case['j_pmin']
        if case.get('j_preq') is not None:
            j1.required_pressure = case['j_preq']
        if case.get('j_pexp') is not None:
            j1.pressure_exponent = case['j_pexp']
        m, _upd = create_hydraulic_model(wn)
        m.set_structure()
    except Exception as ex:
        return fail(exc_bucket(ex, 'model_build'), 'creating the PDD model raised %r for %r' % (ex, case), tags)
    for which, name in ((1, 'J1'), (2, 'J2')):
        a, b, e = eff(case, which)
        D = case['D%d' % which]
        z = case['z%d' % which]
        idx = m.pdd[name].index
        hv = m.head[name]
        m.demand[name].value = 0.0

        def qfun(p, hv=hv, idx=idx, z=z):
            hh = z + p
            hv.value = hh
            return hh - z, -float(m.evaluate_residuals()[idx])
        bad = judge_curve(qfun, D, a, b, e, case['probes'])
        if bad is None:
            continue
        kind, loc, text = bad
        # which parameters does the junction follow?  (root cause of a value mismatch)
        explain = ''
        if kind in ('curve_value', 'zero_below_pmin', 'full_above_preq', 'band_bound'):
            oa, ob, oe = eff(case, 3 - which)
            if (oa, ob, oe) != (a, b, e) and judge_curve(qfun, D, oa, ob, oe, case['probes']) is None:
                explain = 'follows_other_parameters'
            elif which == 1:
                for attr, alt in (('pmin', (case['pmin'], b, e)), ('preq', (a, case['preq'], e)),
                                  ('pexp', (a, b, case['pexp']))):
                    if alt != (a, b, e) and alt[0] + MIN_GAP <= alt[1] and \
                            judge_curve(qfun, D, alt[0], alt[1], alt[2], case['probes']) is None:
                        explain = 'override_ignored:' + attr
                        break
        if kind in ('jump', 'not_monotone', 'band_bound') and loc in ('pmin', 'pmin+delta', 'preq-delta', 'preq',
                                                                      'in_lower_band', 'in_upper_band') and not explain:
            bucket = 'smoothing_band/%s' % regime(a, b, e)
        elif explain:
            bucket = 'model/%s' % explain
        else:
            bucket = 'model/%s/%s' % (kind, loc)
        return fail(bucket, 'junction %s (%s; Pmin=%r Preq=%r exponent=%r, D=%r, elevation=%r): %s'
                    % (name, 'with overrides' if which == 1 else 'global options', a, b, e, D, z, text), tags)
    nontrivial = False
    for which in (1, 2):
        a, b, e = eff(case, which)
        if case['D%d' % which] > 0 and (e != 0.5 or (which == 1 and 'no_override' not in tags)):
            nontrivial = True
    return passed(nontrivial, tags)


# ----------------------------------------------------------------------------- solution-level case
def check_sim(case):
    spec = case['spec']
    tags = ['kind:sim'] + netgen.features(spec)
    try:
        wn = S.build_wn(spec)
        if spec.get('pdd_controls'):
            from wntr.network.controls import Control, ControlAction
            tags.append('history:pressure_window_controls')
            if any(c.get('pmin', 0) is None or c.get('preq', 0) is None for c in spec['pdd_controls']):
                tags.append('history:pressure_window_override_withdrawn')
            n_ = 0
            for c in spec['pdd_controls']:
                for key, attr in (('pmin', 'minimum_pressure'), ('preq', 'required_pressure')):
                    if key in c:
                        act = ControlAction(wn.get_node(c['junction']), attr, c[key])
                        wn.add_control('pdd%d' % n_, Control._time_control(wn, int(c['at']), 'SIM_TIME', False, act))
                        n_ += 1
    except Exception as ex:
        return fail(exc_bucket(ex, 'build'), 'building the model raised %r' % ex, tags)
    run = S.run_wntr(wn, hw_approx=spec['opts']['hw_approx'])
    if run.exception is not None:
        return inconclusive('run_sim raised %s' % type(run.exception).__name__, tags)
    if len(run.times) == 0:
        return inconclusive('no step converged', tags)
    o = spec['opts']
    status = run.link['status']
    partial = False
    seen = set()
    for k, t in enumerate(run.times):
        closed = set(n for n in status if status[n][k] == 0)
        reach = S.reachable_from_sources(spec, closed)
        for j in spec['junctions']:
            n = j['name']
            if n not in reach:
                seen.add('sim:disconnected_junction')
                continue
            p = run.node['pressure'][n][k]
            q = run.node['demand'][n][k]
            if p == 0.0 and q == 0.0 and run.node['head'][n][k] == 0.0:
                seen.add('sim:reported_isolated')      # WNTR's own isolation marker; not a connected junction
                continue
            a, b = _window_at(spec, j, t)
            if not b - a >= MIN_GAP - 1e-12:
                seen.add('sim:window_control_made_gap_too_small')     # outside the documented domain from here on
                continue
            e = o['pexp'] if j.get('pexp') is None else j['pexp']
            D = S.expected_demand(spec, j, t)
            tol = 1.05e-6 + 1e-9 * abs(D)
            lo_edge, hi_edge = a + DELTA, b - DELTA
            overlap = bands_overlap(a, b)
            if p <= a:
                lo, hi = min(0.0, D * 1e-9 * (p - a)), 0.0
                region = 'zero'
            elif p >= b:
                lo = D
                hi = D * (1.0 + 1e-9 * (p - b))
                region = 'full'
            elif not overlap and lo_edge <= p <= hi_edge:
                lo = hi = D * f_ref(p, a, b, e)
                region = 'curve'
            elif overlap:
                lo, hi = 0.0, D
                region = 'band'
            elif p < lo_edge:
                lo, hi = 0.0, D * f_ref(lo_edge, a, b, e)
                region = 'band'
            else:
                lo, hi = D * f_ref(hi_edge, a, b, e), D
                region = 'band'
            if D > 0:
                seen.add('sim:' + region)
                if a < p < b:
                    partial = True
            if any(j.get(x) is not None for x in ('pmin', 'preq', 'pexp')):
                seen.add('sim:junction_override')
            if not (lo - tol <= q <= hi + tol):
                # does the junction follow the global options instead of its overrides?
                ga, gb, ge = o['pmin'], o['preq'], o['pexp']
                alt = D * f_ref(p, ga, gb, ge)
                if (ga, gb, ge) != (a, b, e) and abs(q - alt) <= tol and region != 'band':
                    bucket = 'sim/override_ignored'
                elif region == 'band':
                    bucket = 'smoothing_band/%s' % regime(a, b, e)
                else:
                    bucket = 'sim/%s' % {'zero': 'zero_below_pmin', 'full': 'full_above_preq',
                                         'curve': 'curve_value'}[region]
                return fail(bucket, 't=%s junction %s: pressure %.9g, reported demand %.9g, requested D(t)=%.9g, '
                            'Pmin=%r Preq=%r exponent=%r => expected in [%.9g, %.9g] (tol %.3g); overrides %r'
                            % (t, n, p, q, D, a, b, e, lo, hi, tol,
                               {x: j.get(x) for x in ('pmin', 'preq', 'pexp')}), tags + sorted(seen))
    tags = tags + sorted(seen)
    if not run.ok:
        return inconclusive('not converged (reported prefix satisfied the oracle)', tags)
    return passed(partial, tags)


def check(case):
    if case['kind'] == 'model':
        return check_model(case)
    return check_sim(case)


# ----------------------------------------------------------------------------- generation
def r4(x):
    return round(float(x), 4)


_gap = st.one_of(st.sampled_from([0.07, 0.07, 0.0999, 0.1, 0.1001, 0.5, 5.0, 10.0, 14.065, 17.581, 21.097, 50.0, 80.0]),
                 st.floats(MIN_GAP, 80.0).map(r4), st.floats(MIN_GAP, 0.3).map(r4))
_pmin = st.one_of(st.sampled_from([0.0, 0.0, 0.0, 0.352, 3.516, 5.0, 10.0, 30.0]), st.floats(0.0, 30.0).map(r4))
_pexp = st.one_of(st.sampled_from([0.5, 0.5, 1.0, 0.55, 0.4, 0.3, 0.75, 0.51, 0.49, 0.01]),
                  st.floats(0.01, 1.0).map(r4))
_dem = st.one_of(st.sampled_from([1.0, 0.0025, 0.001, 0.0, 2.0]), st.floats(0.0, 2.0).map(lambda x: round(x, 6)))
_elev = st.one_of(st.sampled_from([0.0, 10.0, 100.0]), st.floats(-5.0, 500.0).map(lambda x: round(x, 2)))


@st.composite
def model_case(draw):
    a = draw(_pmin)
    b = r4(a + draw(_gap))
    e = draw(_pexp)
    case = {'kind': 'model', 'pmin': a, 'preq': b, 'pexp': e, 'j_pmin': None, 'j_preq': None, 'j_pexp': None,
            'D1': draw(_dem), 'D2': draw(_dem), 'z1': draw(_elev), 'z2': draw(_elev),
            'probes': [round(draw(st.floats(0.0, 1.0)), 6) for _ in range(6)]}
    mode = draw(st.integers(0, 7))       # bit 0: pmin, bit 1: preq, bit 2: exponent overridden on J1
    if mode & 4:
        case['j_pexp'] = draw(_pexp)
    if (mode & 3) == 3:
        case['j_pmin'] = draw(_pmin)
        case['j_preq'] = r4(case['j_pmin'] + draw(_gap))
    elif mode & 1:      # only Pmin: must stay MIN_GAP below the global Preq
        case['j_pmin'] = r4(max(0.0, b - draw(_gap)))
    elif mode & 2:      # only Preq: must stay MIN_GAP above the global Pmin
        case['j_preq'] = r4(a + draw(_gap))
    for w in (1, 2):    # rounding must not push a gap below the domain limit
        ea, eb, _e = eff(case, w)
        if eb - ea < MIN_GAP:
            if w == 1 and case['j_preq'] is not None:
                case['j_preq'] = r4(ea + MIN_GAP + 1e-4)
            elif w == 1:
                case['j_pmin'] = None
            else:
                case['preq'] = r4(ea + MIN_GAP + 1e-4)
    return case


SIM_FEAT = {'nj': (2, 6), 'tanks': (0, 1), 'extra_res': (0, 1), 'pumps': True, 'valves': False, 'cvs': True,
            'closed': True, 'leaks': False, 'vol_curves': False, 'tank_links_special': False, 'booster': False,
            'pdd': True, 'wild': 0.0, 'durations': [0, 3600, 2 * 3600, 4 * 3600], 'max_extra_links': 2}

_sim_pmin = st.sampled_from([0.0, 0.0, 3.516, 10.0, 20.0, 30.0])
_sim_gap = st.sampled_from([0.07, 0.5, 5.0, 17.581, 30.0, 50.0, 70.0, 90.0])
_sim_exp = st.sampled_from([0.5, 0.5, 1.0, 0.55, 0.4, 0.3, 0.75])


@st.composite
def sim_case(draw, tier='quick'):
    feat = dict(SIM_FEAT)
    if tier == 'thorough':
        feat['nj'] = (2, 10)
        feat['valves'] = True
    spec = draw(netgen.network(feat))
    o = spec['opts']
    o['pmin'] = draw(_sim_pmin)
    o['preq'] = r4(o['pmin'] + draw(_sim_gap))
    o['pexp'] = draw(_sim_exp)
    for j in spec['junctions']:
        for k in ('pmin', 'preq', 'pexp'):
            j.pop(k, None)
        z = draw(st.integers(0, 5))
        if z >= 2:
            continue
        mode = draw(st.integers(1, 7))
        if mode & 4:
            j['pexp'] = draw(_sim_exp)
        if (mode & 3) == 3:
            j['pmin'] = draw(_sim_pmin)
            j['preq'] = r4(j['pmin'] + draw(_sim_gap))
        elif mode & 1:
            j['pmin'] = r4(max(0.0, o['preq'] - draw(_sim_gap)))
        elif mode & 2:
            j['preq'] = r4(o['pmin'] + draw(_sim_gap))
    nsteps = o['duration'] // o['hyd']
    if nsteps >= 2 and draw(st.integers(0, 2)) == 0:
        # history inside one run: controls move the pressure window of a junction (both ends at one instant, or one end);
        # from that instant on the junction must follow the curve of the new window
        pc = []
        for _ in range(draw(st.integers(1, 2))):
            j = spec['junctions'][draw(st.integers(0, len(spec['junctions']) - 1))]
            at = o['hyd'] * draw(st.integers(1, max(1, (nsteps + 1) // 2)))     # first half: rows remain to be judged
            pmin = draw(_sim_pmin)
            which = draw(st.sampled_from(['both', 'both', 'pmin', 'preq', 'withdraw', 'withdraw_pmin', 'withdraw_preq']))
            if which.startswith('withdraw'):
                # the override is taken back (attribute set to None = 'use the global option'): prefer a junction that has one
                own = [x for x in spec['junctions'] if x.get('pmin') is not None or x.get('preq') is not None]
                if own:
                    j = own[draw(st.integers(0, len(own) - 1))]
                else:
                    j['preq'] = r4(o['pmin'] + draw(_sim_gap))      # ... or give the chosen one an own required pressure
            c = {'junction': j['name'], 'at': at}
            if which in ('both', 'pmin'):
                c['pmin'] = pmin
            if which in ('both', 'preq'):
                c['preq'] = r4(pmin + draw(_sim_gap))
            if which in ('withdraw', 'withdraw_pmin'):
                c['pmin'] = None
            if which in ('withdraw', 'withdraw_preq'):
                c['preq'] = None
            pc.append(c)
        pc = sorted(pc, key=lambda c: (c['at'], c['junction']))
        # a one-sided withdrawal must leave a window at least as wide as the narrowest generated one; otherwise both
        # ends are withdrawn (the global window is always valid)
        for n_, c in enumerate(pc):
            if c.get('pmin', 0) is None or c.get('preq', 0) is None:
                jj = [x for x in spec['junctions'] if x['name'] == c['junction']][0]
                a, b = _window_at(dict(spec, pdd_controls=pc[:n_ + 1]), jj, c['at'])
                if not b - a >= 0.07 - 1e-9:
                    c['pmin'] = c['preq'] = None
        spec['pdd_controls'] = pc
    return {'kind': 'sim', 'spec': spec}


def _window_at(spec, j, t):
    """(Pmin, Preq) of junction j in effect at time t: overrides, then the commands of pdd_controls up to t"""
    o = spec['opts']
    a = o['pmin'] if j.get('pmin') is None else j['pmin']
    b = o['preq'] if j.get('preq') is None else j['preq']
    for c in spec.get('pdd_controls', []):
        if c['junction'] == j['name'] and c['at'] <= t:
            if 'pmin' in c:
                a = o['pmin'] if c['pmin'] is None else c['pmin']
            if 'preq' in c:
                b = o['preq'] if c['preq'] is None else c['preq']
    return a, b


def strategy(tier='quick'):
    # one_of shrinks towards the first alternative (the cheap model-level case)
    return st.integers(0, 24).flatmap(lambda z: sim_case(tier) if z >= 21 else model_case())


def _mk(a, b, e, ja=None, jb=None, je=None, D=1.0):
    return {'kind': 'model', 'pmin': a, 'preq': b, 'pexp': e, 'j_pmin': ja, 'j_preq': jb, 'j_pexp': je,
            'D1': D, 'D2': D, 'z1': 0.0, 'z2': 12.5, 'probes': [0.1, 0.37, 0.5, 0.77, 0.9, 0.99]}


def enumerate_cases(tier):
    # the default options and the two examples of documentation/hydraulics.rst
    yield _mk(0.0, 0.07, 0.5)
    yield _mk(3.516, 21.097, 0.55)
    yield _mk(3.516, 21.097, 0.55, 0.352, 14.065, 0.4)
    for e in (0.5, 1.0, 0.3, 0.75):
        for gap in (0.07, 0.1, 10.0):
            for a in (0.0, 5.0):
                yield _mk(a, r4(a + gap), e)
                yield _mk(0.0, 20.0, 0.5, a, r4(a + gap), e, D=0.0025)
    yield _mk(0.0, 10.0, 0.5, D=0.0)


def summarize(case):
    if case['kind'] == 'model':
        return case
    spec = case['spec']
    return {'kind': 'sim', 'opts': spec['opts'], 'n_junctions': len(spec['junctions']),
            'overrides': {j['name']: [j.get('pmin'), j.get('preq'), j.get('pexp')] for j in spec['junctions']
                          if any(j.get(x) is not None for x in ('pmin', 'preq', 'pexp'))},
            'links': [[l[0], l[1], l[2], l[3]] for l in S.links_of(spec)]}


LEVEL_TEXT = ('exploration: the delivered-demand function of the compiled PDD constraint was evaluated on generated '
              'parameter sets (dense sweep plus bisection of every interval) and on PDD simulation runs of generated '
              'networks; no violation outside the listed findings means none was found in the explored sample, not '
              'that none exists')
LEVEL_NOTE = ('trusted base: the reference curve f_ref (10 lines) in this module, vlib.spec.expected_demand and '
              'reachable_from_sources, the band width 0.05 m taken from constants.py; the observation goes through '
              'create_hydraulic_model and the compiled evaluator, i.e. the code the simulator itself solves')
