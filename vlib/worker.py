"""Worker process: runs one shard of a property's generated cases.

usage: python -m vlib.worker collect|shrink PROP TIER SHARD NSHARDS SEED NCASES OUT [BUCKET]
"""
import hashlib
import importlib
import json
import os
import signal
import sys
import time
import traceback
import warnings

warnings.filterwarnings('ignore')

from . import envsetup  # noqa: E402  (puts the tree under test on sys.path)
from .outcome import CaseTimeout, canon, case_hash  # noqa: E402


def _seed_int(seed, shard, prop):
    h = hashlib.sha256(('%s/%s/%s' % (seed, shard, prop)).encode()).hexdigest()
    return int(h[:12], 16)


def _alarm(signum, frame):
    raise CaseTimeout()


def run_case(mod, case, limit):
    """check(case) under a wall limit; returns an Outcome dict."""
    from .outcome import inconclusive
    signal.signal(signal.SIGALRM, _alarm)
    signal.setitimer(signal.ITIMER_REAL, limit)
    try:
        out = mod.check(case)
    except CaseTimeout:
        out = inconclusive('case wall limit %ss' % limit)
    finally:
        signal.setitimer(signal.ITIMER_REAL, 0)
    return out


def load_prop(prop):
    return importlib.import_module('vlib.props.%s' % prop.lower())


def collect(prop, tier, shard, nshards, seed, ncases, out_path):
    import hypothesis
    from hypothesis import HealthCheck, Phase, given, settings
    envsetup.scratch_cwd()
    mod = load_prop(prop)
    limit = getattr(mod, 'CASE_TIMEOUT', 30)
    res = {
        'evaluations': 0, 'status': {'pass': 0, 'fail': 0, 'inconclusive': 0},
        'inconclusive': {}, 'tags': {}, 'nontrivial_hashes': [], 'fails': {},
        'samples': [], 'harness_error': None, 'enumerated': 0, 'tags_nontrivial': {}, 'tags_inconclusive': {},
    }
    nt = set()
    summarize = getattr(mod, 'summarize', lambda c: c)

    def record(case):
        out = run_case(mod, case, limit)
        res['evaluations'] += 1
        st_ = out['status']
        res['status'][st_] += 1
        for t in out.get('tags', ()):
            res['tags'][t] = res['tags'].get(t, 0) + 1
        if st_ == 'inconclusive':
            r = out['reason']
            res['inconclusive'][r] = res['inconclusive'].get(r, 0) + 1
            for t in out.get('tags', ()):
                res['tags_inconclusive'][t] = res['tags_inconclusive'].get(t, 0) + 1
            return out
        if out.get('nontrivial'):
            h = case_hash(case)
            if h not in nt:
                nt.add(h)
                for t in out.get('tags', ()):
                    res['tags_nontrivial'][t] = res['tags_nontrivial'].get(t, 0) + 1
                if len(res['samples']) < 2:
                    res['samples'].append(summarize(case))
        if st_ == 'fail':
            b = out['bucket']
            size = len(canon(case))
            cur = res['fails'].get(b)
            if cur is None:
                res['fails'][b] = {'count': 1, 'case': case, 'size': size,
                                   'detail': out.get('detail', '')}
            else:
                cur['count'] += 1
                if size < cur['size']:
                    cur.update(case=case, size=size, detail=out.get('detail', ''))
        return out

    try:
        if hasattr(mod, 'enumerate_cases'):
            for i, case in enumerate(mod.enumerate_cases(tier)):
                if i % nshards == shard:
                    record(case)
                    res['enumerated'] += 1
        if ncases > 0:
            @hypothesis.seed(_seed_int(seed, shard, prop))
            @settings(max_examples=ncases, database=None, deadline=None,
                      derandomize=False, report_multiple_bugs=False,
                      phases=[Phase.generate],
                      suppress_health_check=[HealthCheck.too_slow, HealthCheck.data_too_large,
                                             HealthCheck.large_base_example])
            @given(mod.strategy(tier))
            def test(case):
                record(case)
            test()
    except BaseException as e:  # harness problem (generator health check, bug in vlib)
        res['harness_error'] = ''.join(traceback.format_exception(type(e), e, e.__traceback__))[-6000:]
    res['nontrivial_hashes'] = sorted(nt)
    with open(out_path, 'w') as f:
        f.write(canon(res))


class _Hit(Exception):
    pass


def shrink(prop, tier, shard, nshards, seed, ncases, out_path, bucket):
    """Re-run the shard raising only for `bucket`; keep the smallest failing case."""
    import hypothesis
    from hypothesis import HealthCheck, Phase, given, settings
    envsetup.scratch_cwd()
    mod = load_prop(prop)
    limit = getattr(mod, 'CASE_TIMEOUT', 30)
    best = {'size': None}

    @hypothesis.seed(_seed_int(seed, shard, prop))
    @settings(max_examples=ncases, database=None, deadline=None, derandomize=False,
              report_multiple_bugs=False, phases=[Phase.generate, Phase.shrink],
              suppress_health_check=list(HealthCheck))
    @given(mod.strategy(tier))
    def test(case):
        out = run_case(mod, case, limit)
        if out['status'] == 'fail' and out['bucket'] == bucket:
            size = len(canon(case))
            # hypothesis' last failing example is its minimal one; keep each as it comes
            best['size'] = size
            tmp = out_path + '.tmp'
            with open(tmp, 'w') as f:
                f.write(canon({'case': case, 'detail': out.get('detail', ''), 'bucket': bucket}))
            os.replace(tmp, out_path)
            raise _Hit()

    try:
        test()
    except _Hit:
        pass
    except BaseException:
        traceback.print_exc()


def main(argv):
    mode, prop, tier, shard, nshards, seed, ncases, out_path = argv[:8]
    shard, nshards, seed, ncases = int(shard), int(nshards), int(seed), int(ncases)
    if mode == 'collect':
        collect(prop, tier, shard, nshards, seed, ncases, out_path)
    elif mode == 'shrink':
        shrink(prop, tier, shard, nshards, seed, ncases, out_path, argv[8])
    else:
        raise SystemExit(2)


if __name__ == '__main__':
    main(sys.argv[1:])
