"""Shared network generator: Hypothesis strategy -> plain-data "spec" of a model.

The spec is JSON; `spec.build_wn(spec)` turns it into a WaterNetworkModel.  Oracles read topology and
attributes from the spec, never from the WNTR objects.

feat (dict of generator features, all optional):
  nj=(lo,hi)         number of junctions
  tanks=(lo,hi)      number of tanks
  extra_res=(lo,hi)  additional reservoirs
  pumps, valves, cvs: bool   allow pumps / valves / check-valve pipes
  power_pumps: bool  allow constant-power pumps as the feed pump (default True)
  pump_feed: bool|None  the first reservoir feeds through a pump (None = draw)
  closed: bool       allow initially closed pipes
  leaks: bool        junction / tank leaks
  tank_leaks: bool
  pdd: None|True|False   demand model (None = draw)
  vol_curves: bool   tanks with volume curves
  durations: list of durations in s
  wild: float        probability of the 'wild' profile
  max_extra_links
"""
import math

from hypothesis import strategies as st


def r(x, n=4):
    return round(float(x), n)


HYD_STEPS = [300, 600, 900, 1800, 3600, 7200]
PAT_STEPS = [600, 900, 1800, 3600, 7200]


@st.composite
def options(draw, feat):
    durations = feat.get('durations', [0, 3600, 7200, 4 * 3600, 8 * 3600, 12 * 3600, 24 * 3600])
    hyd = draw(st.sampled_from(feat.get('hyd_steps', HYD_STEPS)))
    dur = draw(st.sampled_from(durations))
    rep_all = draw(st.booleans()) if feat.get('report_all', None) is None else feat['report_all']
    rep = 'ALL' if rep_all else hyd * draw(st.sampled_from([1, 1, 2, 3]))
    pdd = feat.get('pdd', None)
    if pdd is None:
        pdd = draw(st.booleans())
    o = {
        'duration': dur, 'hyd': hyd, 'pat': draw(st.sampled_from(PAT_STEPS)), 'rep': rep,
        'rule': draw(st.sampled_from([60, 300, 360, 600, 1800, 3600])),
        'pattern_start': draw(st.sampled_from([0, 0, 600, 3600, 5400, 7200, 86400 + 1800])),
        'start_clocktime': draw(st.sampled_from([0, 0, 3600, 6 * 3600 + 1800, 23 * 3600])),
        'dm': draw(st.sampled_from([1.0, 1.0, 0.5, 1.3, 2.0])),
        'demand_model': 'PDD' if pdd else 'DD',
        'pmin': 0.0, 'preq': 0.07, 'pexp': 0.5,
        'hw_approx': draw(st.sampled_from(['default', 'default', 'piecewise'])),
    }
    if pdd:
        o['pmin'] = draw(st.sampled_from([0.0, 0.0, 2.0, 5.0]))
        o['preq'] = o['pmin'] + draw(st.sampled_from([5.0, 10.0, 14.0, 20.0, 0.5]))
        o['pexp'] = draw(st.sampled_from([0.5, 0.5, 0.5, 1.0, 0.3, 0.75]))
    return o


@st.composite
def patterns(draw, n=(1, 3)):
    k = draw(st.integers(*n))
    pats = {}
    for i in range(k):
        ln = draw(st.sampled_from([1, 2, 3, 4, 5, 6, 7, 8, 12, 24, 26]))
        pats['P%d' % (i + 1)] = [r(draw(st.floats(0.0, 2.5)), 3) for _ in range(ln)]
    return pats


def _head_curve(draw, h_design, q_design):
    """pump curve able to lift h_design at q_design (roughly)"""
    kind = draw(st.sampled_from([1, 1, 2, 3, 3, 4]))
    if kind == 1:
        return [[r(q_design, 5), r(h_design, 3)]]
    if kind == 2:
        return [[r(q_design * 0.5, 5), r(h_design * 1.2, 3)], [r(q_design * 1.5, 5), r(h_design * 0.6, 3)]]
    if kind == 3:
        return [[0.0, r(h_design * 1.33, 3)], [r(q_design, 5), r(h_design, 3)], [r(q_design * 2, 5), r(h_design * 0.2, 3)]]
    return [[0.0, r(h_design * 1.35, 3)], [r(q_design * 0.5, 5), r(h_design * 1.25, 3)], [r(q_design, 5), r(h_design, 3)],
            [r(q_design * 1.5, 5), r(h_design * 0.65, 3)], [r(q_design * 2, 5), r(h_design * 0.15, 3)]]


@st.composite
def network(draw, feat=None):
    feat = dict(feat or {})
    wild = draw(st.integers(0, 99)) < int(100 * feat.get("wild", 0.0))
    o = draw(options(feat))
    pats = draw(patterns())
    pnames = sorted(pats)
    spec = {'opts': o, 'patterns': pats, 'curves': {}, 'junctions': [], 'tanks': [], 'reservoirs': [],
            'pipes': [], 'pumps': [], 'valves': [], 'controls': [], 'profile': 'wild' if wild else 'sane'}
    nj = draw(st.integers(*feat.get('nj', (2, 8))))
    hres = r(draw(st.floats(40, 100)), 1)
    total_q = 0.0
    cats = [None, None, 'dom', 'ind']
    for i in range(nj):
        nd = draw(st.sampled_from([1, 1, 1, 2, 3]))
        dem = []
        for _ in range(nd):
            base = draw(st.sampled_from([0.001, 0.002, 0.0005, 0.004, 0.0])) if not wild else r(draw(st.floats(0, 0.02)), 5)
            if draw(st.integers(0, 9)) == 0:
                base = 0.0
            dem.append([base, draw(st.sampled_from([None] + pnames)), draw(st.sampled_from(cats))])
            total_q += base
        j = {'name': 'J%d' % (i + 1), 'elev': r(draw(st.floats(0, 25)) if not wild else draw(st.floats(-5, 60)), 2),
             'demands': dem}
        if o['demand_model'] == 'PDD' and draw(st.integers(0, 3)) == 0:
            j['pmin'] = draw(st.sampled_from([None, 1.0, 3.0]))
            j['preq'] = draw(st.sampled_from([None, 12.0, 25.0]))
            j['pexp'] = draw(st.sampled_from([None, 0.5, 1.0, 0.6]))
            if j['pmin'] is not None and j['preq'] is None and j['pmin'] + 0.5 > o['preq']:
                j['pmin'] = None
            if j['preq'] is not None and j['pmin'] is None and o['pmin'] + 0.5 > j['preq']:
                j['preq'] = None
        spec['junctions'].append(j)
    total_q = max(total_q, 0.002)
    nlink = [0]

    def lname(prefix):
        nlink[0] += 1
        return '%s%d' % (prefix, nlink[0])

    def pipe(a, b, **kw):
        if draw(st.booleans()):
            a, b = b, a
        p = {'name': lname('L'), 'a': a, 'b': b,
             'len': r(draw(st.floats(20, 1000)), 1),
             'diam': draw(st.sampled_from([0.1, 0.15, 0.2, 0.25, 0.3, 0.4, 0.5])) if not wild
             else r(draw(st.floats(0.05, 1.0)), 3),
             'C': r(draw(st.floats(60, 150)), 1),
             'minor': draw(st.sampled_from([0.0, 0.0, 0.0, 0.5, 2.0, 10.0])),
             'status': 'OPEN', 'cv': False}
        p.update(kw)
        return p

    jn = [j['name'] for j in spec['junctions']]
    # spanning tree over junctions
    for i in range(1, nj):
        k = draw(st.integers(0, i - 1))
        spec['pipes'].append(pipe(jn[k], jn[i]))
    # extra links: loops / parallel
    for _ in range(draw(st.integers(0, feat.get('max_extra_links', 3)))):
        a = draw(st.integers(0, nj - 1))
        b = draw(st.integers(0, nj - 1))
        if a == b:
            continue
        spec['pipes'].append(pipe(jn[a], jn[b]))
    # main source
    pump_feed = feat.get('pump_feed', None)
    if pump_feed is None:
        pump_feed = feat.get('pumps', False) and draw(st.integers(0, 2)) == 0
    entry = jn[draw(st.integers(0, nj - 1))]
    if pump_feed:
        low = r(draw(st.floats(0, 10)), 1)
        spec['reservoirs'].append({'name': 'R1', 'head': low, 'pat': None})
        lift = hres - low
        if draw(st.integers(0, 3)) == 0 and feat.get('power_pumps', True):
            ej = [j for j in spec['junctions'] if j['name'] == entry][0]
            if not wild and not any(d[0] > 0 and d[1] is None for j in spec['junctions'] for d in j['demands']):
                ej['demands'][0] = [0.002, None, None]      # a power pump cannot run at zero flow
                total_q += 0.002
            power = r(9810.0 * total_q * 1.5 * lift, 1)
            spec['pumps'].append({'name': lname('PU'), 'a': 'R1', 'b': entry, 'type': 'POWER', 'power': max(power, 50.0),
                                  'curve': None, 'status': 'OPEN'})
        else:
            cname = 'HC%d' % (len(spec['curves']) + 1)
            spec['curves'][cname] = {'type': 'HEAD', 'pts': _head_curve(draw, lift, total_q * 1.5)}
            spec['pumps'].append({'name': lname('PU'), 'a': 'R1', 'b': entry, 'type': 'HEAD', 'power': None,
                                  'curve': cname, 'status': 'OPEN'})
    else:
        hp = draw(st.sampled_from([None, None] + pnames)) if feat.get('head_patterns', True) else None
        spec['reservoirs'].append({'name': 'R1', 'head': hres, 'pat': hp})
        spec['pipes'].append(pipe('R1', entry, diam=draw(st.sampled_from([0.3, 0.4, 0.5]))))
    for i in range(draw(st.integers(*feat.get('extra_res', (0, 1))))):
        nm = 'R%d' % (i + 2)
        spec['reservoirs'].append({'name': nm, 'head': r(hres + draw(st.floats(-8, 8)), 1), 'pat': None})
        spec['pipes'].append(pipe(nm, jn[draw(st.integers(0, nj - 1))]))
    # tanks
    for i in range(draw(st.integers(*feat.get('tanks', (0, 2))))):
        nm = 'T%d' % (i + 1)
        mx = draw(st.sampled_from([4.0, 6.0, 8.0, 10.0]))
        mn = draw(st.sampled_from([0.0, 0.0, 0.5, 1.0]))
        init = r(mn + (mx - mn) * draw(st.sampled_from([0.0, 0.02, 0.25, 0.5, 0.75, 0.98, 1.0])), 3)
        diam = draw(st.sampled_from([3.0, 5.0, 8.0, 12.0, 20.0]))
        t = {'name': nm, 'elev': r(hres - draw(st.floats(8, 25)), 1), 'init': init, 'min': mn, 'max': mx,
             'diam': diam, 'min_vol': 0.0, 'vol_curve': None}
        if feat.get('vol_curves', False) and draw(st.integers(0, 2)) == 0:
            cname = 'VC%d' % (len(spec['curves']) + 1)
            a0 = math.pi * diam * diam / 4.0
            lv = [0.0, r(mx * 0.3, 3), r(mx * 0.7, 3), r(mx + draw(st.sampled_from([0.0, 1.0])), 3)]
            vol = [0.0]
            fac = [draw(st.sampled_from([0.5, 1.0, 1.5])) for _ in range(3)]
            for k in range(3):
                vol.append(r(vol[-1] + a0 * fac[k] * (lv[k + 1] - lv[k]), 3))
            spec['curves'][cname] = {'type': 'VOLUME', 'pts': [[lv[k], vol[k]] for k in range(4)]}
            t['vol_curve'] = cname
        spec['tanks'].append(t)
        nconn = draw(st.sampled_from([1, 1, 2]))
        for _ in range(nconn):
            j = jn[draw(st.integers(0, nj - 1))]
            kind = draw(st.sampled_from(['pipe', 'pipe', 'pipe', 'cv', 'pump'])) if feat.get('tank_links_special', False) else 'pipe'
            if kind == 'cv' and feat.get('cvs', False):
                p = pipe(j, nm, cv=True)
                spec['pipes'].append(p)
            elif kind == 'pump' and feat.get('pumps', False):
                cname = 'HC%d' % (len(spec['curves']) + 1)
                spec['curves'][cname] = {'type': 'HEAD', 'pts': _head_curve(draw, 15.0, total_q)}
                spec['pumps'].append({'name': lname('PU'), 'a': j, 'b': nm, 'type': 'HEAD', 'power': None,
                                      'curve': cname, 'status': 'OPEN'})
                spec['pipes'].append(pipe(j, nm))
            else:
                spec['pipes'].append(pipe(j, nm, diam=draw(st.sampled_from([0.2, 0.3, 0.4]))))
    # turn some junction-junction pipes into valves / cv / closed
    jset = set(jn)
    # hop distance from the entry junction (sane profile orients valves and boosters away from the source)
    depth = {entry: 0}
    todo = [entry]
    while todo:
        x = todo.pop(0)
        for p in spec['pipes']:
            for u, v in ((p['a'], p['b']), (p['b'], p['a'])):
                if u == x and v in jset and v not in depth:
                    depth[v] = depth[x] + 1
                    todo.append(v)
    pressure_valve_nodes = set()
    for p in list(spec['pipes']):
        if p['a'] in jset and p['b'] in jset:
            z = draw(st.integers(0, 11))
            if not wild and z in (0, 3) and depth.get(p['a'], 0) > depth.get(p['b'], 0):
                p['a'], p['b'] = p['b'], p['a']
            if z == 0 and feat.get('valves', False):
                if not wild and (p['a'] in pressure_valve_nodes or p['b'] in pressure_valve_nodes):
                    continue
                pressure_valve_nodes.update((p['a'], p['b']))
                spec['pipes'].remove(p)
                vt = draw(st.sampled_from(['PRV', 'PSV', 'FCV', 'TCV']))
                if vt in ('PRV', 'PSV'):
                    setting = r(draw(st.floats(5, 35)), 2)
                elif vt == 'FCV':
                    setting = draw(st.sampled_from([0.0005, 0.001, 0.003, 0.01]))
                else:
                    setting = draw(st.sampled_from([0.0, 1.0, 5.0, 50.0]))
                stt = draw(st.sampled_from(['ACTIVE', 'ACTIVE', 'ACTIVE', 'OPEN', 'CLOSED']))
                spec['valves'].append({'name': p['name'].replace('L', 'V'), 'a': p['a'], 'b': p['b'], 'type': vt,
                                       'diam': p['diam'], 'minor': draw(st.sampled_from([0.0, 0.0, 1.0, 5.0])),
                                       'setting': setting, 'status': stt})
            elif z == 1 and feat.get('cvs', False):
                p['cv'] = True
            elif z == 2 and feat.get('closed', False):
                p['status'] = 'CLOSED'
            elif z == 3 and feat.get('pumps', False) and feat.get('booster', False):
                spec['pipes'].remove(p)
                cname = 'HC%d' % (len(spec['curves']) + 1)
                spec['curves'][cname] = {'type': 'HEAD', 'pts': _head_curve(draw, 10.0, total_q)}
                spec['pumps'].append({'name': p['name'].replace('L', 'PU'), 'a': p['a'], 'b': p['b'], 'type': 'HEAD',
                                      'power': None, 'curve': cname, 'status': 'OPEN'})
    # leaks
    if feat.get('leaks', False):
        cands = list(spec['junctions']) + (list(spec['tanks']) if feat.get('tank_leaks', True) else [])
        for nd in cands:
            if draw(st.integers(0, 3)) == 0:
                dur = max(o['duration'], 3600)
                start = draw(st.sampled_from([None, 0, o['hyd'], 1234, dur // 2, dur // 3 + 7]))
                end = draw(st.sampled_from([None, None, dur // 2 + 900, dur - 1, dur + 3600, 2 * 3600 + 11]))
                if start is not None and end is not None and end <= start:
                    end = None
                nd['leak'] = {'area': draw(st.sampled_from([1e-6, 1e-5, 1e-4, 5e-4, 2e-3])),
                              'cd': draw(st.sampled_from([0.75, 0.6, 1.0, 0.1])),
                              'start': start, 'end': end}
    return spec


def features(spec):
    """classification tags of a spec (topology read from the spec)"""
    tags = []
    pairs = {}
    nodes = [n['name'] for k in ('junctions', 'tanks', 'reservoirs') for n in spec[k]]
    links = [l for k in ('pipes', 'pumps', 'valves') for l in spec[k]]
    for l in links:
        key = tuple(sorted((l['a'], l['b'])))
        pairs[key] = pairs.get(key, 0) + 1
    if any(v > 1 for v in pairs.values()):
        tags.append('parallel_links')
    # loops: more links than a forest would have
    parent = {n: n for n in nodes}

    def find(x):
        while parent[x] != x:
            parent[x] = parent[parent[x]]
            x = parent[x]
        return x
    loops = 0
    for l in links:
        ra, rb = find(l['a']), find(l['b'])
        if ra == rb:
            loops += 1
        else:
            parent[ra] = rb
    if loops:
        tags.append('loops')
    if len(spec['tanks']) + len(spec['reservoirs']) >= 2:
        tags.append('multi_source')
    if spec['tanks']:
        tags.append('tanks')
    if any(t.get('vol_curve') for t in spec['tanks']):
        tags.append('vol_curve_tank')
    if any(len(j['demands']) > 1 for j in spec['junctions']):
        tags.append('multi_demand')
    if spec['opts']['pattern_start'] != 0:
        tags.append('pattern_start')
    if spec['opts']['dm'] != 1.0:
        tags.append('demand_multiplier')
    tags.append('mode:' + spec['opts']['demand_model'])
    tags.append('hw:' + spec['opts']['hw_approx'])
    for p in spec['pumps']:
        tags.append('pump:' + p['type'])
        if p['type'] == 'HEAD':
            tags.append('pumpcurve:%dpt' % min(4, len(spec['curves'][p['curve']]['pts'])))
    for v in spec['valves']:
        tags.append('valve:%s/%s' % (v['type'], v['status']))
    if any(p['cv'] for p in spec['pipes']):
        tags.append('cv_pipe')
    if any(p['status'] == 'CLOSED' for p in spec['pipes']):
        tags.append('closed_pipe')
    tn = {t['name'] for t in spec['tanks']}
    if any((l['a'] in tn or l['b'] in tn) and l in spec['pumps'] for l in links):
        tags.append('pump_at_tank')
    if any(l['b'] in tn for l in links):
        tags.append('link_into_tank')
    if any(l['a'] in tn for l in links):
        tags.append('link_out_of_tank')
    if any('leak' in j for j in spec['junctions']):
        tags.append('junction_leak')
    if any('leak' in t for t in spec['tanks']):
        tags.append('tank_leak')
    if spec['opts']['rep'] == 'ALL':
        tags.append('report_all')
    if any(r_['pat'] for r_ in spec['reservoirs']):
        tags.append('head_pattern')
    tags.append('profile:' + spec.get('profile', 'sane'))
    return tags
