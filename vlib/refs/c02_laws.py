"""C02 reference model: head-flow laws of links, written from the property statement, the WNTR user
documentation (hydraulics.rst, HeadPump.get_head_curve_coefficients docstring) and the EPANET 2.2 manual.
Shares no code with wntr.

Sign convention everywhere: q > 0 flows from the start node to the end node; dh = head(start) - head(end)
is the head LOSS of the link; a pump's head GAIN is -dh.
"""
import math

FT = 0.3048
# EPANET: h_L[ft] = 4.727 C^-1.852 d[ft]^-4.871 L[ft] q[cfs]^1.852 ; exact conversion to m, m3/s
HW_K = 4.727 * FT ** (4.871 - 3 * 1.852)        # 10.6668...   (documentation prints 10.667)
HW_EXP = 1.852
HW_K_REL = 5e-5           # slack on the friction term: five documented digits of the resistance constant
G = 9.81                  # WNTR's documented gravity constant
RHO = 1000.0
TOL = 1e-6                # NewtonSolver default TOL on the inf-norm of the residuals (each in its own unit)
QTOL = 1e-4 * FT ** 3     # EPANET/WNTR flow tolerance 0.0001 cfs = 2.83168e-6 m3/s
HTOL = 0.0005 * FT        # EPANET/WNTR head tolerance 0.0005 ft = 1.524e-4 m
HW_EPS = 1e-5             # default approximation adds eps*sqrt(K)*q
HW_Q1 = 2e-4              # piecewise approximation: linear below q1, cubic up to q2 (documented)
HW_Q2 = 4e-4
PUMP_Q2 = 1e-8            # head pumps with C <= 1: smoothing on (0, 1e-8]
PUMP_SLOPE = 1e-11        # |slope| of the head-pump line for flows below the smoothing point


def sign(x):
    return (x > 0) - (x < 0)


def pipe_K(length, diam, rough):
    return HW_K * rough ** (-HW_EXP) * diam ** (-4.871) * length


def minor_r(k, diam):
    """h = k v^2 / (2 g), v = q / (pi d^2 / 4)  ->  h = r q^2"""
    return 8.0 * k / (G * math.pi ** 2 * diam ** 4)


def pipe_loss(q, K, m):
    """odd, increasing: sign(q) (K |q|^1.852 + m q^2)"""
    a = abs(q)
    return sign(q) * (K * a ** HW_EXP + m * a * a)


def quad_loss(q, r):
    return sign(q) * r * q * q


def pipe_tolerance(q, K, m, approx):
    """allowed |dh - pipe_loss| outside the smoothing band (without the Newton tolerance)"""
    a = abs(q)
    t = HW_K_REL * K * a ** HW_EXP + 1e-12 * (1.0 + K * a ** HW_EXP + m * a * a)
    if approx == 'default':
        t += HW_EPS * math.sqrt(K) * a * (1.0 + 1e-9)
    return t


# ------------------------------------------------------------------------------------------- pump curves
def _solve_c_general(q, h):
    """C of H = A - B Q^C through three points with Q0 > 0 (bisection); None if no solution in (0.01, 60)"""
    target = (h[0] - h[1]) / (h[0] - h[2])

    def g(c):
        return (q[1] ** c - q[0] ** c) / (q[2] ** c - q[0] ** c) - target
    lo, hi = 0.01, 60.0
    glo, ghi = g(lo), g(hi)
    if not (glo > 0.0 > ghi):
        return None
    for _ in range(200):
        mid = 0.5 * (lo + hi)
        if g(mid) > 0:
            lo = mid
        else:
            hi = mid
    return 0.5 * (lo + hi)


def fit_curve(pts):
    """-> dict(n, A, B, C, exact) ; exact=True when the curve is defined by interpolation (1-, 2-, 3-point).

    1 point  (EPANET): shut-off head 4/3 H, maximum flow 2 Q  ->  A = 4/3 H, B = H / (3 Q^2), C = 2
    2 points (EPANET custom curve / WNTR docstring): the straight line through both points, C = 1
    3 points: H = A - B Q^C through the three points (EPANET closed form when Q0 = 0)
    n > 3   : a regression in WNTR (EPANET interpolates linearly) - no reference coefficients
    """
    n = len(pts)
    q = [float(p[0]) for p in pts]
    h = [float(p[1]) for p in pts]
    if n == 1:
        return {'n': 1, 'A': 4.0 * h[0] / 3.0, 'B': h[0] / (3.0 * q[0] ** 2), 'C': 2.0, 'exact': True}
    if n == 2:
        b = -(h[1] - h[0]) / (q[1] - q[0])
        return {'n': 2, 'A': h[0] + b * q[0], 'B': b, 'C': 1.0, 'exact': True}
    if n == 3:
        if q[0] == 0.0:
            c = math.log((h[0] - h[2]) / (h[0] - h[1])) / math.log(q[2] / q[1])
            return {'n': 3, 'A': h[0], 'B': (h[0] - h[1]) / q[1] ** c, 'C': c, 'exact': True}
        c = _solve_c_general(q, h)
        if c is None:
            return {'n': 3, 'A': None, 'B': None, 'C': None, 'exact': False}
        b = (h[0] - h[1]) / (q[1] ** c - q[0] ** c)
        return {'n': 3, 'A': h[0] + b * q[0] ** c, 'B': b, 'C': c, 'exact': True}
    return {'n': n, 'A': None, 'B': None, 'C': None, 'exact': False}


def pump_gain(q, fit):
    """head gain of an open head pump at flow q >= 0"""
    return fit['A'] - fit['B'] * q ** fit['C']


def pump_band(fit):
    """flow below which WNTR replaces the curve by a smoothing function (line of slope -1e-11 / cubic)"""
    if fit['C'] <= 1.0:
        return PUMP_Q2
    return (PUMP_SLOPE / (fit['B'] * fit['C'])) ** (1.0 / (fit['C'] - 1.0)) if fit['B'] > 0 else 0.0


def power_gain(q, power):
    """rho g q dH = P"""
    return power / (RHO * G * q)
