"""C03 helper: run EPANET 2.2 itself on an INP text, stepping the hydraulics through the toolkit, and return the
values at the report instants converted to SI with the constants of refs/c03_inp_text (not wntr.epanet.util's).

The only wntr code used is the ctypes wrapper wntr.epanet.toolkit.ENepanet (the way to reach libepanet) and the
integer parameter codes below, typed in from epanet2.h.
"""
import numpy as np

from . import c03_inp_text as U

# epanet2.h
EN_DEMAND, EN_HEAD, EN_PRESSURE = 9, 10, 11
EN_FLOW, EN_STATUS, EN_SETTING = 8, 11, 12


class Direct(object):
    __slots__ = ('times', 'node', 'link', 'warn', 'halted', 'all_times', 'tank_inflow', 'tank_head', 'open_all')


def run(text, units, spec, prefix='c03T'):
    """-> Direct: node['head'|'pressure'|'demand'][name] and link['flowrate'|'open'|'setting'][name] as arrays over the
    report instants k*rep <= duration that EPANET reached.  `open` is the toolkit's binary status (0 closed, 1 open)."""
    from wntr.epanet.toolkit import ENepanet
    f = U.factors(units)
    o = spec['opts']
    rep = int(o['rep'])
    with open(prefix + '.inp', 'w') as fh:
        fh.write(text)
    en = ENepanet(version=2.2)
    en.ENopen(prefix + '.inp', prefix + '.rpt', prefix + '.bin')
    nodes = [n['name'] for k in ('junctions', 'tanks', 'reservoirs') for n in spec[k]]
    links = [l['name'] for k in ('pipes', 'pumps', 'valves') for l in spec[k]]
    vtype = {v['name']: v['type'] for v in spec['valves']}
    out = Direct()
    rows_n = {'head': [], 'pressure': [], 'demand': []}
    rows_l = {'flowrate': [], 'open': [], 'setting': []}
    times = []
    all_times = []
    tanks = [t['name'] for t in spec['tanks']]
    tank_q = {t: [] for t in tanks}
    tank_h = {t: [] for t in tanks}
    open_all = []
    try:
        nidx = [en.ENgetnodeindex(n) for n in nodes]
        tidx = [en.ENgetnodeindex(n) for n in tanks]
        lidx = [en.ENgetlinkindex(l) for l in links]
        en.ENopenH()
        en.ENinitH(0)
        while True:
            t = int(en.ENrunH())
            all_times.append(t)
            open_all.append(tuple(1 if en.ENgetlinkvalue(i, EN_STATUS) >= 1 else 0 for i in lidx))
            for n, i in zip(tanks, tidx):
                tank_q[n].append(en.ENgetnodevalue(i, EN_DEMAND) * f['flow'])
                tank_h[n].append(en.ENgetnodevalue(i, EN_HEAD) * f['len'])
            if t % rep == 0:
                times.append(t)
                rows_n['head'].append([en.ENgetnodevalue(i, EN_HEAD) * f['len'] for i in nidx])
                rows_n['pressure'].append([en.ENgetnodevalue(i, EN_PRESSURE) * f['pressure'] for i in nidx])
                rows_n['demand'].append([en.ENgetnodevalue(i, EN_DEMAND) * f['flow'] for i in nidx])
                rows_l['flowrate'].append([en.ENgetlinkvalue(i, EN_FLOW) * f['flow'] for i in lidx])
                rows_l['open'].append([en.ENgetlinkvalue(i, EN_STATUS) for i in lidx])
                sets = []
                for name, i in zip(links, lidx):
                    s = en.ENgetlinkvalue(i, EN_SETTING)
                    vt = vtype.get(name)
                    if vt in ('PRV', 'PSV'):
                        s *= f['pressure']
                    elif vt == 'FCV':
                        s *= f['flow']
                    sets.append(s)
                rows_l['setting'].append(sets)
            if en.ENnextH() <= 0:
                break
        en.ENcloseH()
    finally:
        try:
            en.ENclose()
        except Exception:
            pass
    out.times = np.array(times, dtype=float)
    out.all_times = all_times
    out.tank_inflow = tank_q    # net inflow of every tank at every solved instant (all_times), m3/s
    out.tank_head = tank_h      # head of every tank at every solved instant, m
    out.open_all = open_all     # open(1)/closed(0) of every link (order of spec links) at every solved instant
    out.node = {k: {n: np.array([r[i] for r in v], dtype=float) for i, n in enumerate(nodes)} for k, v in rows_n.items()}
    out.link = {k: {l: np.array([r[i] for r in v], dtype=float) for i, l in enumerate(links)} for k, v in rows_l.items()}
    out.warn = list(en.errcodelist)
    out.halted = (not times) or times[-1] < (int(o['duration']) // rep) * rep
    return out
