"""C15 reference: evaluation of an expression AST (nested lists) with forward-mode dual numbers.

Written from the property statement only; nothing from wntr is imported.

AST nodes
    ['v', i] variable i        ['z', j] padding variable j      ['p', i] parameter i
    ['c', x] python constant   ['F', i] shared Float constant i
    ['+', a, b] ['-', a, b] ['*', a, b] ['/', a, b] ['**', a, b]
    ['neg', a] ['abs', a] ['sign', a] ['exp', a] ['log', a] ['sin', a] ['cos', a] ['tan', a]
    ['asin', a] ['acos', a] ['atan', a]
    ['ineq', body, lb, ub]     lb/ub: number, None or (one of them, the other None) an AST
    ['if', ineq, a, b]
    ['cond', [[ineq, expr], ...], final]      (only at the top of a constraint)

Conventions (as documented in expr.py): sign(0) = +1, inequality is the closed interval lb <= body <= ub.
"""
import math

BIG = 1e8          # |value| or |derivative| above this: the point is outside the checked domain
KINK = 1e-9        # distance to a kink below which derivatives are not compared
DEN_MIN = 1e-6     # |denominator|, log argument, base of a real power must exceed this
ASIN_MAX = 1.0 - 1e-6

UNARY = ('neg', 'abs', 'sign', 'exp', 'log', 'sin', 'cos', 'tan', 'asin', 'acos', 'atan')
BINARY = ('+', '-', '*', '/', '**')


class Domain(Exception):
    """The point is outside the domain of definition (or numerically out of range)."""


class Env(object):
    """values of the leaves + bookkeeping of one evaluation"""

    def __init__(self, vars_, pads, params, floats):
        self.vars = vars_
        self.pads = pads
        self.params = params
        self.floats = floats
        self.n = len(vars_) + len(pads)
        self.reset()

    def reset(self):
        self.scale = 1.0      # max |intermediate value or derivative component|
        self.kink = False     # some abs/sign/inequality is within KINK of its switching point
        self.boundary = False  # an inequality body equals one of its bounds exactly

    def see(self, v, d):
        if not math.isfinite(v) or abs(v) > BIG:
            raise Domain('value out of range')
        s = abs(v)
        for x in d:
            if not math.isfinite(x) or abs(x) > BIG:
                raise Domain('derivative out of range')
            if abs(x) > s:
                s = abs(x)
        if s > self.scale:
            self.scale = s


def _zero(n):
    return [0.0] * n


def _isint(x):
    return float(x) == math.floor(float(x))


def ev(ast, env):
    """-> (value, [d value / d var_k]) ; truth values of 'ineq' come back as (bool, zeros)."""
    try:
        return _ev(ast, env)
    except (OverflowError, ZeroDivisionError, ValueError) as e:
        raise Domain(repr(e))


def _ev(ast, env):
    op = ast[0]
    n = env.n
    if op == 'v':
        d = _zero(n)
        d[ast[1]] = 1.0
        return float(env.vars[ast[1]]), d
    if op == 'z':
        d = _zero(n)
        d[len(env.vars) + ast[1]] = 1.0
        return float(env.pads[ast[1]]), d
    if op == 'p':
        return float(env.params[ast[1]]), _zero(n)
    if op == 'c':
        return float(ast[1]), _zero(n)
    if op == 'F':
        return float(env.floats[ast[1]]), _zero(n)
    if op in BINARY:
        a, da = _ev(ast[1], env)
        b, db = _ev(ast[2], env)
        if op == '+':
            v, d = a + b, [x + y for x, y in zip(da, db)]
        elif op == '-':
            v, d = a - b, [x - y for x, y in zip(da, db)]
        elif op == '*':
            v, d = a * b, [x * b + a * y for x, y in zip(da, db)]
        elif op == '/':
            if abs(b) < DEN_MIN:
                raise Domain('denominator near 0')
            v = a / b
            d = [(x - v * y) / b for x, y in zip(da, db)]
        else:
            bconst = not any(db)
            if bconst and _isint(b):
                if a == 0.0 and b < 0:
                    raise Domain('0 ** negative')
                if abs(a) < DEN_MIN and b < 1:
                    raise Domain('base near 0')
                v = a ** b
                if b == 0:
                    d = _zero(n)
                else:
                    f = b * a ** (b - 1)
                    d = [f * x for x in da]
            else:
                if a < DEN_MIN:
                    raise Domain('real power of a non-positive base')
                v = a ** b
                f = b * a ** (b - 1)
                g = v * math.log(a)
                d = [f * x + g * y for x, y in zip(da, db)]
        env.see(v, d)
        return v, d
    if op in UNARY:
        a, da = _ev(ast[1], env)
        if op == 'neg':
            v, f = -a, -1.0
        elif op == 'abs':
            if abs(a) <= KINK:
                env.kink = True
            v, f = abs(a), (1.0 if a >= 0 else -1.0)
        elif op == 'sign':
            if abs(a) <= KINK:
                env.kink = True
            v, f = (1.0 if a >= 0 else -1.0), 0.0
        elif op == 'exp':
            v = math.exp(a)
            f = v
        elif op == 'log':
            if a < DEN_MIN:
                raise Domain('log of a non-positive number')
            v, f = math.log(a), 1.0 / a
        elif op == 'sin':
            v, f = math.sin(a), math.cos(a)
        elif op == 'cos':
            v, f = math.cos(a), -math.sin(a)
        elif op == 'tan':
            c = math.cos(a)
            if abs(c) < 1e-3:
                raise Domain('tan near a pole')
            v, f = math.tan(a), 1.0 / (c * c)
        elif op == 'asin':
            if abs(a) > ASIN_MAX:
                raise Domain('asin outside (-1, 1)')
            v, f = math.asin(a), 1.0 / math.sqrt(1.0 - a * a)
        elif op == 'acos':
            if abs(a) > ASIN_MAX:
                raise Domain('acos outside (-1, 1)')
            v, f = math.acos(a), -1.0 / math.sqrt(1.0 - a * a)
        else:
            v, f = math.atan(a), 1.0 / (1.0 + a * a)
        d = [f * x for x in da]
        env.see(v, d)
        return v, d
    if op == 'ineq':
        body, lb, ub = ast[1], ast[2], ast[3]
        # an expression bound is moved to the body: body - bound compared with 0
        if isinstance(lb, list):
            body, lb = ['-', body, lb], 0.0
        if isinstance(ub, list):
            body, ub = ['-', body, ub], 0.0
        v, _ = _ev(body, env)
        lo = -math.inf if lb is None else float(lb)
        hi = math.inf if ub is None else float(ub)
        for bnd in (lo, hi):
            if math.isfinite(bnd):
                if v == bnd:
                    env.boundary = True
                if abs(v - bnd) <= KINK * max(1.0, abs(bnd)):
                    env.kink = True
        return (lo <= v <= hi), _zero(n)
    if op == 'if':
        t, _ = _ev(ast[1], env)
        a, da = _ev(ast[2], env)      # both branches are part of the expression: both must be defined
        b, db = _ev(ast[3], env)
        return (a, da) if t else (b, db)
    if op == 'cond':
        for cnd, ex in ast[1]:
            t, _ = _ev(cnd, env)
            if t:
                return _ev(ex, env)
        return _ev(ast[2], env)
    raise ValueError('unknown AST node %r' % (op,))


def var_set(ast, acc=None):
    """the variables ('v', i) / ('z', j) mentioned anywhere in the AST"""
    if acc is None:
        acc = set()
    if isinstance(ast, list):
        if len(ast) == 2 and ast[0] in ('v', 'z'):
            acc.add((ast[0], ast[1]))
        else:
            for a in ast:
                if isinstance(a, list):
                    var_set(a, acc)
    return acc
