"""Reference time semantics for C04: a pure function of the schedule (no wntr import).

Schedule (plain data):
  opts     : duration, hyd, rule, start_clocktime  (seconds)
  targets  : list of {'name', 'attr': 'status'|'setting', 'init': value}
  controls : list of {'kind': 'time'|'clock', 'at': s, 'target': i, 'value': v, 'priority': p}
  rules    : list of {'cond': tree, 'then': [[i, v], ...], 'else': [[i, v], ...], 'priority': p}
  cond tree: ['time', op, s] | ['clock', op, s] | ['and', c1, c2, ...] | ['or', c1, c2, ...]
             op in  '>', '>=', '<', '<='

Semantics (from the statement of C04):
  * a simple control fires exactly at its instant: sim time t == at, or every t with
    (t + start_clocktime) mod 86400 == at for clock-time controls;
  * rules are evaluated at k*rule_step, k >= 1 (never at t = 0); THEN actions when the condition holds,
    ELSE actions otherwise; range conditions are true exactly on the stated interval, clock time is
    (t + start_clocktime) mod 86400;
  * at one instant the action of the highest priority wins per target (applied in ascending priority);
  * a target keeps its value until a later event changes it.
A simple control and a rule commanding different values for one target at one instant, or two items of
equal priority doing so, is unspecified: `timeline` reports it in `ambiguous`.
"""

DAY = 86400


def clock(t, start):
    return (t + start) % DAY


def eval_cond(c, t, start):
    k = c[0]
    if k in ('time', 'clock'):
        x = t if k == 'time' else clock(t, start)
        op, thr = c[1], c[2]
        if op == '>':
            return x > thr
        if op == '>=':
            return x >= thr
        if op == '<':
            return x < thr
        if op == '<=':
            return x <= thr
        raise ValueError(op)
    if k == 'and':
        return all(eval_cond(s, t, start) for s in c[1:])
    if k == 'or':
        return any(eval_cond(s, t, start) for s in c[1:])
    raise ValueError(k)


def cond_kinds(c):
    if c[0] in ('time', 'clock'):
        return ['%s%s' % (c[0], c[1])]
    out = []
    for s in c[1:]:
        out.extend(cond_kinds(s))
    return out


def control_instants(ctl, opts):
    dur = opts['duration']
    if ctl['kind'] == 'time':
        return [ctl['at']] if 0 <= ctl['at'] <= dur else []
    if ctl['kind'] == 'time_daily':      # WNTR's SimTimeCondition(repeat=True): every 24 h after the first instant
        return list(range(ctl['at'], dur + 1, DAY))
    first = (ctl['at'] - opts['start_clocktime']) % DAY
    if ctl['kind'] == 'clock_once':      # TimeOfDayCondition(repeat=False): the first time the clock shows that time
        return [first] if first <= dur else []
    return list(range(first, dur + 1, DAY))


def timeline(sched):
    """-> (events, ambiguous)

    events: sorted list of (t, {target_index: (new_value, source_tag)}) containing only instants at which some
            command is issued (whether or not it changes the value)
    ambiguous: list of (t, target, reason)
    """
    opts = sched['opts']
    dur, rs, start = opts['duration'], opts['rule'], opts['start_clocktime']
    cmds = {}   # t -> list of (priority, order, target, value, tag, is_rule)
    for ci, c in enumerate(sched['controls']):
        for t in control_instants(c, opts):
            cmds.setdefault(t, []).append((c['priority'], ci, c['target'], c['value'],
                                           'ctl_' + c['kind'], False))
    k = 1
    while k * rs <= dur:
        t = k * rs
        for ri, r in enumerate(sched['rules']):
            holds = eval_cond(r['cond'], t, start)
            acts = r['then'] if holds else r.get('else') or []
            tag = 'rule(%s)%s' % ('+'.join(sorted(set(cond_kinds(r['cond'])))), '' if holds else ':else')
            for tgt, val in acts:
                cmds.setdefault(t, []).append((r['priority'], 1000 + ri, tgt, val, tag, True))
        k += 1
    events = []
    ambiguous = []
    for t in sorted(cmds):
        per = {}
        for pr, order, tgt, val, tag, is_rule in cmds[t]:
            per.setdefault(tgt, []).append((pr, order, val, tag, is_rule))
        res = {}
        for tgt, lst in per.items():
            vals = set(v for (_p, _o, v, _t, _r) in lst)
            if len(vals) > 1:
                kinds = set(r for (_p, _o, _v, _t, r) in lst)
                top = max(p for (p, _o, _v, _t, _r) in lst)
                topvals = set(v for (p, _o, v, _t, _r) in lst if p == top)
                if len(kinds) > 1:
                    ambiguous.append((t, tgt, 'control and rule collide'))
                elif len(topvals) > 1:
                    ambiguous.append((t, tgt, 'equal priority, different values'))
            top = max(lst, key=lambda e: (e[0], -e[1]))
            # among the highest priority take the value (unique unless ambiguous)
            res[tgt] = (top[2], top[3])
        events.append((t, res))
    return events, ambiguous


def states(sched):
    """piecewise-constant timeline: list of (t, [value per target], {changed target: tag}) starting with t=None (initial)"""
    cur = [tg['init'] for tg in sched['targets']]
    out = [(None, list(cur), {})]
    events, amb = timeline(sched)
    for t, res in events:
        changed = {}
        for tgt, (val, tag) in res.items():
            if cur[tgt] != val:
                cur[tgt] = val
                changed[tgt] = tag
        out.append((t, list(cur), changed))
    return out, amb


def state_at(st, t):
    """values after all events at instants <= t"""
    cur = st[0][1]
    for tt, vals, _ch in st[1:]:
        if tt <= t:
            cur = vals
        else:
            break
    return cur
