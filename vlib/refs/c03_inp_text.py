"""C03 helper: independent EPANET INP *text* writer for a network spec in a chosen flow-unit system.

Shares no code with wntr.epanet.io / wntr.epanet.util: the unit table below is typed in from the physical
definitions (the same ones C17 checks WNTR's table against) and from the EPANET 2.2 users manual, appendix A
(US flow units -> ft, in, psi, hp; metric flow units -> m, mm, m, kW).

spec      : the plain-data network of vlib.netgen (SI values)
controls  : [{'kind': 'time', 'link', 'value', 'at', 'clock'} | {'kind': 'level', 'link', 'value', 'tank', 'op', 'thr'}]
rules     : [{'name', 'join': 'AND'|'OR', 'if': [clause...], 'then': [[link, value]...], 'else': [...], 'priority'}]
            clause = ['time', op, seconds] | ['clock', op, seconds] | ['level', tank, op, metres]
value     : 'OPEN' | 'CLOSED' | float (valve setting in SI: m of pressure for PRV/PSV, m3/s for FCV, coefficient for TCV)
"""
FT = 0.3048
INCH = 0.0254
GAL = 3.785411784e-3          # US gallon, m3
IGAL = 4.54609e-3             # imperial gallon, m3
ACRE_FT = 43560.0 * FT ** 3   # m3
DAY = 86400.0
PSI_M = FT / 0.4333           # EPANET's own definition of a psi of water column (0.4333 psi per ft), metres
HP = 745.699872               # W
KW = 1000.0

UNITS = ['CFS', 'GPM', 'MGD', 'IMGD', 'AFD', 'LPS', 'LPM', 'MLD', 'CMH', 'CMD']
US = ('CFS', 'GPM', 'MGD', 'IMGD', 'AFD')
FLOW = {'CFS': FT ** 3, 'GPM': GAL / 60.0, 'MGD': 1e6 * GAL / DAY, 'IMGD': 1e6 * IGAL / DAY, 'AFD': ACRE_FT / DAY,
        'LPS': 1e-3, 'LPM': 1e-3 / 60.0, 'MLD': 1e3 / DAY, 'CMH': 1.0 / 3600.0, 'CMD': 1.0 / DAY}


def factors(units):
    """SI value of one file unit, per kind of quantity"""
    us = units in US
    return {'flow': FLOW[units], 'len': FT if us else 1.0, 'pipe_diam': INCH if us else 1e-3,
            'pressure': PSI_M if us else 1.0, 'power': HP if us else KW, 'volume': FT ** 3 if us else 1.0}


def family(units):
    return 'US' if units in US else 'metric'


def hms(s):
    s = int(s)
    return '%d:%02d:%02d' % (s // 3600, (s % 3600) // 60, s % 60)


def clock12(s):
    """EPANET clock time with AM/PM"""
    s = int(s) % 86400
    h, rest = s // 3600, s % 3600
    ap = 'AM' if h < 12 else 'PM'
    h12 = h % 12
    if h12 == 0:
        h12 = 12
    return '%d:%02d:%02d %s' % (h12, rest // 60, rest % 60, ap)


def g(x):
    return '%.10g' % x


def link_kinds(spec):
    k = {}
    for p in spec['pipes']:
        k[p['name']] = ('PIPE', None)
    for p in spec['pumps']:
        k[p['name']] = ('PUMP', None)
    for v in spec['valves']:
        k[v['name']] = ('VALVE', v['type'])
    return k


def setting_text(kind, value, f):
    """a control/rule action value in file units"""
    if isinstance(value, str):
        return value
    vt = kind[1]
    if vt in ('PRV', 'PSV'):
        return g(value / f['pressure'])
    if vt == 'FCV':
        return g(value / f['flow'])
    return g(value)


def inp_text(spec, units, controls=(), rules=(), accuracy=1e-5, trials=200, style=0):
    """style 0: first demand on the [JUNCTIONS] line, further categories in [DEMANDS]; clock times with AM/PM
       style 1: all demands in [DEMANDS]; 24 h clock times; lower-case keywords"""
    f = factors(units)
    o = spec['opts']
    kinds = link_kinds(spec)
    L = ['[TITLE]', 'c03 independent text, units %s' % units, '']
    L.append('[JUNCTIONS]')
    for j in spec['junctions']:
        d = j['demands']
        if style == 0 and len(d) == 1:
            L.append('%s %s %s %s' % (j['name'], g(j['elev'] / f['len']), g(d[0][0] / f['flow']), d[0][1] or ''))
        else:
            L.append('%s %s' % (j['name'], g(j['elev'] / f['len'])))
    L += ['', '[DEMANDS]']
    for j in spec['junctions']:
        d = j['demands']
        if style == 0 and len(d) == 1:
            continue
        for base, pat, cat in d:
            L.append('%s %s %s%s' % (j['name'], g(base / f['flow']), pat or '', (' ;' + cat) if cat else ''))
    L += ['', '[RESERVOIRS]']
    for r in spec['reservoirs']:
        L.append('%s %s %s' % (r['name'], g(r['head'] / f['len']), r.get('pat') or ''))
    L += ['', '[TANKS]']
    for t in spec['tanks']:
        L.append('%s %s %s %s %s %s %s %s' % (t['name'], g(t['elev'] / f['len']), g(t['init'] / f['len']),
                                              g(t['min'] / f['len']), g(t['max'] / f['len']), g(t['diam'] / f['len']),
                                              g(t.get('min_vol', 0.0) / f['volume']), t.get('vol_curve') or ''))
    L += ['', '[PIPES]']
    for p in spec['pipes']:
        L.append('%s %s %s %s %s %s %s %s' % (p['name'], p['a'], p['b'], g(p['len'] / f['len']),
                                              g(p['diam'] / f['pipe_diam']), g(p['C']), g(p['minor']),
                                              'CV' if p['cv'] else p['status']))
    L += ['', '[PUMPS]']
    for p in spec['pumps']:
        if p['type'] == 'HEAD':
            L.append('%s %s %s HEAD %s' % (p['name'], p['a'], p['b'], p['curve']))
        else:
            L.append('%s %s %s POWER %s' % (p['name'], p['a'], p['b'], g(p['power'] / f['power'])))
    L += ['', '[VALVES]']
    for v in spec['valves']:
        L.append('%s %s %s %s %s %s %s' % (v['name'], v['a'], v['b'], g(v['diam'] / f['pipe_diam']), v['type'],
                                           setting_text(('VALVE', v['type']), float(v['setting']), f), g(v['minor'])))
    L += ['', '[STATUS]']
    for p in spec['pumps']:
        if p['status'] == 'CLOSED':
            L.append('%s CLOSED' % p['name'])
    for v in spec['valves']:
        if v['status'] in ('OPEN', 'CLOSED'):
            L.append('%s %s' % (v['name'], v['status']))
    L += ['', '[PATTERNS]']
    for name in sorted(spec['patterns']):
        m = spec['patterns'][name]
        for i in range(0, len(m), 6):
            L.append('%s %s' % (name, ' '.join(g(x) for x in m[i:i + 6])))
    L += ['', '[CURVES]']
    for name in sorted(spec['curves']):
        c = spec['curves'][name]
        for x, y in c['pts']:
            if c['type'] == 'HEAD':
                L.append('%s %s %s' % (name, g(x / f['flow']), g(y / f['len'])))
            elif c['type'] == 'VOLUME':
                L.append('%s %s %s' % (name, g(x / f['len']), g(y / f['volume'])))
            else:
                raise ValueError(c['type'])
    L += ['', '[CONTROLS]']
    for c in controls:
        val = setting_text(kinds[c['link']], c['value'], f)
        if c['kind'] == 'time':
            if c.get('clock'):
                when = 'CLOCKTIME ' + (clock12(c['at']) if style == 0 else hms(c['at']))
            else:
                when = 'TIME ' + hms(c['at'])
            L.append('LINK %s %s AT %s' % (c['link'], val, when))
        else:
            L.append('LINK %s %s IF NODE %s %s %s' % (c['link'], val, c['tank'], c['op'].upper(), g(c['thr'] / f['len'])))
    L += ['', '[RULES]']
    for r in rules:
        L.append('RULE %s' % r['name'])
        for i, cl in enumerate(r['if']):
            kw = 'IF' if i == 0 else r['join']
            if cl[0] == 'time':
                L.append('%s SYSTEM TIME %s %s' % (kw, cl[1], hms(cl[2])))
            elif cl[0] == 'clock':
                L.append('%s SYSTEM CLOCKTIME %s %s' % (kw, cl[1], clock12(cl[2]) if style == 0 else hms(cl[2])))
            else:
                L.append('%s TANK %s LEVEL %s %s' % (kw, cl[1], cl[2], g(cl[3] / f['len'])))
        for branch, kw0 in (('then', 'THEN'), ('else', 'ELSE')):
            for i, (lk, val) in enumerate(r.get(branch) or ()):
                kind = kinds[lk]
                attr = 'STATUS' if isinstance(val, str) else 'SETTING'
                L.append('%s %s %s %s IS %s' % (kw0 if i == 0 else 'AND', kind[0], lk, attr, setting_text(kind, val, f)))
        L.append('PRIORITY %d' % r['priority'])
        L.append('')
    L += ['[TIMES]', 'DURATION %s' % hms(o['duration']), 'HYDRAULIC TIMESTEP %s' % hms(o['hyd']),
          'QUALITY TIMESTEP %s' % hms(min(o['hyd'], 300)),
          'RULE TIMESTEP %s' % hms(o['rule']), 'PATTERN TIMESTEP %s' % hms(o['pat']),
          'PATTERN START %s' % hms(o['pattern_start']), 'REPORT TIMESTEP %s' % hms(o['rep']), 'REPORT START 0:00:00',
          'START CLOCKTIME %s' % (clock12(o['start_clocktime']) if style == 0 else hms(o['start_clocktime'])),
          'STATISTIC NONE', '']
    L += ['[OPTIONS]', 'UNITS %s' % units, 'HEADLOSS H-W', 'SPECIFIC GRAVITY 1', 'VISCOSITY 1',
          'TRIALS %d' % trials, 'ACCURACY %s' % g(accuracy), 'UNBALANCED STOP', 'DEMAND MULTIPLIER %s' % g(o['dm']),
          'QUALITY NONE']
    if o['demand_model'] == 'PDD':
        L += ['DEMAND MODEL PDA', 'MINIMUM PRESSURE %s' % g(o['pmin'] / f['pressure']),
              'REQUIRED PRESSURE %s' % g(o['preq'] / f['pressure']), 'PRESSURE EXPONENT %s' % g(o['pexp'])]
    L += ['', '[END]', '']
    text = '\n'.join(L)
    if style == 1:
        # EPANET keywords are case-insensitive; element names are kept
        pass
    return text
