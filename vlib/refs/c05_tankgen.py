"""Scenario generator shared by C05 and C06: small tank networks whose levels really move.

The result is a plain-data *spec* understood by `vlib.spec.build_wn` (same keys as `vlib.netgen`).

Layout (everything sized from the drawn demands so that levels traverse their range within hours):

    R1 --feed(pump | pipe)--> J1 -- J2 -- ... -- Jn      (chain, optional loop pipe, optional valve + bypass)
                               |     |
                              T1    T2 ...               (each tank: 1-3 links of kind pipe / CV pipe in or out /
                                                          pump in or out, cylindrical or volume curve)

* feed pump: 1-point or 3-point head curve (shut-off head known in closed form; power pumps never converged in the
  probes and are not drawn); the feed enters J1 or, 1 case in 8, the first tank; design point chosen so that the pump
  fills the tanks at mean demand and loses against the peaks of the pattern; with a small lift the shut-off head lies inside the tank's range (pump shut-off rule becomes active)
* feed pipe: high reservoir, pipe length computed from Hazen-Williams so that the tanks fill at low demand and drain
  at peak demand
* tank area from a drawn traverse time (1-8 h at mean demand); init level anywhere incl. exactly at a limit
* controls (kind 'cond' of spec.add_controls) are drawn by `controls(...)`.

feat: tanks=(lo,hi) nctl=(lo,hi) pressure_ctl=bool valves=bool durations=[...] hyd=[...] pdd=float(probability)
"""
import math

from hypothesis import strategies as st


def r(x, n=4):
    return round(float(x), n)


PAT_VALUES = [0.05, 0.1, 0.2, 0.5, 0.8, 1.0, 1.2, 1.6, 2.2, 3.0, 3.6]


def hw_k(length, diam, c):
    """Hazen-Williams resistance (SI): h = k * q**1.852"""
    return 10.667 * length / (c ** 1.852 * diam ** 4.871)


@st.composite
def scenario(draw, feat=None):
    feat = dict(feat or {})
    hyd = draw(st.sampled_from(feat.get('hyd', [900, 1800, 3600, 3600, 7200])))
    durs = feat.get('durations', [12 * 3600, 24 * 3600, 24 * 3600, 36 * 3600, 48 * 3600, 72 * 3600])
    durs = [d for d in durs if d // hyd <= feat.get('max_steps', 100)] or [min(durs)]
    dur = draw(st.sampled_from(durs))
    pat_step = draw(st.sampled_from([1800, 3600, 3600, 7200]))
    pdd = draw(st.integers(0, 99)) < int(100 * feat.get('pdd', 0.15))
    o = {'duration': dur, 'hyd': hyd, 'pat': pat_step, 'rep': 'ALL',
         'rule': draw(st.sampled_from([60, 300, 360, 3600])),
         'pattern_start': draw(st.sampled_from([0, 0, 0, 3600, 5400])),
         'start_clocktime': 0, 'dm': 1.0,
         'demand_model': 'PDD' if pdd else 'DD', 'pmin': 0.0, 'preq': 10.0 if pdd else 0.07, 'pexp': 0.5,
         'hw_approx': draw(st.sampled_from(['default', 'default', 'piecewise']))}
    npat = draw(st.integers(1, 2))
    pats = {}
    for i in range(npat):
        ln = draw(st.sampled_from([3, 4, 5, 6, 8, 12]))
        m = [draw(st.sampled_from(PAT_VALUES)) for _ in range(ln)]
        if max(m) < 1.0:
            m[draw(st.integers(0, ln - 1))] = 2.2
        if min(m) > 0.5:
            m[draw(st.integers(0, ln - 1))] = 0.05
        pats['P%d' % (i + 1)] = m
    pn = sorted(pats)
    spec = {'opts': o, 'patterns': pats, 'curves': {}, 'junctions': [], 'tanks': [], 'reservoirs': [],
            'pipes': [], 'pumps': [], 'valves': [], 'controls': [], 'profile': 'tankgen'}
    nj = draw(st.sampled_from([1, 2, 2, 3, 3, 4]))
    qm = 0.0
    qp = 0.0
    for i in range(nj):
        base = draw(st.sampled_from([0.005, 0.01, 0.015, 0.02]))
        pat = draw(st.sampled_from(pn))
        mm = pats[pat]
        qm += base * sum(mm) / len(mm)
        qp += base * max(mm)
        spec['junctions'].append({'name': 'J%d' % (i + 1), 'elev': r(draw(st.sampled_from([0.0, 2.0, 5.0, 9.0])), 1),
                                  'demands': [[base, pat, None]]})
    qm = max(qm, 0.001)
    jn = [j['name'] for j in spec['junctions']]
    cnt = {'L': 0, 'PU': 0, 'V': 0}

    def lname(p):
        cnt[p] += 1
        return '%s%d' % (p, cnt[p])

    def pipe(a, b, length, diam, c=None, cv=False, status='OPEN', minor=0.0):
        return {'name': lname('L'), 'a': a, 'b': b, 'len': r(length, 1), 'diam': diam,
                'C': r(c if c is not None else draw(st.sampled_from([90.0, 110.0, 130.0])), 1),
                'minor': minor, 'status': status, 'cv': cv}

    def head_pump(a, b, qd, hd, status='OPEN'):
        cname = 'HC%d' % (len([c for c in spec['curves'] if c.startswith('HC')]) + 1)
        if draw(st.integers(0, 5)) > 0:
            pts = [[r(qd, 5), r(hd, 3)]]
        else:
            pts = [[0.0, r(hd * 4.0 / 3.0, 3)], [r(qd, 5), r(hd, 3)], [r(1.9 * qd, 5), r(hd * (4.0 - 1.9 ** 2) / 3.0, 3)]]
        spec['curves'][cname] = {'type': 'HEAD', 'pts': pts}
        return {'name': lname('PU'), 'a': a, 'b': b, 'type': 'HEAD', 'power': None, 'curve': cname, 'status': status}

    # ---- chain of junctions (short fat pipes), optional valve with bypass, optional loop
    valve_at = None
    if feat.get('valves', True) and nj >= 2 and draw(st.integers(0, 1)) == 0:
        valve_at = draw(st.integers(0, nj - 2))
    for i in range(nj - 1):
        if valve_at == i:
            vt = draw(st.sampled_from(['TCV', 'TCV', 'PRV', 'FCV']))
            if vt == 'TCV':
                setting = draw(st.sampled_from([0.0, 5.0, 50.0]))
            elif vt == 'PRV':
                setting = draw(st.sampled_from([15.0, 25.0, 35.0]))
            else:
                setting = r(qm * draw(st.sampled_from([0.5, 1.0, 2.0])), 5)
            spec['valves'].append({'name': lname('V'), 'a': jn[i], 'b': jn[i + 1], 'type': vt, 'diam': 0.3, 'minor': 0.0,
                                   'setting': setting, 'status': draw(st.sampled_from(['ACTIVE', 'ACTIVE', 'OPEN', 'CLOSED']))})
            if draw(st.booleans()):
                spec['pipes'].append(pipe(jn[i], jn[i + 1], 400.0, 0.15, status=draw(st.sampled_from(['OPEN', 'CLOSED']))))
        else:
            a, b = (jn[i], jn[i + 1]) if draw(st.booleans()) else (jn[i + 1], jn[i])
            spec['pipes'].append(pipe(a, b, draw(st.sampled_from([50.0, 150.0, 400.0])), draw(st.sampled_from([0.25, 0.3, 0.4])),
                                      status='OPEN'))
    if nj >= 3 and draw(st.integers(0, 2)) == 0:
        spec['pipes'].append(pipe(jn[0], jn[nj - 1], 300.0, 0.25, cv=draw(st.integers(0, 3)) == 0))

    # ---- tanks
    href = r(draw(st.sampled_from([45.0, 55.0, 70.0])), 1)          # head of the main tank at mid level
    nt = draw(st.integers(*feat.get('tanks', (1, 3))))
    for i in range(nt):
        mx = draw(st.sampled_from([3.0, 4.0, 6.0, 8.0]))
        mn = draw(st.sampled_from([0.0, 0.0, 0.5, 1.0]))
        init = r(mn + (mx - mn) * draw(st.sampled_from([0.0, 0.0, 0.03, 0.25, 0.5, 0.5, 0.75, 0.97, 1.0, 1.0])), 3)
        tau = draw(st.sampled_from([1.0, 2.0, 3.0, 4.0, 8.0]))
        area = qm * tau * 3600.0 / (mx - mn) / (1.0 if nt == 1 else 1.5)
        diam = r(min(30.0, max(1.5, math.sqrt(4 * area / math.pi))), 2)
        area = math.pi * diam * diam / 4
        off = 0.0 if i == 0 else draw(st.sampled_from([-2.0, -0.5, 0.0, 0.5, 2.0]))
        elev = r(href + off - (mn + mx) / 2.0, 2)
        t = {'name': 'T%d' % (i + 1), 'elev': elev, 'init': init, 'min': mn, 'max': mx, 'diam': diam,
             'min_vol': 0.0, 'vol_curve': None}
        if draw(st.integers(0, 99)) < int(100 * feat.get('vol_curve', 0.4)):
            cname = 'VC%d' % (i + 1)
            l0 = draw(st.sampled_from([0.0, mn]))
            l1 = mx + draw(st.sampled_from([0.0, 0.0, 1.0]))
            nseg = draw(st.integers(1, 4))
            lv = [r(l0 + (l1 - l0) * k / nseg, 3) for k in range(nseg + 1)]
            lv[-1] = l1
            vol = [draw(st.sampled_from([0.0, 0.0, r(area * 0.5, 2)]))]
            for k in range(nseg):
                fac = draw(st.sampled_from([0.4, 0.7, 1.0, 1.0, 1.5, 2.5]))
                vol.append(r(vol[-1] + area * fac * (lv[k + 1] - lv[k]), 3))
            spec['curves'][cname] = {'type': 'VOLUME', 'pts': [[lv[k], vol[k]] for k in range(nseg + 1)]}
            t['vol_curve'] = cname
        spec['tanks'].append(t)
        nl = draw(st.sampled_from([1, 1, 2, 2, 3]))
        kinds = []
        for k in range(nl):
            kind = draw(st.sampled_from(['pipe', 'pipe', 'pipe', 'cv_in', 'cv_out', 'pump_in', 'pump_out'])) \
                if k == 0 else draw(st.sampled_from(['pipe', 'pipe', 'cv_in', 'cv_out', 'pipe_closed']))
            kinds.append(kind)
        for kind in kinds:
            j = jn[draw(st.integers(0, nj - 1))]
            ln = draw(st.sampled_from([100.0, 300.0, 800.0]))
            dm = draw(st.sampled_from([0.1, 0.15, 0.15, 0.2]))
            if kind == 'pipe':
                a, b = (j, t['name']) if draw(st.booleans()) else (t['name'], j)
                spec['pipes'].append(pipe(a, b, ln, dm))
            elif kind == 'pipe_closed':
                spec['pipes'].append(pipe(j, t['name'], ln, dm, status='CLOSED'))
            elif kind == 'cv_in':
                spec['pipes'].append(pipe(j, t['name'], ln, dm, cv=True))
            elif kind == 'cv_out':
                spec['pipes'].append(pipe(t['name'], j, ln, dm, cv=True))
            elif kind == 'pump_in':
                spec['pumps'].append(head_pump(j, t['name'], qm * draw(st.sampled_from([0.5, 1.0])),
                                               draw(st.sampled_from([2.0, 4.0, 8.0])),
                                               status=draw(st.sampled_from(['OPEN', 'OPEN', 'CLOSED']))))
            else:
                spec['pumps'].append(head_pump(t['name'], j, qm * draw(st.sampled_from([0.5, 1.0])),
                                               draw(st.sampled_from([2.0, 4.0, 8.0])),
                                               status=draw(st.sampled_from(['OPEN', 'OPEN', 'CLOSED']))))

    if nt >= 2 and draw(st.integers(0, 3)) == 0:
        a, b = ('T1', 'T2') if draw(st.booleans()) else ('T2', 'T1')
        spec['pipes'].append(pipe(a, b, draw(st.sampled_from([100.0, 300.0, 800.0])), draw(st.sampled_from([0.1, 0.15, 0.2])),
                                  cv=draw(st.integers(0, 3)) == 0))

    # ---- feed (into J1, or in one case out of eight directly into the first tank)
    entry = 'T1' if draw(st.integers(0, 7)) == 0 else jn[0]
    t1 = spec['tanks'][0]
    hlow, hhigh = t1['elev'] + t1['min'], t1['elev'] + t1['max']
    fk = draw(st.sampled_from(['pump1', 'pump1', 'pump_small_lift', 'pump_small_lift', 'pipe', 'pipe']))
    fstat = draw(st.sampled_from(['OPEN', 'OPEN', 'OPEN', 'CLOSED']))
    if fk in ('pump1', 'pump_small_lift'):
        lift = draw(st.sampled_from([6.0, 9.0, 12.0])) if fk == 'pump_small_lift' else draw(st.sampled_from([15.0, 25.0]))
        hr = r(href - lift, 1)
        qd = r(max(qm * draw(st.sampled_from([0.8, 1.2, 1.6, 2.5])), 0.6 * qp), 5)   # 2*qd = largest pump flow > peak demand
        spec['reservoirs'].append({'name': 'R1', 'head': hr, 'pat': None})
        spec['pumps'].append(head_pump('R1', entry, qd, lift, status=fstat))
    else:
        margin = draw(st.sampled_from([-1.0, 0.5, 2.0, 5.0]))
        hr = r(hhigh + margin, 1)
        qe = qm * draw(st.sampled_from([0.6, 1.0, 1.5]))
        dm = draw(st.sampled_from([0.15, 0.2, 0.3]))
        c = 100.0
        length = (hr - href) / (10.667 * qe ** 1.852) * c ** 1.852 * dm ** 4.871
        length = min(20000.0, max(10.0, length))
        spec['reservoirs'].append({'name': 'R1', 'head': hr, 'pat': None})
        spec['pipes'].append(pipe('R1', entry, length, dm, c=c, status=fstat, cv=draw(st.integers(0, 3)) == 0))
    spec['meta'] = {'qm': r(qm, 6), 'qp': r(qp, 6), 'href': href, 'feed': fk, 'entry': entry}
    spec['controls'] = draw(controls(spec, feat))
    return spec


OPS_UP = ['>', '>=']
OPS_DN = ['<', '<=']


@st.composite
def controls(draw, spec, feat):
    lo, hi = feat.get('nctl', (1, 6))
    n = draw(st.integers(lo, hi))
    out = []
    if n == 0:
        return out
    tanks = spec['tanks']
    tn = set(t['name'] for t in tanks)
    feed = [l for l in spec['pumps'] + spec['pipes'] if l['a'] == 'R1']
    tlinks = [l for l in spec['pumps'] + spec['pipes'] if l['a'] in tn or l['b'] in tn]
    others = [l for l in spec['pipes'] if l['a'] != 'R1' and l['a'] not in tn and l['b'] not in tn]
    status_targets = feed * 3 + tlinks * 2 + others
    valves = spec['valves']
    href = spec['meta']['href']

    def level_thr(t):
        f = draw(st.sampled_from([0.0, 0.05, 0.2, 0.35, 0.5, 0.5, 0.65, 0.8, 0.95, 1.0]))
        return r(t['min'] + f * (t['max'] - t['min']), 3)

    def tank_cond(t, up, thr):
        # ('pressure' on a volume-curve tank is documented as not implemented in TankLevelCondition)
        attr = draw(st.sampled_from(['level', 'level', 'level', 'pressure', 'head'] if t.get('vol_curve') is None
                                    else ['level', 'level', 'head']))
        return {'kind': 'cond', 'node': t['name'], 'nattr': attr, 'op': draw(st.sampled_from(OPS_UP if up else OPS_DN)),
                'thr': r(thr + t['elev'], 3) if attr == 'head' else thr}

    def press_cond(up):
        j = draw(st.sampled_from(spec['junctions']))
        if draw(st.integers(0, 3)) == 0:
            d = draw(st.sampled_from([-20.0, -10.0, 10.0]))
        else:
            d = draw(st.integers(-40, 40)) * 0.1       # inside the band swept by the tank heads
        thr = r(href - j['elev'] + d, 2)
        return {'kind': 'cond', 'node': j['name'], 'nattr': 'pressure', 'op': draw(st.sampled_from(OPS_UP if up else OPS_DN)),
                'thr': thr}

    def action(target=None, value=None):
        if target is None:
            pool = status_targets + valves * 8
            target = draw(st.sampled_from(pool))
        if target in valves:
            if value is None and draw(st.booleans()):
                vt = target['type']
                if vt == 'TCV':
                    s = draw(st.sampled_from([0.0, 2.0, 20.0, 200.0]))
                elif vt == 'PRV':
                    s = draw(st.sampled_from([10.0, 20.0, 30.0, 40.0]))
                else:
                    s = r(spec['meta']['qm'] * draw(st.sampled_from([0.3, 0.8, 1.5, 3.0])), 5)
                return {'link': target['name'], 'attr': 'setting', 'value': s}
        if value is None:
            value = draw(st.sampled_from(['OPEN', 'CLOSED']))
        return {'link': target['name'], 'attr': 'status', 'value': value}

    def add(cond, act, prio=None):
        c = dict(cond)
        c.update(act)
        if prio is None and draw(st.integers(0, 4)) == 0:
            prio = draw(st.integers(0, 6))
        if prio is not None:
            c['priority'] = prio
        out.append(c)

    use_p = feat.get('pressure_ctl', True)
    while len(out) < n:
        kinds = ['tank', 'tank', 'hyst', 'hyst', 'double', 'conflict']
        if use_p:
            kinds += ['press', 'press_hyst']
        if valves:
            kinds += ['vset', 'vset', 'vset']
        kind = draw(st.sampled_from(kinds))
        t = draw(st.sampled_from(tanks))
        if kind == 'vset':
            # a valve setting commanded at a tank level (the simulator derives a 'status ACTIVE' companion control
            # from it that shares the condition object)
            v = draw(st.sampled_from(valves))
            vt = v['type']
            if vt == 'TCV':
                s = draw(st.sampled_from([0.0, 2.0, 20.0, 200.0]))
            elif vt == 'PRV':
                s = draw(st.sampled_from([10.0, 20.0, 30.0, 40.0]))
            else:
                s = r(spec['meta']['qm'] * draw(st.sampled_from([0.3, 0.8, 1.5, 3.0])), 5)
            add(tank_cond(t, draw(st.booleans()), level_thr(t)), {'link': v['name'], 'attr': 'setting', 'value': s})
        elif kind == 'tank':
            up = draw(st.booleans())
            add(tank_cond(t, up, level_thr(t)), action())
        elif kind == 'hyst':
            rng = t['max'] - t['min']
            lo_ = r(t['min'] + rng * draw(st.sampled_from([0.0, 0.05, 0.2, 0.35, 0.5, 0.65])), 3)
            hi_ = r(min(t['max'], lo_ + rng * draw(st.sampled_from([0.1, 0.2, 0.3, 0.5]))), 3)
            target = draw(st.sampled_from(status_targets))
            inv = draw(st.integers(0, 3)) == 0          # usually: low level opens the feed, high level closes it
            add(tank_cond(t, False, lo_), action(target, 'CLOSED' if inv else 'OPEN'))
            add(tank_cond(t, True, hi_), action(target, 'OPEN' if inv else 'CLOSED'))
        elif kind == 'double':
            # two thresholds so close together that one hydraulic step crosses both
            a = level_thr(t)
            d = draw(st.sampled_from([0.001, 0.01, 0.05, 0.0]))
            up = draw(st.booleans())
            add(tank_cond(t, up, a), action())
            add(tank_cond(t, up, r(a + d, 3)), action())
        elif kind == 'conflict':
            target = draw(st.sampled_from(status_targets))
            up = draw(st.booleans())
            p1 = draw(st.integers(0, 6))
            p2 = draw(st.integers(0, 6))
            add(tank_cond(t, up, level_thr(t)), action(target, 'OPEN'), p1)
            add(tank_cond(draw(st.sampled_from(tanks)), draw(st.booleans()), level_thr(t)), action(target, 'CLOSED'), p2)
        elif kind == 'press':
            add(press_cond(draw(st.booleans())), action())
        else:
            target = draw(st.sampled_from(status_targets))
            c1 = press_cond(False)
            c2 = dict(c1)
            c2['op'] = draw(st.sampled_from(OPS_UP))
            # the band must exceed the pressure change caused by switching the target itself (up to the pump lift),
            # otherwise the post-solve loop alternates until the trial limit (run not converged)
            c2['thr'] = r(c1['thr'] + draw(st.sampled_from([15.0, 30.0, 45.0] if target in feed else [8.0, 15.0, 30.0])), 2)
            add(c1, action(target, 'OPEN'))
            add(c2, action(target, 'CLOSED'))
    out = out[:max(n, 1)]
    # Two controls on one tank and one link with opposite directions and opposite commands act as a switch without
    # hysteresis when their true-regions touch or overlap (the link then toggles every 1-2 s for the rest of the run, in
    # any engine): make every such pair a proper hysteresis band, "above" threshold >= "below" threshold + 10 % of range.
    tk = dict((t['name'], t) for t in tanks)

    def lev(c, t):
        return c['thr'] - (t['elev'] if c['nattr'] == 'head' else 0.0)

    def setlev(c, t, x):
        c['thr'] = r(x + (t['elev'] if c['nattr'] == 'head' else 0.0), 3)

    for _ in range(2):
        for j in range(len(out)):
            cj = out[j]
            if cj['node'] not in tk:
                continue
            t = tk[cj['node']]
            gap = 0.1 * (t['max'] - t['min'])
            for i in range(j):
                ci = out[i]
                if ci['node'] != cj['node'] or ci['link'] != cj['link'] or ci['op'][0] == cj['op'][0]:
                    continue
                if ci['attr'] == cj['attr'] and ci['value'] == cj['value']:
                    continue
                up, dn = (ci, cj) if ci['op'][0] == '>' else (cj, ci)
                a, b = lev(up, t), lev(dn, t)
                if a >= b + gap - 1e-9:
                    continue
                hi_, lo_ = max(a, b), min(a, b)
                if hi_ - lo_ < gap:
                    hi_ = lo_ + gap
                setlev(up, t, hi_)
                setlev(dn, t, lo_)
    return out


# ------------------------------------------------------------------------------------------------- reference volume
def curve_volume(pts, level):
    """own piecewise-linear interpolation of a (level, volume) curve, extended linearly beyond both ends"""
    xs = [p[0] for p in pts]
    ys = [p[1] for p in pts]
    n = len(xs)
    if n == 1:
        return ys[0]
    i = 0
    while i < n - 2 and level > xs[i + 1]:
        i += 1
    return ys[i] + (ys[i + 1] - ys[i]) * (level - xs[i]) / (xs[i + 1] - xs[i])


def tank_volume(spec, tk, level):
    if tk.get('vol_curve'):
        return curve_volume(spec['curves'][tk['vol_curve']]['pts'], level)
    return math.pi * tk['diam'] ** 2 / 4.0 * level


def mean_area(spec, tk, l0, l1):
    """mean horizontal area between two levels (>0)"""
    if tk.get('vol_curve') and abs(l1 - l0) > 1e-12:
        return abs((tank_volume(spec, tk, l1) - tank_volume(spec, tk, l0)) / (l1 - l0))
    if tk.get('vol_curve'):
        d = 1e-6
        return abs((tank_volume(spec, tk, l0 + d) - tank_volume(spec, tk, l0 - d)) / (2 * d))
    return math.pi * tk['diam'] ** 2 / 4.0


# ------------------------------------------------------------------------------------------------- shared by C05/C06
HTOL = 1.524e-4      # wntr.sim.core.WNTRSimulator._Htol (EPANET Htol, 0.0005 ft)
QTOL = 2.83168e-6    # wntr.sim.core.WNTRSimulator._Qtol (EPANET Qtol, 1e-4 cfs)


def spec_tags(spec):
    tags = (['history:' + spec['history'][0]] if spec.get('history') else []) + ['feed:' + spec.get('meta', {}).get('feed', '?'), 'feed_into:' + ('tank' if spec.get('meta', {}).get('entry') == 'T1' else 'junction'), 'hyd:%d' % spec['opts']['hyd'],
            'dur_h:%d' % (spec['opts']['duration'] // 3600), 'mode:' + spec['opts']['demand_model'],
            'ntanks:%d' % len(spec['tanks'])]
    tn = set(t['name'] for t in spec['tanks'])
    for t in spec['tanks']:
        tags.append('tank:curve' if t.get('vol_curve') else 'tank:cyl')
        if t['init'] == t['min']:
            tags.append('init_at_min')
        if t['init'] == t['max']:
            tags.append('init_at_max')
        if t.get('vol_curve'):
            pts = spec['curves'][t['vol_curve']]['pts']
            if pts[-1][0] == t['max']:
                tags.append('curve_ends_at_max')
            if pts[0][0] == t['min']:
                tags.append('curve_starts_at_min')
        nl = 0
        for p in spec['pipes']:
            if p['a'] in tn and p['b'] in tn:
                tags.append('tank_to_tank_link')
            if t['name'] in (p['a'], p['b']):
                nl += 1
                if p['cv']:
                    tags.append('tanklink:cv_in' if p['b'] == t['name'] else 'tanklink:cv_out')
                else:
                    tags.append('tanklink:pipe')
        for p in spec['pumps']:
            if t['name'] in (p['a'], p['b']):
                nl += 1
                tags.append('tanklink:pump_in' if p['b'] == t['name'] else 'tanklink:pump_out')
        if nl >= 2:
            tags.append('tank_multi_link')
    for v in spec['valves']:
        tags.append('valve:' + v['type'])
    return tags


def simulate(spec, prelude=None):
    """-> (run, None) or (None, ('fail'|'inconclusive', key, text)); prelude(wn) gives the built model a past"""
    from .. import spec as S
    from ..outcome import exc_bucket
    try:
        wn = S.build_wn(spec)
    except Exception as e:
        return None, ('fail', exc_bucket(e, 'build'), 'building the model raised %r' % (e,))
    if prelude is not None:
        prelude(wn)
    run = S.run_wntr_history(wn, spec.get('history'), hw_approx=spec['opts']['hw_approx'])
    if run.exception is not None:
        return None, ('inconclusive', 'run_sim raised %s' % type(run.exception).__name__, repr(run.exception))
    if not run.ok:
        why = 'trials exceeded' if any('trials' in w for w in run.warnings) else 'newton'
        return None, ('inconclusive', 'not converged (%s)' % why, '')
    if len(run.times) < 2:
        return None, ('inconclusive', 'fewer than 2 reported steps', '')
    return run, None
