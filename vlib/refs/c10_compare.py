"""Comparison of two WNTRSimulator runs of the same model (report step 'ALL') on the hydraulic grid.

Used by C10 (uninterrupted vs in parts) and C11 (run vs rerun / copy / reload).  Event times are whole seconds and a
partial step may move by 1-2 s between two executions of the very same model (WNTR orders the C++ variables by pointer
value, which perturbs Newton at 1e-12 and can flip the floor() of a backtrack), so the head tolerance grows with the
number of partial steps solved so far by two seconds of the largest tank flow, as the statement of C06 allows.
"""
import numpy as np

from .. import spec as S


class Table(object):
    """times + node/link dicts of numpy arrays (a SimRun, or several concatenated)"""
    def __init__(self, runs):
        runs = [r for r in runs if len(r.times)]
        self.times = np.concatenate([r.times for r in runs]) if runs else np.array([])
        self.node = {}
        self.link = {}
        if runs:
            for k in runs[0].node:
                self.node[k] = {n: np.concatenate([r.node[k][n] for r in runs]) for n in runs[0].node[k]}
            for k in runs[0].link:
                self.link[k] = {n: np.concatenate([r.link[k][n] for r in runs]) for n in runs[0].link[k]}


def level_thresholds(sp, rules):
    tanks = {t['name']: t for t in sp['tanks']}
    thr = {}
    for c in sp.get('controls', []):
        if c['kind'] == 'cond' and c['node'] in tanks:
            thr.setdefault(c['node'], []).append(c['thr'])

    def leaves(c):
        if c[0] in ('and', 'or'):
            return leaves(c[1]) + leaves(c[2])
        return [c]
    for r in rules or []:
        for lf in leaves(r['cond']):
            if lf[0] == 'level':
                thr.setdefault(lf[1], []).append(lf[3])
    for tn, tk in tanks.items():
        thr.setdefault(tn, []).extend([tk['min'], tk['max']])
    return thr


def pipe_K(l):
    """Hazen-Williams resistance of a pipe of the spec (SI), own constant 10.667"""
    return 10.667 * l['len'] / (l['C'] ** 1.852 * l['diam'] ** 4.871)


def oscillation_onset(sp, ref, nrev=4):
    """time of the nrev-th direction reversal of a tank level between consecutive solved steps (None if there is none).

    A tank that reverses direction at nearly every solved step is in the unstable regime of the explicit tank integration
    (typically chattering at a level limit): its trajectory then depends exponentially on one-second shifts of event
    times, and two executions of one and the same fresh model differ by metres.  Nothing after the onset is comparable."""
    onset = None
    for tk in sp['tanks']:
        h = ref.node['head'][tk['name']]
        q = float(np.max(np.abs(ref.node['demand'][tk['name']]))) if len(h) else 0.0
        thr = max(0.02, 20.0 * q / S.tank_area(tk))        # well above two seconds of flow
        d = np.diff(h)
        cnt = 0
        for i in range(1, len(d)):
            if d[i] * d[i - 1] < 0 and min(abs(d[i]), abs(d[i - 1])) > thr:
                cnt += 1
                if cnt >= nrev:
                    t = float(ref.times[i + 1])
                    onset = t if onset is None else min(onset, t)
                    break
    return onset


def compare(sp, rules, ref, other, what='second run', noise=None):
    """-> None | ('inconclusive', reason) | ('fail', bucket, detail, t)   (rows on the hydraulic grid)

    noise: a re-execution of the reference model with a slightly tighter solver tolerance.  What two executions of one
    and the same model differ by is not a property of restarting/resetting: the deviation |ref - noise| seen so far
    (times 4) is added to every tolerance, and a status that already differs between ref and noise is not judged.
    Trajectories with tanks chattering at a limit amplify a one-second shift of an event exponentially; this term is
    what keeps the comparison sound there, while well-conditioned cases keep the tight tolerances."""
    hyd = sp['opts']['hyd']
    rt = [int(t) for t in ref.times]
    ot = [int(t) for t in other.times]
    gi = [i for i, t in enumerate(rt) if t % hyd == 0]
    go = [i for i, t in enumerate(ot) if t % hyd == 0]
    grid = [rt[i] for i in gi]
    if [ot[i] for i in go] != grid:
        missing = sorted(set(grid) - set(ot))[:8]
        extra = sorted(set(t for t in ot if t % hyd == 0) - set(grid))[:8]
        return ('fail', 'index/union_differs', 'hydraulic-grid times missing from the %s: %s, extra: %s'
                % (what, missing, extra), grid[0] if grid else 0)
    if not grid:
        return None
    onset = oscillation_onset(sp, ref)
    if onset is not None:
        keep = [k for k, t in enumerate(grid) if t < onset]
        if len(keep) < 2:
            return ('inconclusive', 'a tank oscillates from the start (unstable explicit tank integration): trajectories '
                                    'of the same model are not reproducible')
        grid = [grid[k] for k in keep]
        gi = [gi[k] for k in keep]
        go = [go[k] for k in keep]
    # recorded open finding of C02: an open constant-power pump can settle on a spurious negative-flow root; the
    # hydraulic solution is then not unique and two executions may land on different roots
    for pmp in sp['pumps']:
        if pmp['type'] == 'POWER':
            for run_ in (ref, other):
                if float(np.min(run_.link['flowrate'][pmp['name']])) < -3e-6:
                    return ('inconclusive', 'a power pump runs in reverse (open finding of C02): the solution is not unique')
    nev = np.array([sum(1 for t in rt if t <= T and t % hyd != 0) for T in grid], dtype=float)
    ri = np.array(gi, dtype=int)
    oi = np.array(go, dtype=int)
    tanks = {t['name']: t for t in sp['tanks']}
    band = 0.0
    for tn, tk in tanks.items():
        band = max(band, 2.0 * float(np.max(np.abs(ref.node['demand'][tn]))) / S.tank_area(tk))
    thr = level_thresholds(sp, rules)
    pipes = dict((l['name'], l) for l in sp['pipes'])

    def near_threshold(k):
        for tn, tk in tanks.items():
            h = ref.node['head'][tn][ri]
            lvl = h[k] - tk['elev']
            prev = h[k - 1] - tk['elev'] if k > 0 else lvl
            q = float(np.max(np.abs(ref.node['demand'][tn])))
            b = 2.5 * q / S.tank_area(tk) * (1.0 + nev[k]) + 2e-4
            for x in thr[tn]:
                if abs(lvl - x) <= b or abs(prev - x) <= b:
                    return True
        return False

    ndev = {}
    nstat = None
    if noise is not None:
        nt = [int(t) for t in noise.times]
        gn = [i for i, t in enumerate(nt) if t % hyd == 0]
        if [nt[i] for i in gn] != grid:
            return ('inconclusive', 'the reference run is not reproducible under a solver-tolerance perturbation (grid differs)')
        ni = np.array(gn, dtype=int)
        for kind_, keys in (('node', ('head', 'demand', 'leak_demand')), ('link', ('flowrate',))):
            for key in keys:
                tab = getattr(ref, kind_)[key]
                dev = np.zeros(len(grid))
                for name in tab:
                    dev = np.maximum(dev, np.abs(tab[name][ri] - getattr(noise, kind_)[key][name][ni]))
                ndev[key] = np.maximum.accumulate(dev)
        first_bad = len(grid)
        for name in ref.link['status']:
            bad = np.nonzero(ref.link['status'][name][ri] != noise.link['status'][name][ni])[0]
            if len(bad):
                first_bad = min(first_bad, int(bad[0]))
        nstat = first_bad
    for name, a, b, kind, l in S.links_of(sp):
        s1 = ref.link['status'][name][ri]
        s2 = other.link['status'][name][oi]
        bad = np.nonzero(s1 != s2)[0]
        if len(bad):
            k = int(bad[0])
            if nstat is not None and k >= nstat:
                return ('inconclusive', 'statuses of the reference run are not reproducible under a solver-tolerance perturbation')
            if near_threshold(k) or (k + 1 < len(grid) and near_threshold(k + 1)):
                return ('inconclusive', 'status differs where a tank level is within the event-time band of a threshold')
            return ('fail', 'status/%s' % kind, 't=%d s link %s: status %s in the reference run vs %s in the %s'
                    % (grid[k], name, s1[k], s2[k], what), grid[k])
    hband = band * (1.0 + nev)
    for kind_, keys, names in (('node', ('head', 'demand', 'leak_demand'), S.node_names(sp)),
                               ('link', ('flowrate',), [l[0] for l in S.links_of(sp)])):
        for key in keys:
            for name in names:
                v1 = getattr(ref, kind_)[key][name][ri]
                v2 = getattr(other, kind_)[key][name][oi]
                if key == 'head':
                    tol = 1e-4 + hband + 1e-5 * np.abs(v1)
                else:
                    # 3e-6: flows within the flow tolerance (2.83e-6) count as no flow in either run
                    tol = 3e-6 + 1e-5 * np.abs(v1) + np.minimum(1.0, 5.0 * hband) * float(np.max(np.abs(v1))) * 0.1
                    if key == 'flowrate' and name in pipes:
                        # a pipe flow follows the heads of its ends: heads that agree within the head tolerance leave
                        # the flow of a low-resistance pipe undetermined by q(|dh| + 2 tol_h) - q(|dh|)
                        l = pipes[name]
                        dh = np.abs(ref.node['head'][l['a']][ri] - ref.node['head'][l['b']][ri])
                        th = 2.0 * (1e-4 + hband) + 4.0 * ndev.get('head', 0.0)
                        K = pipe_K(l)
                        tol = tol + ((dh + th) / K) ** 0.54 - (dh / K) ** 0.54
                if key in ndev:
                    tol = tol + 4.0 * ndev[key]
                d = np.abs(v1 - v2)
                bad = np.nonzero(~(d <= tol))[0]
                if len(bad):
                    k = int(bad[0])
                    return ('fail', 'value/%s' % key,
                            't=%d s %s %s: %.9g in the reference run vs %.9g in the %s (diff %.3g, tol %.3g, %d partial '
                            'steps so far)' % (grid[k], key, name, v1[k], v2[k], what, d[k], tol[k], nev[k]), grid[k])
    return None


def partial_steps(sp, ref):
    hyd = sp['opts']['hyd']
    return sum(1 for t in ref.times if int(t) % hyd != 0)
