"""Imported first by every harness process: selects the tree under test and a scratch cwd."""
import atexit
import os
import shutil
import sys
import tempfile
import warnings

warnings.filterwarnings('ignore')

VERIF_DIR = os.path.dirname(os.path.dirname(os.path.abspath(__file__)))
REPO = os.environ.get('WNTR_VERIF_REPO', '/repo')
if REPO != '/repo' or True:
    # make the tree under test win over any other installed copy
    if REPO not in sys.path:
        sys.path.insert(0, REPO)

# guard for (currently no) instrumentation hooks in the tree under test
os.environ.setdefault('WNTR_VERIF', '1')

_scratch = None


def scratch_cwd():
    """chdir into a private temp dir (WNTR writes temp.inp/temp.bin into the cwd)."""
    global _scratch
    if _scratch is None:
        _scratch = tempfile.mkdtemp(prefix='wntrverif_')
        os.chdir(_scratch)
        atexit.register(shutil.rmtree, _scratch, True)
    return _scratch


import logging  # noqa: E402
logging.disable(logging.CRITICAL)
