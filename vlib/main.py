"""./vcheck Cxx --tier quick|thorough [--replay F] [--cases N] [--shards N]

exit 0: property held on everything explored (KNOWN-FINDING lines possible)
exit 1: at least one `VIOLATION property=<id> replay=<path>` line
exit 2: harness error (never prints VIOLATION)
"""
import argparse
import json
import os
import subprocess
import sys
import tempfile
import time
import shutil

from . import envsetup
from .outcome import canon

VERIF = envsetup.VERIF_DIR


def load_known(prop):
    """known_findings.txt -> (open entries for prop, fixed entries for prop)"""
    opens, fixed = [], []
    p = os.path.join(VERIF, 'known_findings.txt')
    if not os.path.exists(p):
        return opens, fixed
    for line in open(p):
        line = line.strip()
        if not line or line.startswith('#'):
            continue
        if line.startswith('open:'):
            head, _, what = line[5:].partition('::')
            kv = dict(tok.split('=', 1) for tok in head.split() if '=' in tok)
            if kv.get('property') == prop:
                opens.append({'key': kv['key'], 'witness': kv.get('witness'), 'what': what.strip()})
        elif line.startswith('fixed:'):
            if ('property=%s ' % prop) in line:
                fixed.append(line)
    return opens, fixed


def harness_exit(msg):
    sys.stdout.write('HARNESS-ERROR: %s\n' % msg)
    sys.stdout.flush()
    sys.exit(2)


def worker_cmd(mode, prop, tier, shard, nshards, seed, ncases, out, bucket=None):
    cmd = [sys.executable, '-m', 'vlib.worker', mode, prop, tier, str(shard), str(nshards),
           str(seed), str(ncases), out]
    if bucket is not None:
        cmd.append(bucket)
    return cmd


def child_env():
    env = dict(os.environ)
    env['PYTHONPATH'] = VERIF + os.pathsep + env.get('PYTHONPATH', '')
    env['PYTHONHASHSEED'] = '0'
    env['PYTHONWARNINGS'] = 'ignore'
    for k in ('OMP_NUM_THREADS', 'OPENBLAS_NUM_THREADS', 'MKL_NUM_THREADS'):
        env[k] = '1'
    return env


def replay_case(mod, case):
    from .worker import run_case
    envsetup.scratch_cwd()
    return run_case(mod, case, getattr(mod, 'CASE_TIMEOUT', 30) * 4)


def main(argv=None):
    ap = argparse.ArgumentParser()
    ap.add_argument('prop')
    ap.add_argument('--tier', default=os.environ.get('VERIF_TIER', 'quick'), choices=['quick', 'thorough'])
    ap.add_argument('--replay')
    ap.add_argument('--cases', type=int)
    ap.add_argument('--shards', type=int, default=int(os.environ.get('VERIF_SHARDS', '16')))
    ap.add_argument('--no-shrink', action='store_true')
    ap.add_argument('--no-evidence', action='store_true')
    args = ap.parse_args(argv)
    prop = args.prop.upper()
    try:
        seed = int(os.environ.get('VERIF_SEED', '1') or '1')
    except ValueError:
        seed = 1
    t0 = time.time()

    try:
        from . import build
        built = build.ensure_built(envsetup.REPO)
    except Exception as e:
        harness_exit('build: %s' % e)
    try:
        from .worker import load_prop
        mod = load_prop(prop)
    except Exception as e:
        import traceback
        traceback.print_exc()
        harness_exit('cannot load property module %s: %r' % (prop, e))

    # ---------------------------------------------------------------- replay
    if args.replay:
        data = json.load(open(args.replay))
        case = data['case'] if isinstance(data, dict) and 'case' in data else data
        out = replay_case(mod, case)
        print('replay %s: %s %s' % (args.replay, out['status'], out.get('bucket', out.get('reason', ''))))
        if out['status'] == 'fail':
            print(out.get('detail', ''))
            opens, _ = load_known(prop)
            if any(o['key'] == out['bucket'] for o in opens):
                print('KNOWN-FINDING: property=%s %s' % (prop, [o['what'] for o in opens if o['key'] == out['bucket']][0]))
                sys.exit(0)
            print('VIOLATION property=%s replay=%s' % (prop, args.replay))
            sys.exit(1)
        sys.exit(0)

    # ---------------------------------------------------------------- known findings
    opens, fixed = load_known(prop)
    open_keys = {}
    for o in opens:
        open_keys[o['key']] = o
        still = None
        if o['witness']:
            wpath = os.path.join(VERIF, o['witness'])
            try:
                data = json.load(open(wpath))
                out = replay_case(mod, data['case'])
                still = (out['status'] == 'fail' and out['bucket'] == o['key'])
                if out['status'] == 'fail' and out['bucket'] != o['key']:
                    # the witness now fails for another reason: that is a new violation
                    print('witness %s fails in bucket %s (listed: %s)' % (o['witness'], out['bucket'], o['key']))
            except Exception as e:
                harness_exit('cannot replay witness %s: %r' % (o['witness'], e))
        if still or still is None:
            print('KNOWN-FINDING: property=%s %s' % (prop, o['what']))
        else:
            print('note: listed finding no longer reproduces on this tree: %s' % o['what'])

    # ---------------------------------------------------------------- regression tier: witnesses of repaired findings
    # (a 'fixed:' entry suppresses nothing: if the saved input fails again it is reported as a violation)
    regress = {'replayed': 0, 'failed': []}
    open_witnesses = set(o['witness'] for o in opens if o['witness'])
    fdir = os.path.join(VERIF, 'findings')
    for fn in sorted(os.listdir(fdir)) if os.path.isdir(fdir) else []:
        rel = os.path.join('findings', fn)
        if not fn.endswith('.json') or rel in open_witnesses:
            continue
        try:
            data = json.load(open(os.path.join(fdir, fn)))
        except Exception as e:
            harness_exit('cannot read %s: %r' % (rel, e))
        if not isinstance(data, dict) or data.get('property') != prop or 'case' not in data:
            continue
        try:
            out = replay_case(mod, data['case'])
        except Exception as e:
            import traceback
            traceback.print_exc()
            harness_exit('replaying %s raised %r' % (rel, e))
        regress['replayed'] += 1
        if out['status'] == 'fail' and out['bucket'] not in open_keys:
            regress['failed'].append((rel, out['bucket'], out.get('detail', '')))

    # ---------------------------------------------------------------- generation pass
    ncases = args.cases if args.cases is not None else mod.CASES[args.tier]
    nshards = max(1, min(args.shards, ncases if ncases > 0 else args.shards))
    per = (ncases + nshards - 1) // nshards if ncases > 0 else 0
    work = tempfile.mkdtemp(prefix='vcheck_%s_' % prop)
    procs = []
    env = child_env()
    for sh in range(nshards):
        out = os.path.join(work, 'shard%d.json' % sh)
        log = open(os.path.join(work, 'shard%d.log' % sh), 'w')
        p = subprocess.Popen(worker_cmd('collect', prop, args.tier, sh, nshards, seed, per, out),
                             cwd=VERIF, env=env, stdout=log, stderr=subprocess.STDOUT)
        procs.append((sh, p, out, log))
    merged = {'evaluations': 0, 'status': {'pass': 0, 'fail': 0, 'inconclusive': 0}, 'inconclusive': {},
              'tags': {}, 'tags_nontrivial': {}, 'tags_inconclusive': {}, 'fails': {}, 'samples': [], 'enumerated': 0}
    nt = set()
    herr = None
    for sh, p, out, log in procs:
        p.wait()
        log.close()
        if not os.path.exists(out):
            herr = herr or ('worker %d died (rc=%s): %s' % (sh, p.returncode, open(log.name).read()[-3000:]))
            continue
        r = json.load(open(out))
        if r.get('harness_error'):
            herr = herr or ('worker %d: %s' % (sh, r['harness_error']))
        merged['evaluations'] += r['evaluations']
        merged['enumerated'] += r.get('enumerated', 0)
        for k in ('pass', 'fail', 'inconclusive'):
            merged['status'][k] += r['status'][k]
        for key in ('inconclusive', 'tags', 'tags_nontrivial', 'tags_inconclusive'):
            for k, v in r[key].items():
                merged[key][k] = merged[key].get(k, 0) + v
        nt.update(r['nontrivial_hashes'])
        for s in r['samples']:
            if len(merged['samples']) < 4:
                merged['samples'].append(s)
        for b, f in r['fails'].items():
            f['shard'] = sh
            cur = merged['fails'].get(b)
            if cur is None:
                merged['fails'][b] = f
            else:
                cnt = cur['count'] + f['count']
                if f['size'] < cur['size']:
                    merged['fails'][b] = f
                merged['fails'][b]['count'] = cnt
    if herr:
        shutil.rmtree(work, True)
        harness_exit(herr)

    # ---------------------------------------------------------------- violations: shrink + report
    excluded_known = {b: f['count'] for b, f in merged['fails'].items() if b in open_keys}
    viol = {b: f for b, f in merged['fails'].items() if b not in open_keys}
    rdir = os.path.join(VERIF, 'replays', prop)
    budget = getattr(mod, 'SHRINK_BUDGET', {'quick': 60, 'thorough': 240})[args.tier]
    lines = []
    if viol:
        os.makedirs(rdir, exist_ok=True)
    shr = []
    for i, (b, f) in enumerate(sorted(viol.items())):
        safe = ''.join(c if c.isalnum() or c in '-_.' else '_' for c in b)[:80]
        rpath = os.path.join(rdir, '%s_s%d.json' % (safe, seed))
        with open(rpath, 'w') as fh:
            json.dump({'property': prop, 'bucket': b, 'detail': f['detail'], 'case': f['case'],
                       'shrunk': False, 'seed': seed, 'tier': args.tier}, fh, indent=1, sort_keys=True)
        if not args.no_shrink and i < 16 and per > 0 and not getattr(mod, 'NO_SHRINK', False):
            sout = os.path.join(work, 'shrink%d.json' % i)
            log = open(os.path.join(work, 'shrink%d.log' % i), 'w')
            p = subprocess.Popen(worker_cmd('shrink', prop, args.tier, f['shard'], nshards, seed, per, sout, b),
                                 cwd=VERIF, env=env, stdout=log, stderr=subprocess.STDOUT)
            shr.append((b, p, sout, rpath, log))
        lines.append((b, rpath, f))
    tend = time.time() + budget
    for b, p, sout, rpath, log in shr:
        try:
            p.wait(timeout=max(1, tend - time.time()))
        except subprocess.TimeoutExpired:
            p.kill()
            p.wait()
        log.close()
        if os.path.exists(sout):
            try:
                s = json.load(open(sout))
                old = json.load(open(rpath))
                old.update(case=s['case'], detail=s['detail'], shrunk=True)
                with open(rpath, 'w') as fh:
                    json.dump(old, fh, indent=1, sort_keys=True)
            except Exception:
                pass
    for rel, bkt, det in regress['failed']:
        print('--- regression: saved witness %s fails again in bucket %s\n%s' % (rel, bkt, det))
        print('VIOLATION property=%s replay=%s' % (prop, rel))
    for b, rpath, f in lines:
        d = json.load(open(rpath))
        print('--- bucket %s (%d failing cases)\n%s' % (b, f['count'], d['detail']))
        print('VIOLATION property=%s replay=%s' % (prop, os.path.relpath(rpath, VERIF)))
    shutil.rmtree(work, True)

    # ---------------------------------------------------------------- evidence
    wall = time.time() - t0
    rule = mod.RULE
    ev = {
        'property_id': prop, 'tier': args.tier, 'seed': seed,
        'level': getattr(mod, 'LEVEL', 'exploration'),
        'coverage': {
            'evaluations': merged['evaluations'],
            'distinct_nontrivial': len(nt),
            'rule': rule,
            'samples': merged['samples'],
            'generated_by_hypothesis': merged['evaluations'] - merged['enumerated'],
            'enumerated': merged['enumerated'],
            'outcomes': merged['status'],
            'inconclusive_by_reason': merged['inconclusive'],
            'class_tallies_all_cases': dict(sorted(merged['tags'].items())),
            'class_tallies_distinct_nontrivial': dict(sorted(merged['tags_nontrivial'].items())),
            'class_tallies_inconclusive': dict(sorted(merged['tags_inconclusive'].items())),
            'excluded_known': excluded_known,
            'violation_buckets': {b: f['count'] for b, f in viol.items()},
            'tolerances': getattr(mod, 'TOLERANCES', {}),
            'shards': nshards, 'build': built,
            'fixed_findings_not_suppressed': fixed,
            'regression_witnesses_replayed': regress['replayed'],
            'regression_witnesses_failed': [r[0] for r in regress['failed']],
        },
        'assumptions': list(getattr(mod, 'ASSUMPTIONS', [])),
        'wall_s': round(wall, 2),
        'violations': len(viol) + len(regress['failed']),
    }
    if getattr(mod, 'EXHAUSTIVE', None):
        ev['coverage']['exhaustive'] = bool(mod.EXHAUSTIVE.get(args.tier, False))
        ev['coverage']['exhaustive_part'] = mod.EXHAUSTIVE.get('what', '')
    if not args.no_evidence:
        try:
            import jsonschema
            schema_p = '/root/.vp/EVIDENCE.schema.json'
            if not os.path.exists(schema_p):
                schema_p = os.path.join(VERIF, 'schemas', 'EVIDENCE.schema.json')
            jsonschema.validate(json.loads(canon(ev)), json.load(open(schema_p)))
        except Exception as e:
            if not viol:
                harness_exit('evidence does not validate: %s' % str(e)[:500])
        os.makedirs(os.path.join(VERIF, 'evidence'), exist_ok=True)
        with open(os.path.join(VERIF, 'evidence', '%s.json' % prop), 'w') as fh:
            fh.write(json.dumps(json.loads(canon(ev)), indent=1, sort_keys=True))
    print('%s %s seed=%d: %d cases (%d distinct non-trivial), pass=%d fail=%d inconclusive=%d, known-excluded=%d, %.1fs'
          % (prop, args.tier, seed, merged['evaluations'], len(nt), merged['status']['pass'],
             merged['status']['fail'], merged['status']['inconclusive'], sum(excluded_known.values()), wall))
    sys.exit(1 if (viol or regress['failed']) else 0)


if __name__ == '__main__':
    main()
