"""spec (plain data) -> WaterNetworkModel, simulation helpers, independent evaluators."""
import math
import warnings

import numpy as np

from .outcome import CaseTimeout

G = 9.81


def node_names(spec):
    return [n['name'] for k in ('junctions', 'tanks', 'reservoirs') for n in spec[k]]


def links_of(spec):
    """[(name, a, b, kind, dict)]"""
    out = []
    for k, kind in (('pipes', 'pipe'), ('pumps', 'pump'), ('valves', 'valve')):
        for l in spec[k]:
            out.append((l['name'], l['a'], l['b'], kind, l))
    return out


def build_wn(spec, controls=True):
    import wntr
    from wntr.network.controls import Comparison, Control, ControlAction, SimTimeCondition, ValueCondition
    wn = wntr.network.WaterNetworkModel()
    o = spec['opts']
    t = wn.options.time
    t.duration = o['duration']
    t.hydraulic_timestep = o['hyd']
    t.pattern_timestep = o['pat']
    t.report_timestep = o['rep']
    t.rule_timestep = o['rule']
    t.pattern_start = o['pattern_start']
    t.start_clocktime = o['start_clocktime']
    h = wn.options.hydraulic
    h.demand_multiplier = o['dm']
    h.demand_model = o['demand_model']
    h.minimum_pressure = o['pmin']
    h.required_pressure = o['preq']
    h.pressure_exponent = o['pexp']
    h.headloss = 'H-W'
    if 'trials' in o:
        h.trials = o['trials']
    for name, mult in spec['patterns'].items():
        if name in (spec.get('nowrap') or ()):
            # a pattern that does not repeat (what Pattern.binary_pattern / add_fire_fighting_demand create): 0 after its end
            from wntr.network.elements import Pattern
            wn.add_pattern(name, Pattern(name, multipliers=list(mult), time_options=wn.options.time, wrap=False))
        else:
            wn.add_pattern(name, list(mult))
    for name, c in spec['curves'].items():
        wn.add_curve(name, c['type'], [tuple(p) for p in c['pts']])
    for j in spec['junctions']:
        d0 = j['demands'][0] if j['demands'] else [0.0, None, None]
        wn.add_junction(j['name'], base_demand=d0[0], demand_pattern=d0[1], elevation=j['elev'],
                        demand_category=d0[2], coordinates=tuple(j.get('xy', (0.0, 0.0))))
        node = wn.get_node(j['name'])
        for d in j['demands'][1:]:
            node.add_demand(d[0], d[1], d[2])
        if j.get('pmin') is not None:
            node.minimum_pressure = j['pmin']
        if j.get('preq') is not None:
            node.required_pressure = j['preq']
        if j.get('pexp') is not None:
            node.pressure_exponent = j['pexp']
    for tk in spec['tanks']:
        wn.add_tank(tk['name'], elevation=tk['elev'], init_level=tk['init'], min_level=tk['min'],
                    max_level=tk['max'], diameter=tk['diam'], min_vol=tk.get('min_vol', 0.0),
                    vol_curve=tk.get('vol_curve'), coordinates=tuple(tk.get('xy', (0.0, 0.0))))
    for rs in spec['reservoirs']:
        wn.add_reservoir(rs['name'], base_head=rs['head'], head_pattern=rs.get('pat'),
                         coordinates=tuple(rs.get('xy', (0.0, 0.0))))
    # add_pipe / add_pump accept the initial status as a string, a LinkStatus or an int ('initial_status must be an int,
    # string or LinkStatus'); spec['int_status'] selects the int form
    def st_(x):
        return {'OPEN': 1, 'CLOSED': 0}[x] if spec.get('int_status') else x
    for p in spec['pipes']:
        wn.add_pipe(p['name'], p['a'], p['b'], length=p['len'], diameter=p['diam'], roughness=p['C'],
                    minor_loss=p['minor'], initial_status=st_(p['status']), check_valve=p['cv'])
    for p in spec['pumps']:
        if p['type'] == 'HEAD':
            wn.add_pump(p['name'], p['a'], p['b'], 'HEAD', p['curve'], initial_status=st_(p['status']))
        else:
            wn.add_pump(p['name'], p['a'], p['b'], 'POWER', p['power'], initial_status=st_(p['status']))
    for v in spec['valves']:
        wn.add_valve(v['name'], v['a'], v['b'], diameter=v['diam'], valve_type=v['type'], minor_loss=v['minor'],
                     initial_setting=v['setting'], initial_status=v['status'])
    for nd in spec['junctions'] + spec['tanks']:
        lk = nd.get('leak')
        if lk:
            wn.get_node(nd['name']).add_leak(wn, area=lk['area'], discharge_coeff=lk['cd'],
                                             start_time=lk['start'], end_time=lk['end'])
    if controls:
        add_controls(wn, spec)
    return wn


def share_names(spec, rot=0):
    """EPANET-style numbering in place: nodes '1'..'N' and links '1'..'M' in separate name spaces, so that junction
    '3' and pipe '3' coexist (netgen names are J*/T*/R* and L*/PU*/V*); controls of the spec are renamed with them"""
    nodes = [n['name'] for g in ('junctions', 'tanks', 'reservoirs') for n in spec[g]]
    links = [l['name'] for g in ('pipes', 'pumps', 'valves') for l in spec[g]]
    nmap = {n: str(1 + (i + rot) % len(nodes)) for i, n in enumerate(nodes)}
    lmap = {l: str(1 + (i + 2 * rot) % len(links)) for i, l in enumerate(links)} if links else {}
    for g in ('junctions', 'tanks', 'reservoirs'):
        for n in spec[g]:
            n['name'] = nmap[n['name']]
    for g in ('pipes', 'pumps', 'valves'):
        for l in spec[g]:
            l['name'], l['a'], l['b'] = lmap[l['name']], nmap[l['a']], nmap[l['b']]
    for c in spec.get('controls', []):
        c['link'] = lmap[c['link']]
        if c.get('node') is not None:
            c['node'] = nmap[c['node']]
    spec['shared_names'] = True
    return nmap, lmap


def add_controls(wn, spec):
    from wntr.network import LinkStatus
    from wntr.network.controls import Comparison, Control, ControlAction, ValueCondition, ControlPriority
    for i, c in enumerate(spec.get('controls', [])):
        link = wn.get_link(c['link'])
        if c['attr'] == 'status':
            val = {'OPEN': LinkStatus.Open, 'CLOSED': LinkStatus.Closed, 'ACTIVE': LinkStatus.Active}[c['value']]
        else:
            val = c['value']
        act = ControlAction(link, c['attr'], val)
        if c['kind'] == 'time':
            ctl = Control._time_control(wn, int(c['at']), 'CLOCK_TIME' if c.get('clock') else 'SIM_TIME',
                                        bool(c.get('daily', False)), act)
        elif c['kind'] == 'cond':
            node = wn.get_node(c['node'])
            attr = c['nattr']   # 'level' | 'pressure' | 'head'
            op = {'>': Comparison.gt, '<': Comparison.lt, '>=': Comparison.ge, '<=': Comparison.le}[c['op']]
            ctl = Control._conditional_control(node, attr, op, c['thr'], act)
        else:
            raise ValueError(c['kind'])
        if c.get('priority') is not None:
            ctl.update_priority(ControlPriority(c['priority']))
        wn.add_control(c.get('name', 'ctl%d' % i), ctl)


class SimRun(object):
    """Outcome of one WNTRSimulator run, tables as numpy arrays keyed by element name."""
    __slots__ = ('ok', 'error', 'warnings', 'times', 'node', 'link', 'results', 'exception', 'error_code', 'sim')


def run_wntr(wn, hw_approx='default', tol=None, convergence_error=False, keep=False, maxiter=None, sim=None):
    """sim: an existing WNTRSimulator object to be re-used (default: a new one); the object used is returned as out.sim"""
    import wntr
    if sim is None:
        sim = wntr.sim.WNTRSimulator(wn)
    out = SimRun()
    out.sim = sim
    out.exception = None
    out.warnings = []
    opts = {}
    if tol is not None:
        opts['TOL'] = tol
    if maxiter is not None:
        opts['MAXITER'] = maxiter
    with warnings.catch_warnings(record=True) as w:
        warnings.simplefilter('always')
        try:
            res = sim.run_sim(solver_options=opts or None, HW_approx=hw_approx, convergence_error=convergence_error)
        except CaseTimeout:
            raise
        except Exception as e:   # caller decides what an exception means
            out.ok = False
            out.exception = e
            out.warnings = [str(x.message) for x in w]
            return out
    out.warnings = [str(x.message) for x in w]
    out.error_code = res.error_code
    out.ok = res.error_code is None
    out.times = np.array(res.node['head'].index, dtype=float)
    out.node = {k: {c: res.node[k][c].values.astype(float) for c in res.node[k].columns} for k in res.node}
    out.link = {k: {c: res.link[k][c].values.astype(float) for c in res.link[k].columns} for k in res.link}
    out.results = res if keep else None
    return out


def concat_runs(runs):
    """rows of consecutive parts of one simulation as one SimRun (ok = all parts ok)"""
    out = SimRun()
    runs = list(runs)
    out.sim = runs[-1].sim
    out.exception = next((r.exception for r in runs if r.exception is not None), None)
    out.warnings = [w for r in runs for w in r.warnings]
    good = [r for r in runs if r.exception is None]
    out.ok = out.exception is None and all(r.ok for r in good)
    out.error_code = None if out.ok else 0
    out.results = None
    rows = [r for r in good if len(r.times)]
    if not rows:
        out.times = np.array([])
        out.node = good[0].node if good else {}
        out.link = good[0].link if good else {}
        return out
    out.times = np.concatenate([r.times for r in rows])
    out.node = {k: {n: np.concatenate([r.node[k][n] for r in rows]) for n in rows[0].node[k]} for k in rows[0].node}
    out.link = {k: {n: np.concatenate([r.link[k][n] for r in rows]) for n in rows[0].link[k]} for k in rows[0].link}
    return out


def run_wntr_history(wn, hist=None, **kw):
    """Runs wn through a small history and returns the SimRun whose rows are to be judged.

    hist: None                    one run
          ['rerun', 'new'|'same'] run, reset_initial_values(), run again (new / same simulator object): the second run
          ['pause', t]            run to t (on the hydraulic grid), then continue to the duration with a new simulator
                                  object: the rows of both parts
    The row-wise oracles (balances, head-flow laws, timelines, tank integration) apply to every such history unchanged.
    If the first run of a history raises or does not converge it is returned as it is (out.history_done = False)."""
    if not hist:
        r = run_wntr(wn, **kw)
        return r
    if hist[0] == 'rerun':
        r1 = run_wntr(wn, **kw)
        if r1.exception is not None or not r1.ok:
            return r1
        wn.reset_initial_values()
        return run_wntr(wn, sim=r1.sim if hist[1] == 'same' else None, **kw)
    if hist[0] == 'pause':
        dur = wn.options.time.duration
        t = int(hist[1])
        if not 0 <= t < dur:
            return run_wntr(wn, **kw)
        wn.options.time.duration = t
        r1 = run_wntr(wn, **kw)
        wn.options.time.duration = dur
        if r1.exception is not None or not r1.ok:
            return r1
        r2 = run_wntr(wn, **kw)
        return concat_runs([r1, r2])
    raise ValueError(hist)


def draw_history(draw, st, opts, share=4):
    """generator side of run_wntr_history: None most of the time, else a rerun or a pause on the hydraulic grid"""
    z = draw(st.integers(0, 2 * share - 1))
    nsteps = opts['duration'] // opts['hyd']
    if z == 0:
        return ['rerun', draw(st.sampled_from(['new', 'same']))]
    if z == 1 and nsteps >= 2:
        return ['pause', opts['hyd'] * draw(st.integers(0, nsteps - 1))]
    return None


# ----------------------------------------------------------------- independent evaluators
def pattern_mult(spec, pname, t):
    """multiplier of pattern `pname` at absolute pattern time t (pattern_start already added)"""
    if pname is None:
        return 1.0
    m = spec['patterns'][pname]
    if len(m) == 0:
        return 1.0
    step = int(math.floor(t / spec['opts']['pat']))
    if pname in (spec.get('nowrap') or ()) and len(m) > 1:
        return m[step] if 0 <= step < len(m) else 0.0
    return m[step % len(m)]


def expected_demand(spec, j, t):
    o = spec['opts']
    tot = 0.0
    for base, pat, _cat in j['demands']:
        tot += base * pattern_mult(spec, pat, t + o['pattern_start']) * o['dm']
    return tot


def reservoir_head(spec, rs, t):
    return rs['head'] * pattern_mult(spec, rs.get('pat'), t + spec['opts']['pattern_start'])


def tank_area(tk):
    return math.pi * tk['diam'] ** 2 / 4.0


def curve_interp(pts, x, xcol=0, ycol=1):
    xs = [p[xcol] for p in pts]
    ys = [p[ycol] for p in pts]
    if x <= xs[0]:
        return ys[0]
    if x >= xs[-1]:
        return ys[-1]
    for i in range(len(xs) - 1):
        if xs[i] <= x <= xs[i + 1]:
            if xs[i + 1] == xs[i]:
                return ys[i]
            return ys[i] + (ys[i + 1] - ys[i]) * (x - xs[i]) / (xs[i + 1] - xs[i])
    return ys[-1]


def tank_volume(spec, tk, level):
    if tk.get('vol_curve'):
        return curve_interp(spec['curves'][tk['vol_curve']]['pts'], level)
    return tank_area(tk) * level


def reachable_from_sources(spec, closed):
    """set of node names connected to a tank/reservoir through links not in `closed` (own BFS)"""
    adj = {}
    for name, a, b, _k, _l in links_of(spec):
        if name in closed:
            continue
        adj.setdefault(a, []).append(b)
        adj.setdefault(b, []).append(a)
    seen = set(n['name'] for n in spec['tanks'] + spec['reservoirs'])
    todo = list(seen)
    while todo:
        x = todo.pop()
        for y in adj.get(x, ()):
            if y not in seen:
                seen.add(y)
                todo.append(y)
    return seen
