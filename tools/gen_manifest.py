#!/venv/bin/python
"""Regenerates /verif/MANIFEST.json from the property modules present in vlib/props.

A property whose module exists is claimed; all others are listed under not_applicable
with the reason 'check not built yet' (only while the framework is being built).
"""
import importlib
import json
import os
import sys

VERIF = os.path.dirname(os.path.dirname(os.path.abspath(__file__)))
sys.path.insert(0, VERIF)

PROPS = [json.loads(l)['id'] for l in open(os.path.join(VERIF, 'properties.jsonl'))]

SETUP = ("/venv/bin/python -c 'import hypothesis' 2>/dev/null || /venv/bin/pip install --no-index "
         "--find-links /opt/veriftools/wheels hypothesis; mkdir -p evidence replays .work && "
         "/venv/bin/python -c \"import sys; sys.path.insert(0,'/verif'); from vlib import build; "
         "print(build.ensure_built('/repo'))\"")


def main():
    checks = []
    na = []
    for pid in PROPS:
        path = os.path.join(VERIF, 'vlib', 'props', pid.lower() + '.py')
        claimed = open(os.path.join(VERIF, 'tools', 'claimed.txt')).read().split()
        if not os.path.exists(path) or pid not in claimed:
            na.append({'property_id': pid, 'reason': 'check not built yet (framework under construction); '
                                                    'see DESIGN.md section 4 for the planned generator and oracle'})
            continue
        src = open(path).read()
        ns = {}
        # read the constant metadata without importing wntr
        import ast
        tree = ast.parse(src)
        for node in tree.body:
            if isinstance(node, ast.Assign) and len(node.targets) == 1 and isinstance(node.targets[0], ast.Name):
                name = node.targets[0].id
                if name in ('LEVEL', 'LEVEL_TEXT', 'LEVEL_NOTE', 'TECHNIQUE', 'DESIGN_REF'):
                    try:
                        ns[name] = ast.literal_eval(node.value)
                    except Exception:
                        pass
        checks.append({
            'property_id': pid,
            'quick_cmd': './vcheck %s --tier quick' % pid,
            'thorough_cmd': './vcheck %s --tier thorough' % pid,
            'evidence_file': 'evidence/%s.json' % pid,
            'replay_cmd_template': './vcheck %s --replay {path}' % pid,
            'engine': 'hypothesis-runner',
            'level_claimed': {
                'category': ns.get('LEVEL', 'exploration'),
                'text': ns.get('LEVEL_TEXT', 'Generated-input search against an explicit oracle; no violation on the '
                                             'explored cases. Absence of violations is not established.'),
                'design_ref': ns.get('DESIGN_REF', 'DESIGN.md section 4, %s' % pid),
            },
            'level_note': ns.get('LEVEL_NOTE', 'Trusted: Hypothesis 6.168, the reference model in the property '
                                               'module, numpy; for simulation properties the bundled EPANET 2.2 library '
                                               'where it is used as an oracle.'),
            'technique': ns.get('TECHNIQUE', 'property-based testing (Hypothesis) against a reference model'),
        })
    man = {
        'version': 1,
        'setup_cmd': SETUP,
        'hooks': {
            'guard': 'WNTR_VERIF',
            'enable': 'no source hooks are needed: the harness wraps module-level functions at run time '
                      '(WNTR_VERIF=1 is exported by the harness but read by nothing in /repo)',
            'baseline_off_cmd': 'cd /repo && /venv/bin/python -m pytest -ra -q -p no:cacheprovider --timeout=900 '
                                '--continue-on-collection-errors',
            'source_commits': [],
            'add_only': True,
        },
        'engines': [{
            'name': 'hypothesis-runner',
            'path': 'vlib/main.py',
            'serves_properties': [c['property_id'] for c in checks],
            'kind_free_text': 'Hypothesis 6.168 strategies sharded over 16 processes; collect-bucket-shrink runner; '
                              'cases are plain JSON and double as replay files',
        }],
        'checks': checks,
        'notes': 'All checks: ./vcheck <ID> --tier quick|thorough, honour VERIF_SEED. Known findings: '
                 'known_findings.txt. Design: DESIGN.md.',
        'not_applicable': na,
    }
    import jsonschema
    sp = '/root/.vp/MANIFEST.schema.json'
    if not os.path.exists(sp):
        sp = os.path.join(VERIF, 'schemas', 'MANIFEST.schema.json')
    jsonschema.validate(man, json.load(open(sp)))
    with open(os.path.join(VERIF, 'MANIFEST.json'), 'w') as f:
        json.dump(man, f, indent=1)
    print('claimed:', [c['property_id'] for c in checks])


if __name__ == '__main__':
    main()
