#!/venv/bin/python
"""Prints the prompt for an independent 'seeding' sub-agent for one property (only the property text, nothing from /verif)."""
import json, sys
pid = sys.argv[1]
wt = '/tmp/seed_%s' % pid.lower()
for l in open('/verif/properties.jsonl'):
    d = json.loads(l)
    if d['id'] == pid:
        break
text = ("PROPERTY %s - %s\nStatement: %s\nQuantified over: %s\nWhy the existing tests cannot settle it: %s\nCode it is anchored in: %s\nMechanisms: %s\n"
        % (d['id'], d['title'], d['statement'], d['quantifier']['text'], d['why_tests_cant'], ', '.join(d['anchors']['files']),
           '; '.join('%s (%s)' % (m['name'], m['where']) for m in d['anchors']['mechanism'])))
print("""You are helping to evaluate a verification effort for the Python package USEPA/WNTR (water network modelling). Your job is to play the role of a realistic regression: make a small change to the WNTR source code that BREAKS the semantic property below while the package still imports/compiles and the EXISTING test suite still passes. You work ONLY in your own scratch git worktree %(wt)s (create it with: git -C /repo worktree add --detach %(wt)s HEAD ; then copy the two compiled extensions so that it is importable: cp /repo/wntr/sim/aml/_evaluator*.so %(wt)s/wntr/sim/aml/ ; cp /repo/wntr/sim/network_isolation/_network_isolation*.so %(wt)s/wntr/sim/network_isolation/ ; if you change a .cpp/.hpp file rebuild with: cd %(wt)s && /venv/bin/python setup.py build_ext --inplace). To run code against your worktree use: cd %(wt)s && /venv/bin/python your_script.py (the current directory wins over the installed copy; verify with `import wntr; print(wntr.__file__)`). NEVER modify /repo itself, never commit anywhere, and do not read or use anything under /verif (it is off limits: your change must be independent of it).

%(text)s
What to produce - TWO different breaking changes (different root causes / different places in the code), each as its own pair of files:
  %(wt)s/../seed_out_%(pidl)s/A/patch.diff  (unified diff made with `git -C %(wt)s diff`, applying to a clean checkout of /repo HEAD with `git apply`)
  %(wt)s/../seed_out_%(pidl)s/A/demo.py     (a small stand-alone program: exit code 0 and prints PASS when the property holds, exit code 1 and prints FAIL when it is violated; it must FAIL with your change and PASS without it; run it from inside a source tree as `cd <tree> && /venv/bin/python demo.py`)
  %(wt)s/../seed_out_%(pidl)s/A/notes.json  ({"property": "%(pid)s", "summary": one sentence, "needs_to_manifest": what specific input / sequence / configuration is needed for the break to show, "files_changed": [...], "tests_run": [test files you ran and their result]})
  and the same under .../B/ for the second change.
Requirements for each change:
  * realistic: the kind of slip a refactoring, an optimisation or a well-meant "fix" could introduce (an off-by-one, a swapped argument, a dropped special case, a wrong unit/constant for one branch, state not reset, a condition inverted for one element type ...), NOT a blatant sabotage, and only a few lines;
  * subtle: it must need something specific to manifest - a particular element type or combination, a particular option value or unit system, an unusual but valid input, a multi-step sequence of operations, a particular timing - not something any ordinary use exposes at once;
  * it must keep the existing tests green: run the test files that exercise the code you touched, sequentially, from the worktree: cd %(wt)s && /venv/bin/python -m pytest -q -p no:cacheprovider wntr/tests/<file>.py (never use pytest-xdist; tests named test_geojson_roundtrip, test_shapefile_roundtrip, test_gis_to_wn, test_write_geojson, test_valve_layer_random, test_valve_layer_strategic and test_that_examples_run fail in this sandbox even without any change - ignore those); if a test fails because of your change, choose another change;
  * the demo must exercise the public behaviour the property talks about (not private helpers), and must be deterministic.
Work on change A completely (patch, demo verified failing with / passing without, tests), save it, then `git -C %(wt)s checkout -- .` and do change B. When finished, remove the worktree (git -C /repo worktree remove --force %(wt)s) but keep the seed_out directory. Your final message: for A and B one paragraph each (what was changed, why it breaks the property, what is needed for it to manifest, which tests you ran).""" % {'wt': wt, 'text': text, 'pid': pid, 'pidl': pid.lower()})
