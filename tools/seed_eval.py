#!/venv/bin/python
"""Confirms one seeded breaking change and runs the check(s) against it.

usage: tools/seed_eval.py <seed_out_dir> <seed id, e.g. C14-A> [extra property ids whose checks should also be run]

Steps (all in scratch worktrees of /repo under /tmp, removed afterwards; /repo itself is never touched):
  1. the patch applies to /repo HEAD, the tree still imports (C++ rebuilt when touched)
  2. demo.py fails (exit 1) with the change and passes (exit 0) without it
  3. the test files named in notes.json (plus any given by the patch's files) still pass with the change
  4. ./vcheck <property> --tier quick against the changed tree: exit 1 = detected
Writes /verif/seeded/<id>/{patch.diff, demo.py, meta.json}.
"""
import json
import os
import re
import shutil
import subprocess
import sys
import time

VERIF = os.path.dirname(os.path.dirname(os.path.abspath(__file__)))
KNOWN_BAD = ('test_geojson_roundtrip', 'test_shapefile_roundtrip', 'test_gis_to_wn', 'test_write_geojson',
             'test_valve_layer_random', 'test_valve_layer_strategic', 'test_that_examples_run')


def sh(cmd, cwd=None, env=None, timeout=3600):
    p = subprocess.run(cmd, cwd=cwd, env=env, shell=isinstance(cmd, str), stdout=subprocess.PIPE, stderr=subprocess.STDOUT,
                       text=True, timeout=timeout)
    return p.returncode, p.stdout


def worktree(path):
    sh(['git', '-C', '/repo', 'worktree', 'remove', '--force', path])
    shutil.rmtree(path, True)
    rc, out = sh(['git', '-C', '/repo', 'worktree', 'add', '--detach', path, 'HEAD'])
    if rc != 0:
        raise SystemExit('cannot create worktree: ' + out)
    for sub in ('wntr/sim/aml', 'wntr/sim/network_isolation'):
        for f in os.listdir(os.path.join('/repo', sub)):
            if f.endswith('.so'):
                shutil.copy(os.path.join('/repo', sub, f), os.path.join(path, sub, f))


def main():
    src, sid = sys.argv[1], sys.argv[2]
    extra = sys.argv[3:]
    prop = sid.split('-')[0]
    notes = {}
    if os.path.exists(os.path.join(src, 'notes.json')):
        try:
            notes = json.load(open(os.path.join(src, 'notes.json')))
        except Exception as e:
            notes = {'notes_unreadable': repr(e)}
    wt = '/tmp/sev_%s' % sid.lower().replace('-', '_')
    clean = '/tmp/sev_clean_%s' % sid.lower().replace('-', '_')
    meta = {'id': sid, 'property': prop, 'summary': notes.get('summary'), 'needs_to_manifest': notes.get('needs_to_manifest'),
            'files_changed': notes.get('files_changed'), 'repo_head': sh(['git', '-C', '/repo', 'rev-parse', '--short', 'HEAD'])[1].strip(),
            'ran': [], 'confirmed': False}
    try:
        worktree(wt)
        worktree(clean)
        patch = os.path.join(src, 'patch.diff')
        rc, out = sh(['git', '-C', wt, 'apply', patch])
        meta['ran'].append({'cmd': 'git apply patch.diff (worktree of /repo HEAD)', 'rc': rc, 'out': out[-500:]})
        if rc != 0:
            meta['problem'] = 'patch does not apply'
            return finish(meta, src, sid)
        ptxt = open(patch).read()
        if re.search(r'\.(cpp|hpp)\b', ptxt):
            rc, out = sh(['/venv/bin/python', 'setup.py', 'build_ext', '--inplace'], cwd=wt)
            meta['ran'].append({'cmd': 'setup.py build_ext --inplace', 'rc': rc, 'out': out[-300:]})
            if rc != 0:
                meta['problem'] = 'does not compile'
                return finish(meta, src, sid)
        env = dict(os.environ, PYTHONWARNINGS='ignore', PYTHONHASHSEED='0')
        for tree, label, want in ((wt, 'with the change', 1), (clean, 'without the change', 0)):
            shutil.copy(os.path.join(src, 'demo.py'), os.path.join(tree, 'demo_seed.py'))
            rc, out = sh(['/venv/bin/python', 'demo_seed.py'], cwd=tree, env=env, timeout=1200)
            meta['ran'].append({'cmd': 'demo.py ' + label, 'rc': rc, 'expected_rc': want, 'out': out[-400:]})
            os.remove(os.path.join(tree, 'demo_seed.py'))
            if rc != want:
                meta['problem'] = 'demo.py %s: exit %s, expected %s' % (label, rc, want)
                return finish(meta, src, sid)
        tests = []
        for t in notes.get('tests_run', []) or []:
            m = re.search(r'(wntr/tests/\S+?\.py)', t if isinstance(t, str) else json.dumps(t))
            if m and m.group(1) not in tests and os.path.exists(os.path.join(wt, m.group(1))):
                tests.append(m.group(1))
        if tests:
            rc, out = sh(['/venv/bin/python', '-m', 'pytest', '-q', '-p', 'no:cacheprovider', '--timeout=900'] + tests,
                         cwd=wt, env=env, timeout=7200)
            failed = [l for l in out.splitlines() if l.startswith('FAILED') or l.startswith('ERROR')]
            unexpected = [l for l in failed if not any(k in l for k in KNOWN_BAD)]
            meta['ran'].append({'cmd': 'pytest ' + ' '.join(tests) + ' (with the change)', 'rc': rc,
                                'out': out.strip().splitlines()[-1] if out.strip() else '', 'unexpected_failures': unexpected})
            if unexpected:
                meta['problem'] = 'existing tests fail with the change'
                return finish(meta, src, sid)
        else:
            meta['ran'].append({'cmd': 'pytest', 'note': 'no test files named in notes.json'})
        meta['confirmed'] = True
        # ---- the checks
        meta['checks'] = {}
        for p in [prop] + extra:
            env2 = dict(env, WNTR_VERIF_REPO=wt)
            t0 = time.time()
            rc, out = sh([os.path.join(VERIF, 'vcheck'), p, '--tier', 'quick', '--no-evidence'], cwd=VERIF, env=env2, timeout=3600)
            viol = [l for l in out.splitlines() if l.startswith('VIOLATION')]
            buckets = [l[len('--- bucket '):] for l in out.splitlines() if l.startswith('--- bucket ')]
            meta['checks'][p] = {'cmd': 'WNTR_VERIF_REPO=%s ./vcheck %s --tier quick --no-evidence' % (wt, p), 'rc': rc,
                                 'detected': rc == 1, 'violation_lines': len(viol), 'buckets': buckets[:8],
                                 'summary': out.strip().splitlines()[-1] if out.strip() else '', 'wall_s': round(time.time() - t0, 1)}
            # move replay files produced against the seeded tree out of the way
            rdir = os.path.join(VERIF, 'replays', p)
            if os.path.isdir(rdir):
                dst = os.path.join(VERIF, 'replays', 'seeded_' + sid)
                os.makedirs(dst, exist_ok=True)
                for f in os.listdir(rdir):
                    if os.path.getmtime(os.path.join(rdir, f)) >= t0:
                        shutil.move(os.path.join(rdir, f), os.path.join(dst, f))
        return finish(meta, src, sid)
    finally:
        for p in (wt, clean):
            sh(['git', '-C', '/repo', 'worktree', 'remove', '--force', p])
            shutil.rmtree(p, True)
        sh(['git', '-C', '/repo', 'worktree', 'prune'])


def finish(meta, src, sid):
    # a change is kept under /verif/seeded only when it was confirmed; rejected ones go to /tmp for inspection
    dst = os.path.join(VERIF, 'seeded', sid) if meta.get('confirmed') else os.path.join('/tmp/seed_rejected', sid)
    os.makedirs(dst, exist_ok=True)
    try:        # the hand-written account of earlier evaluations survives a re-evaluation
        old = json.load(open(os.path.join(dst, 'meta.json')))
        if old.get('history') and 'history' not in meta:
            meta['history'] = old['history']
    except Exception:
        pass
    for f in ('patch.diff', 'demo.py'):
        if os.path.exists(os.path.join(src, f)):
            shutil.copy(os.path.join(src, f), os.path.join(dst, f))
    with open(os.path.join(dst, 'meta.json'), 'w') as fh:
        json.dump(meta, fh, indent=1)
    print(json.dumps({k: meta.get(k) for k in ('id', 'confirmed', 'problem', 'summary')}, indent=1))
    for p, c in (meta.get('checks') or {}).items():
        print('  check %s: detected=%s rc=%s %s %s' % (p, c['detected'], c['rc'], c['buckets'][:3], c['summary']))


if __name__ == '__main__':
    main()
