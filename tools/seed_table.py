#!/venv/bin/python
"""Prints the markdown table of seeded changes (seeded/*/meta.json) for DESIGN.md section 8."""
import glob, json, os
V = os.path.dirname(os.path.dirname(os.path.abspath(__file__)))
print('| seed | breaks | change (one line) | needs to manifest | quick check result |')
print('|---|---|---|---|---|')
for f in sorted(glob.glob(os.path.join(V, 'seeded', '*', 'meta.json'))):
    m = json.load(open(f))
    if not m.get('confirmed'):
        continue
    res = []
    for p, c in sorted((m.get('checks') or {}).items()):
        b = '; '.join(x.split(' (')[0] for x in c.get('buckets', [])[:3])
        res.append('%s: %s%s' % (p, 'DETECTED' if c['detected'] else 'missed', (' (' + b + ')') if b else ''))
    hist = m.get('history')
    if hist:
        res.append(hist)
    def cell(x, n):
        x = (x or '').replace('|', '/').replace('\n', ' ')
        return x if len(x) <= n else x[:n - 3] + '...'
    print('| %s | %s | %s | %s | %s |' % (m['id'], m['property'], cell(m.get('summary'), 260), cell(m.get('needs_to_manifest'), 220), cell(' // '.join(res), 300)))
