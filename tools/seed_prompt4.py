#!/venv/bin/python
"""Round-4 seeding prompt: like seed_prompt2.py, one change 'E', told what rounds A/B/C/D already did (their own summaries)."""
import json, os, subprocess, sys
pid = sys.argv[1]
base = subprocess.run(['/verif/tools/seed_prompt.py', pid], capture_output=True, text=True).stdout
prev = []
for x in ('A', 'B', 'C', 'D'):
    f = '/verif/seeded/%s-%s/meta.json' % (pid, x)
    if os.path.exists(f):
        m = json.load(open(f))
        prev.append('- %s' % (m.get('summary') or ''))
extra = ("""

ROUND 4. Four breaking changes were already collected for this property in earlier rounds:
%s
Produce exactly ONE further change (store it under .../E/ instead of A and B; ignore the instruction to make two) that is of a DIFFERENT KIND from those and touches a different function from all of them, as hard to notice as you can make it while still being a realistic slip a maintainer could merge. Prefer, in this order: (1) a defect that only shows when TWO features the property quantifies over are combined (for example a second demand category together with a pattern start offset, a check valve on a pipe that a control also closes, a leak on a tank that also has a volume curve, a rule and a simple control on the same link, a unit system together with a non-default option) while each feature alone still behaves correctly; (2) a defect in how an option or argument with a non-default but documented value is handled (a keyword argument most callers leave at its default, an option value other than the first one in the documentation, None versus 0, a list versus a scalar, a name given as an object instead of a string); (3) a defect that depends on ORDER - the order in which elements were added, in which controls were registered, in which dictionary keys or set members are iterated - so that the common order works and another valid order does not. Avoid anything that the previous changes already touch.""" % '\n'.join(prev))
print(base.replace('/seed_%s' % pid.lower(), '/seed4_%s' % pid.lower()).replace('seed_out_%s' % pid.lower(), 'seed4_out_%s' % pid.lower()) + extra)
