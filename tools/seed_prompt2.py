#!/venv/bin/python
"""Round-2 seeding prompt: like seed_prompt.py, one change 'C', told what rounds A/B already did (their own summaries)."""
import json, os, subprocess, sys
pid = sys.argv[1]
base = subprocess.run(['/verif/tools/seed_prompt.py', pid], capture_output=True, text=True).stdout
prev = []
for x in ('A', 'B'):
    f = '/verif/seeded/%s-%s/meta.json' % (pid, x)
    if os.path.exists(f):
        m = json.load(open(f))
        prev.append('- %s' % (m.get('summary') or ''))
extra = ("""

ROUND 2. Two breaking changes were already collected for this property in an earlier round:
%s
Produce exactly ONE further change (store it under .../C/ instead of A and B; ignore the instruction to make two) that is of a DIFFERENT KIND from those, and as hard to notice as you can make it while still being a realistic slip. Prefer, in this order: (1) two cooperating edits in different functions or files that each look harmless alone and only together break the property; (2) a defect that needs a multi-step history of API calls or of simulation events (pause/restart, reset, remove/re-add, a control firing after another one, a second run of the same object) before it shows; (3) a defect confined to an unusual but valid corner of the input space that the anchored code handles with a special case (a particular unit system, element type, option combination, boundary value, status). Avoid anything that the previous two changes already touch.""" % '\n'.join(prev))
print(base.replace('/seed_%s' % pid.lower(), '/seed2_%s' % pid.lower()).replace('seed_out_%s' % pid.lower(), 'seed2_out_%s' % pid.lower()) + extra)
