#!/venv/bin/python
"""Round-3 seeding prompt: like seed_prompt2.py, one change 'D', told what rounds A/B/C already did (their own summaries)."""
import json, os, subprocess, sys
pid = sys.argv[1]
base = subprocess.run(['/verif/tools/seed_prompt.py', pid], capture_output=True, text=True).stdout
prev = []
for x in ('A', 'B', 'C'):
    f = '/verif/seeded/%s-%s/meta.json' % (pid, x)
    if os.path.exists(f):
        m = json.load(open(f))
        prev.append('- %s' % (m.get('summary') or ''))
extra = ("""

ROUND 3. Three breaking changes were already collected for this property in earlier rounds:
%s
Produce exactly ONE further change (store it under .../D/ instead of A and B; ignore the instruction to make two) that is of a DIFFERENT KIND from those and touches a different function from all of them, as hard to notice as you can make it while still being a realistic slip a maintainer could merge. Prefer, in this order: (1) a defect confined to an unusual but valid corner of the input space that the anchored code handles with a special case or that only some callers reach (a particular element type, status, option combination, unit system, boundary value, an empty or single-element collection, equal values, a name that sorts differently, a zero, a negative number); (2) a defect in a code path reached only through a less common public entry point to the same functionality (another constructor, a setter instead of the add_* method, the object API instead of the file reader, a different solver or option value); (3) a wrong result that is close to the right one (off by one step, one tolerance, one sign in a rarely taken branch) rather than grossly wrong. Avoid anything that the previous changes already touch.""" % '\n'.join(prev))
print(base.replace('/seed_%s' % pid.lower(), '/seed3_%s' % pid.lower()).replace('seed_out_%s' % pid.lower(), 'seed3_out_%s' % pid.lower()) + extra)
