#!/venv/bin/python
"""Re-runs the quick check(s) against a stored seeded change and refreshes meta.json['checks'].

usage: tools/seed_recheck.py <seed id> [property ids; default: the ones already in meta.json['checks']] [--seed N]
The change is applied in a scratch worktree of /repo under /tmp (removed afterwards); /repo is never touched.
"""
import json
import os
import re
import shutil
import sys
import time

sys.path.insert(0, os.path.dirname(os.path.abspath(__file__)))
from seed_eval import VERIF, sh, worktree  # noqa: E402


def main():
    args = [a for a in sys.argv[1:]]
    vseed = '1'
    if '--seed' in args:
        i = args.index('--seed')
        vseed = args[i + 1]
        del args[i:i + 2]
    sid = args[0]
    d = os.path.join(VERIF, 'seeded', sid)
    meta = json.load(open(os.path.join(d, 'meta.json')))
    props = args[1:] or sorted(meta.get('checks') or {}) or [meta['property']]
    wt = '/tmp/srk_%s' % sid.lower().replace('-', '_')
    try:
        worktree(wt)
        rc, out = sh(['git', '-C', wt, 'apply', os.path.join(d, 'patch.diff')])
        if rc != 0:
            raise SystemExit('patch does not apply to /repo HEAD: ' + out)
        if re.search(r'\.(cpp|hpp)\b', open(os.path.join(d, 'patch.diff')).read()):
            rc, out = sh(['/venv/bin/python', 'setup.py', 'build_ext', '--inplace'], cwd=wt)
            if rc != 0:
                raise SystemExit('does not compile')
        env = dict(os.environ, PYTHONWARNINGS='ignore', PYTHONHASHSEED='0', WNTR_VERIF_REPO=wt, VERIF_SEED=vseed)
        for p in props:
            t0 = time.time()
            rc, out = sh([os.path.join(VERIF, 'vcheck'), p, '--tier', 'quick', '--no-evidence'], cwd=VERIF, env=env, timeout=3600)
            viol = [l for l in out.splitlines() if l.startswith('VIOLATION')]
            buckets = [l[len('--- bucket '):] for l in out.splitlines() if l.startswith('--- bucket ')]
            res = {'cmd': 'WNTR_VERIF_REPO=<tree with the change> VERIF_SEED=%s ./vcheck %s --tier quick --no-evidence' % (vseed, p),
                   'rc': rc, 'detected': rc == 1, 'violation_lines': len(viol), 'buckets': buckets[:8],
                   'summary': out.strip().splitlines()[-1] if out.strip() else '', 'wall_s': round(time.time() - t0, 1)}
            print('  %s check %s: detected=%s rc=%s %s %s' % (sid, p, res['detected'], rc, buckets[:3], res['summary']))
            if vseed == '1':
                meta.setdefault('checks', {})[p] = res
            rdir = os.path.join(VERIF, 'replays', p)
            if os.path.isdir(rdir):
                dst = os.path.join(VERIF, 'replays', 'seeded_' + sid)
                os.makedirs(dst, exist_ok=True)
                for f in os.listdir(rdir):
                    if os.path.getmtime(os.path.join(rdir, f)) >= t0:
                        shutil.move(os.path.join(rdir, f), os.path.join(dst, f))
        meta['repo_head'] = sh(['git', '-C', '/repo', 'rev-parse', '--short', 'HEAD'])[1].strip()
        json.dump(meta, open(os.path.join(d, 'meta.json'), 'w'), indent=1)
    finally:
        sh(['git', '-C', '/repo', 'worktree', 'remove', '--force', wt])
        shutil.rmtree(wt, True)
        sh(['git', '-C', '/repo', 'worktree', 'prune'])


if __name__ == '__main__':
    main()
